#!/bin/bash
# False-alarm test: applies a behaviour-preserving patch to a scratch copy of /repo (removed at once) and runs
# the rules of every property (or of those given) there. Any violated key is a false alarm of the machinery.
#   usage: benigntest.sh <patch> [Cxx...]     prints "QUIET <patch>" or "ALARM <patch> Cxx" + keys; exit 1 on alarm
set -u
HERE="$(cd "$(dirname "${BASH_SOURCE[0]}")" && pwd)"
PATCH=$(readlink -f "$1"); shift
PROPS=("$@"); [ ${#PROPS[@]} -eq 0 ] && PROPS=($(seq -f 'C%02g' 1 39))
S=$(mktemp -d "${TMPDIR:-/tmp}/plzbenign.XXXXXX")
rsync -a --exclude .git --exclude plz-out --exclude '.plz-cache-*' /repo/ "$S/"
if ! (cd "$S" && patch -p1 -s --no-backup-if-mismatch < "$PATCH" >/dev/null 2>&1); then echo "SKIPPED $PATCH: does not apply"; rm -rf "$S"; exit 2; fi
rc=0
OUT=$(printf '%s\n' "${PROPS[@]}" | REPO="$S" xargs -P 6 -I{} bash -c 'o=$("'"$HERE"'/run.sh" {} --keys 2>&1); rc=$?; if echo "$o" | grep -q "^KEY "; then echo "ALARM {}"; echo "$o" | grep "^KEY " | cut -c1-300 | sed "s/^/    {} /"; elif [ $rc -ne 0 ]; then echo "BROKEN {} rc=$rc"; echo "$o" | tail -3 | sed "s/^/    {} /"; fi')
rm -rf "$S"
if [ -n "$OUT" ]; then echo "ALARM $PATCH"; echo "$OUT"; exit 1; fi
echo "QUIET $PATCH"
