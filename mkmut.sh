#!/bin/bash
# mkmut.sh <name> <file> <old> <new> : makes mutants/<name>.patch from a one-site textual edit of
# /repo's <file>. Works on a scratch copy: /repo itself is never modified.
set -e
T=$(mktemp -d /tmp/mkmut.XXXXXX)
mkdir -p "$T/a/$(dirname "$2")" "$T/b/$(dirname "$2")"
cp "/repo/$2" "$T/a/$2"
python3 - "$T/a/$2" "$T/b/$2" "$3" "$4" <<'PY'
import sys
src,dst,old,new=sys.argv[1:5]
s=open(src).read()
assert s.count(old)>=1, "pattern not found: "+old
open(dst,'w').write(s.replace(old,new,1))
PY
(cd "$T" && diff -u "a/$2" "b/$2" > /verif/mutants/$1.patch) || true
rm -rf "$T"
test -s /verif/mutants/$1.patch && echo "made $1"
