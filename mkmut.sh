#!/bin/bash
# mkmut.sh <name> <file> <old> <new> : makes mutants/<name>.patch from a one-site textual edit of /repo (edit is reverted)
set -e
cd /repo
python3 - "$2" "$3" "$4" <<'PY'
import sys
p,old,new=sys.argv[1],sys.argv[2],sys.argv[3]
s=open(p).read()
assert s.count(old)>=1, "pattern not found: "+old
open(p,'w').write(s.replace(old,new,1))
PY
git diff > /verif/mutants/$1.patch
git checkout -q -- .
echo "made $1"
