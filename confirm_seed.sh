#!/bin/bash
# confirm_seed.sh <seeded/ID dir> : confirms a seeded change in a scratch copy of its base commit:
#   demo passes without the patch, fails with it; patch applies; pinned suite still passes with it.
# Reads <dir>/confirm.json {"base": commit, "copy": [[file, destdir],...], "cmd": "go test ..."}; writes <dir>/confirmed.txt
set -u
D=$(readlink -f "$1")
export PATH=/opt/veriftools/go1.26.8/bin:$PATH GOTOOLCHAIN=local GOFLAGS=-mod=mod GOPROXY=off GOSUMDB=off
unset GOWORK
BASE=$(jq -r .base "$D/confirm.json"); CMD=$(jq -r .cmd "$D/confirm.json")
S=$(mktemp -d /tmp/seedconf.XXXXXX)
git -C /repo archive "$BASE" | tar -x -C "$S"
jq -r '.copy[] | @tsv' "$D/confirm.json" | while IFS=$'\t' read -r f dest; do mkdir -p "$S/$dest"; cp "$D/demo/$f" "$S/$dest/"; done
OUT="$D/confirmed.txt"; : > "$OUT"
echo "base=$BASE cmd=$CMD" >> "$OUT"
(cd "$S" && timeout 900 bash -c "$CMD") > "$S/.run0.log" 2>&1; rc0=$?
echo "demo without patch: exit $rc0" >> "$OUT"
if ! (cd "$S" && git apply --check "$D/patch.diff" 2>/dev/null || patch -p1 --dry-run -s < "$D/patch.diff" >/dev/null 2>&1); then echo "patch does not apply to base" >> "$OUT"; fi
(cd "$S" && patch -p1 -s < "$D/patch.diff") >> "$OUT" 2>&1
(cd "$S" && go build ./src/... ) >> "$OUT" 2>&1; echo "build with patch: exit $?" >> "$OUT"
(cd "$S" && timeout 900 bash -c "$CMD") > "$S/.run1.log" 2>&1; rc1=$?
echo "demo with patch: exit $rc1" >> "$OUT"
grep -E "^(--- FAIL|FAIL|ok|panic)" "$S/.run1.log" | head -5 >> "$OUT"
# pinned suite with the patch but without the demo files
jq -r '.copy[] | @tsv' "$D/confirm.json" | while IFS=$'\t' read -r f dest; do rm -f "$S/$dest/$f"; done
REPO="$S" /verif/baseline.sh > "$S/.base.log" 2>&1; rcb=$?
tail -3 "$S/.base.log" >> "$OUT"
if [ $rc0 -eq 0 ] && [ $rc1 -ne 0 ] && [ $rcb -eq 0 ]; then echo "CONFIRMED" >> "$OUT"; else echo "NOT-CONFIRMED rc0=$rc0 rc1=$rc1 baseline=$rcb" >> "$OUT"; fi
rm -rf "$S"
tail -1 "$OUT"
