#!/bin/bash
# validates MANIFEST.json and evidence/*.json against the schemas
cd "$(dirname "$0")"
python3-vt - <<'PY'
import json,glob,jsonschema,sys
jsonschema.validate(json.load(open('MANIFEST.json')),json.load(open('/root/.vp/MANIFEST.schema.json')))
es=json.load(open('/root/.vp/EVIDENCE.schema.json'))
n=0
for f in sorted(glob.glob('evidence/*.json')):
    jsonschema.validate(json.load(open(f)),es); n+=1
print("manifest valid; evidence files valid:",n)
PY
