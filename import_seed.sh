#!/bin/bash
# import_seed.sh <id> [base]: copies /tmp/seed-out/<id> (written by an independent sub-agent) to seeded/<id>
# and derives confirm.json from its meta.json
set -e
ID=$1; BASE=${2:-c3626e6}
S=/tmp/seed-out/$ID; D=/verif/seeded/$ID
mkdir -p $D/demo
cp $S/patch.diff $S/meta.json $D/
cp -r $S/demo/. $D/demo/
python3 - "$D" "$BASE" <<'PY'
import json,sys,os
d,base=sys.argv[1],sys.argv[2]
m=json.load(open(d+'/meta.json'))
files=[f for f in os.listdir(d+'/demo') if f.endswith('.go')]
c={"base":base,"cmd":m["demo_cmd"],"copy":[[f,m["demo_dir"]] for f in files]}
json.dump(c,open(d+'/confirm.json','w'),indent=1)
print(c)
PY
