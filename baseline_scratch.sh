#!/bin/bash
# Runs the pinned suite on a scratch copy of /repo's working tree (tracked files incl. uncommitted edits),
# so that test artefacts never land in /repo. Prints the same summary as baseline.sh.
S=$(mktemp -d /tmp/basescratch.XXXXXX)
(cd /repo && git ls-files -z | rsync -a --from0 --files-from=- . "$S/")
(cd "$S" && git -C /repo diff --quiet -- src/plzinit/BUILD || git -C /repo show HEAD:src/plzinit/BUILD > "$S/src/plzinit/BUILD")
REPO="$S" /verif/baseline.sh; rc=$?
rm -rf "$S"
exit $rc
