#!/bin/bash
# Runs the repository's pinned test suite (guard off: there are no hooks) and
# checks that every test in BASELINE.json's stable_pass list still passes.
export PATH=/opt/veriftools/go1.26.8/bin:$PATH GOTOOLCHAIN=local GOFLAGS=-mod=mod GOPROXY=off GOSUMDB=off
unset GOWORK
REPO="${REPO:-/repo}"
OUT=$(mktemp)
for m in . ./test; do
  (cd "$REPO/$m" && go test -json -vet=off -count=1 -timeout 25m ./... 2>/dev/null) >> "$OUT"
done
python3 - "$OUT" <<'PY'
import json,sys
passed=set()
for l in open(sys.argv[1], errors='replace'):
    try: e=json.loads(l)
    except Exception: continue
    if e.get('Action')=='pass' and e.get('Test'):
        passed.add(e['Package']+'::'+e['Test'])
b=json.load(open('/root/.vp/BASELINE.json'))
missing=[t for t in b['stable_pass'] if t not in passed]
print("stable_pass:",len(b['stable_pass']),"passing now:",len(b['stable_pass'])-len(missing))
for t in missing: print("  NOT PASSING:",t)
sys.exit(1 if missing else 0)
PY
rc=$?
rm -f "$OUT"
exit $rc
