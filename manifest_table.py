# table of claimed properties; exec'd by gen_manifest.py
