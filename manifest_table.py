# table of claimed properties; exec'd by gen_manifest.py
NOTE = "Trusted base: go/packages+go/types+go/ssa (x/tools v0.29.0) and the anchor tables in plzcheck/*.go. Decides structural necessary conditions only; the runtime behaviour itself is not decided."
CLAIMED["C20"] = ("component-boundary rule on SSA value flow (prefixbound) + path enumeration of the pattern predicates",
  "Every prefix/substring test between two package/directory paths anywhere in the repository is component-bounded, and every true-returning path of Includes/Matches/IsIncludedIn carries a package-equality or (`...` + bounded-prefix/root) fact. A broken instance makes `//p/...` select `//pfoo`. Label round-trip is a value property and is not decided.",
  NOTE, "DESIGN.md 4(E1), 5(C20)")
CLAIMED["C22"] = ("component-boundary rule on SSA value flow inside the BUILD-file walker + prune-path enumeration",
  "Inside FindAllBuildFiles every prefix test between the walked path and a configured directory is component-bounded, and the walk callback has a SkipDir-returning path under each of the plz-out, hidden-directory and blacklist tests. The set of directories visited at run time is not decided.",
  NOTE, "DESIGN.md 4(E1), 5(C22)")
CLAIMED["C15"] = ("lockset dataflow (guarded field / lock balance) + path enumeration (close discipline, lost wake-up, first-caller) over package cmap",
  "For every function of package cmap and every path: accesses to shard.m hold shard.l in the right mode; lock operations balance; a Wait channel is closed only under the write lock, for an entry read from the map and overwritten in the same critical section; no entry that may carry waiters is overwritten without closing its channel (absence must be established in the same critical section); readers that report presence/values look at the placeholder marker; the first caller of ErrMap.GetOrSet always stores a value or error. Linearizability of whole histories is not decided.",
  NOTE, "DESIGN.md 4(E6), 5(C15)")
