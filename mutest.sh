#!/bin/bash
# Checker self-test: applies each given patch to a scratch copy of /repo (outside
# /repo and /verif, removed immediately), runs one property's rules there with
# --keys and prints the violated obligation keys. Nothing from the copy is executed.
#   usage: mutest.sh <Cxx> <patch>...      exit 0 iff every patch applied and was detected
set -u
HERE="$(cd "$(dirname "${BASH_SOURCE[0]}")" && pwd)"
PROP="$1"; shift
rc=0
for PATCH in "$@"; do
  PATCH=$(readlink -f "$PATCH")
  S=$(mktemp -d "${TMPDIR:-/tmp}/plzmut.XXXXXX")
  rsync -a --exclude .git --exclude plz-out --exclude '.plz-cache-*' /repo/ "$S/"
  if ! (cd "$S" && patch -p1 -s --no-backup-if-mismatch < "$PATCH" >/dev/null 2>&1); then
    echo "SKIPPED $PROP $(basename "$PATCH"): does not apply to the current tree"
    rm -rf "$S"; continue
  fi
  OUT=$(REPO="$S" "$HERE/run.sh" "$PROP" --keys 2>&1)
  rm -rf "$S"
  if echo "$OUT" | grep -q '^KEY '; then
    echo "DETECTED $PROP $(basename "$PATCH"):"; echo "$OUT" | grep '^KEY ' | cut -c1-260 | sed 's/^/    /'
  else
    echo "MISSED $PROP $(basename "$PATCH")"; echo "$OUT" | tail -3; rc=1
  fi
done
exit $rc
