#!/bin/bash
# confirm_queue.sh <seed id>... : confirms seeds one after another, serialised across invocations by a
# file lock (retrying once: the pinned suite has load-sensitive tests); appends to /tmp/confirm_queue.log
exec 9>/tmp/confirm_queue.lock
flock 9
for id in "$@"; do
  # every scratch copy has its own paths, so the Go build cache grows by a few hundred MB per confirmation
  if [ "$(du -sm "${GOCACHE:-$HOME/.cache/go-build}" 2>/dev/null | cut -f1)" -gt 40000 ] 2>/dev/null; then
    PATH=/opt/veriftools/go1.26.8/bin:$PATH GOTOOLCHAIN=local go clean -cache
  fi
  for try in 1 2; do
    res=$(/verif/confirm_seed.sh /verif/seeded/$id | tail -1)
    echo "$(date +%H:%M) $id try$try: $res" >> /tmp/confirm_queue.log
    case "$res" in CONFIRMED*) break;; esac
  done
done
