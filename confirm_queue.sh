#!/bin/bash
# confirm_queue.sh <seed id>... : confirms seeds one after another (retrying once: the pinned suite has
# load-sensitive tests); appends to /tmp/confirm_queue.log
for id in "$@"; do
  for try in 1 2; do
    res=$(/verif/confirm_seed.sh /verif/seeded/$id | tail -1)
    echo "$(date +%H:%M) $id try$try: $res" >> /tmp/confirm_queue.log
    case "$res" in CONFIRMED*) break;; esac
  done
done
