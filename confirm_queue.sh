#!/bin/bash
# confirm_queue.sh <seed id>... : confirms seeds one after another, serialised across invocations by a
# file lock (retrying once: the pinned suite has load-sensitive tests); appends to /tmp/confirm_queue.log
exec 9>/tmp/confirm_queue.lock
flock 9
for id in "$@"; do
  for try in 1 2; do
    res=$(/verif/confirm_seed.sh /verif/seeded/$id | tail -1)
    echo "$(date +%H:%M) $id try$try: $res" >> /tmp/confirm_queue.log
    case "$res" in CONFIRMED*) break;; esac
  done
done
