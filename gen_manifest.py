#!/usr/bin/env python3
"""Regenerates MANIFEST.json from the table below (one entry per claimed property)."""
import json, sys

BASELINE_OFF = ("cd /repo && export PATH=/opt/veriftools/go1.26.8/bin:$PATH GOTOOLCHAIN=local GOFLAGS=-mod=mod GOPROXY=off GOSUMDB=off && "
                "go test -vet=off -count=1 -timeout 25m ./... ; (cd test && go test -vet=off -count=1 ./...)")

# id -> (technique, level text, level note, design ref)
CLAIMED = {}

# properties never claimed, with the reason (DESIGN.md section 6)
NA = {
}
PENDING = "static check for this property is designed (DESIGN.md section 5) but not yet built and validated both ways; not claimed until it is"

ALL = ["C%02d" % i for i in range(1, 40)]

def main():
    exec(open("manifest_table.py").read(), globals())
    checks = []
    for pid in ALL:
        if pid not in CLAIMED:
            continue
        tech, text, note, ref = CLAIMED[pid]
        if pid in globals().get("EXTRA", {}):
            text = text + " " + EXTRA[pid]
        checks.append({
            "property_id": pid,
            "quick_cmd": "./run.sh %s --tier quick" % pid,
            "thorough_cmd": "./run.sh %s --tier thorough" % pid,
            "evidence_file": "evidence/%s.json" % pid,
            "replay_cmd_template": "./run.sh --explain {path}",
            "engine": "plzcheck",
            "level_claimed": {"category": "other", "text": text, "design_ref": ref},
            "level_note": note,
            "technique": tech,
        })
    na = []
    for pid in ALL:
        if pid in CLAIMED:
            continue
        na.append({"property_id": pid, "reason": NA.get(pid, PENDING)})
    m = {
        "version": 1,
        "setup_cmd": "./run.sh --build",
        "hooks": {"guard": "verif", "enable": "none needed: the analyser reads source only; no hook commits exist",
                  "baseline_off_cmd": BASELINE_OFF, "source_commits": [], "add_only": True},
        "engines": [{"name": "plzcheck", "path": "plzcheck/", "serves_properties": sorted(CLAIMED),
                     "kind_free_text": "repository-specific static analyser over go/packages + go/types + go/ssa (x/tools v0.29.0): dominance/must-pass-through, branch-fact, value-flow, lockset, who-may-call and table-agreement rules; nothing from the repository is executed"}],
        "checks": checks,
        "not_applicable": na,
        "notes": "All claims are level 'other': each check decides structural necessary conditions of its property over every path/call site/field in the resolved program, not the runtime behaviour itself. See DESIGN.md.",
    }
    json.dump(m, open("MANIFEST.json", "w"), indent=1)
    print("claimed", len(checks), "n/a", len(na))

main()
