#!/bin/bash
# Entry point for every check: sets the offline Go environment, (re)builds the
# analyser if its sources are newer than the binary, then runs it against /repo.
#   ./run.sh Cxx --tier quick      the rules of property Cxx on /repo's working tree
#   ./run.sh Cxx --tier thorough   the same for every GOOS variant registered for Cxx, preceded by the checker
#                                  self-test: every mutants/Cxx-*.patch and every seeded/Cxx-*/patch is applied to a
#                                  scratch copy (outside /repo and /verif, removed at once) and must be detected
set -u
HERE="$(cd "$(dirname "${BASH_SOURCE[0]}")" && pwd)"
export PATH=/opt/veriftools/go1.26.8/bin:$PATH
export GOTOOLCHAIN=local GOFLAGS=-mod=mod GOPROXY=off GOSUMDB=off CGO_ENABLED=0
unset GOWORK
BIN="$HERE/bin/plzcheck"
build() {
  mkdir -p "$HERE/bin"
  (cd "$HERE/plzcheck" && go build -o "$BIN" .) || { echo "plzcheck build failed"; exit 2; }
}
stale() {
  [ ! -x "$BIN" ] && return 0
  [ -n "$(find "$HERE/plzcheck" -name '*.go' -newer "$BIN" -print -quit)" ] && return 0
  [ "$HERE/plzcheck/go.mod" -nt "$BIN" ] && return 0
  return 1
}
case "${1:-}" in
  --build)
    build
    # warm the compiler's export-data cache for the pinned tree (pure compilation; nothing is run)
    "$BIN" WARM --repo "${REPO:-/repo}" >/dev/null 2>&1 || true
    exit 0;;
  --explain)
    stale && build
    case "$2" in /*) exec "$BIN" --explain "$2";; *) exec "$BIN" --explain "$HERE/$2";; esac;;
esac
stale && build
PROP="${1:-}"
TIER=quick
prev=""
for a in "$@"; do [ "$prev" = "--tier" ] && TIER="$a"; prev="$a"; done
if [ "$TIER" = "thorough" ] && [ -z "${REPO:-}" ] && [[ "$PROP" =~ ^C[0-9]+$ ]]; then
  # checker self-test on scratch copies (static as well: the patched copies are analysed, never built or run)
  ST=$(mktemp "${TMPDIR:-/tmp}/plzselftest.XXXXXX")
  patches=()
  for f in "$HERE"/mutants/$PROP-*.patch; do [ -f "$f" ] && patches+=("$f"); done
  for d in "$HERE"/seeded/$PROP-*; do
    [ -d "$d" ] || continue
    # a seed that relied on a defect since repaired in /repo no longer breaks anything on the repaired tree
    [ -f "$d/neutralised.txt" ] && continue
    if [ -f "$d/patch.ported.diff" ]; then patches+=("$d/patch.ported.diff"); elif [ -f "$d/patch.diff" ]; then patches+=("$d/patch.diff"); fi
  done
  missed=0; ndet=0; nskip=0
  echo "[" > "$ST"; first=1
  if [ ${#patches[@]} -gt 0 ]; then
    res=$(printf '%s\n' "${patches[@]}" | xargs -P 4 -I{} "$HERE/mutest.sh" "$PROP" {} 2>&1 | grep -E '^(DETECTED|MISSED|SKIPPED)')
    while IFS= read -r line; do
      [ -z "$line" ] && continue
      st=$(echo "$line" | awk '{print $1}')
      case "$st" in DETECTED) ndet=$((ndet+1));; MISSED) missed=$((missed+1));; SKIPPED) nskip=$((nskip+1));; esac
      [ $first -eq 0 ] && echo "," >> "$ST"; first=0
      printf '{"result": "%s", "patch": "%s"}' "$st" "$(echo "$line" | awk '{print $3}' | tr -d ':')" >> "$ST"
    done <<< "$res"
  fi
  echo "]" >> "$ST"
  echo "$PROP self-test: ${#patches[@]} patches, detected=$ndet skipped(no longer apply)=$nskip missed=$missed"
  export PLZCHECK_SELFTEST="$ST"
  "$BIN" "$@" --verif "$HERE" --repo /repo; rc=$?
  rm -f "$ST"
  if [ $missed -gt 0 ] && [ $rc -eq 0 ]; then
    # seeds that break the property through a value (arithmetic, string indices) are out of reach of structural
    # rules; they are listed in seeded/EXPECTED_MISSES with the reason and do not fail the run
    exp=0
    if [ -f "$HERE/seeded/EXPECTED_MISSES" ]; then exp=$(grep -c "^$PROP-" "$HERE/seeded/EXPECTED_MISSES" || true); fi
    if [ "$missed" -le "$exp" ]; then
      echo "$PROP self-test: the $missed missed seed(s) are the ones listed in seeded/EXPECTED_MISSES (value properties, out of reach)"
      exit 0
    fi
    echo "SELFTEST-FAILED property=$PROP: $missed seeded change(s) were not caught but only $exp are listed as out of reach: a rule has gone blind"
    exit 2
  fi
  exit $rc
fi
exec "$BIN" "$@" --verif "$HERE" --repo "${REPO:-/repo}"
