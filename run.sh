#!/bin/bash
# Entry point for every check: sets the offline Go environment, (re)builds the
# analyser if its sources are newer than the binary, then runs it against /repo.
set -u
HERE="$(cd "$(dirname "${BASH_SOURCE[0]}")" && pwd)"
export PATH=/opt/veriftools/go1.26.8/bin:$PATH
export GOTOOLCHAIN=local GOFLAGS=-mod=mod GOPROXY=off GOSUMDB=off CGO_ENABLED=0
unset GOWORK
BIN="$HERE/bin/plzcheck"
build() {
  mkdir -p "$HERE/bin"
  (cd "$HERE/plzcheck" && go build -o "$BIN" .) || { echo "plzcheck build failed"; exit 2; }
}
stale() {
  [ ! -x "$BIN" ] && return 0
  [ -n "$(find "$HERE/plzcheck" -name '*.go' -newer "$BIN" -print -quit)" ] && return 0
  [ "$HERE/plzcheck/go.mod" -nt "$BIN" ] && return 0
  return 1
}
case "${1:-}" in
  --build)
    build
    # warm the compiler's export-data cache for the pinned tree (pure compilation; nothing is run)
    "$BIN" WARM --repo "${REPO:-/repo}" >/dev/null 2>&1 || true
    exit 0;;
  --explain)
    stale && build
    case "$2" in /*) exec "$BIN" --explain "$2";; *) exec "$BIN" --explain "$HERE/$2";; esac;;
esac
stale && build
exec "$BIN" "$@" --verif "$HERE" --repo "${REPO:-/repo}"
