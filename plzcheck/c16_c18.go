package main

import (
	"go/token"
	"go/types"
	"sort"
	"strings"

	"golang.org/x/tools/go/ssa"
)

func init() {
	register("C16", []string{"./src/parse/asp/..."}, checkC16)
	register("C17", []string{"./src/parse/asp/..."}, checkC17)
	register("C18", []string{"./src/parse/asp/..."}, checkC18)
}

// ---------------------------------------------------------------- E8 storage aliasing

// aliasRoot kinds
const (
	rootParam = "param" // storage reachable from a parameter / receiver
	rootFresh = "fresh" // make / clone in this function
	rootOther = "other"
)

type aroot struct {
	kind string
	v    ssa.Value
}

var freshCalls = map[string]bool{"slices.Clone": true, "maps.Clone": true, "(asp.pyDict).Copy": true, "(parse/asp.pyDict).Copy": true}
var aliasCalls = map[string]bool{"slices.Clip": true, "parse/asp.asList": true, "parse/asp.asDict": true, "parse/asp.mustList": true}

// aliasRoots follows operations that preserve the identity of slice / map storage.
func aliasRoots(v ssa.Value) []aroot {
	var out []aroot
	seen := map[ssa.Value]bool{}
	var walk func(v ssa.Value, d int)
	walk = func(v ssa.Value, d int) {
		if v == nil || seen[v] || d > 20 {
			return
		}
		seen[v] = true
		switch x := v.(type) {
		case *ssa.Parameter:
			out = append(out, aroot{rootParam, x})
		case *ssa.FreeVar:
			if b := freeVarBinding(x); b != nil {
				walk(b, d+1)
			} else {
				out = append(out, aroot{rootOther, x})
			}
		case *ssa.MakeSlice, *ssa.MakeMap:
			out = append(out, aroot{rootFresh, v})
		case *ssa.Slice:
			walk(x.X, d+1)
		case *ssa.ChangeType:
			walk(x.X, d+1)
		case *ssa.Convert:
			walk(x.X, d+1)
		case *ssa.MakeInterface:
			walk(x.X, d+1)
		case *ssa.ChangeInterface:
			walk(x.X, d+1)
		case *ssa.TypeAssert:
			walk(x.X, d+1)
		case *ssa.Extract:
			walk(x.Tuple, d+1)
		case *ssa.Field:
			walk(x.X, d+1)
		case *ssa.Phi:
			for _, e := range x.Edges {
				walk(e, d+1)
			}
		case *ssa.UnOp:
			if x.Op != token.MUL {
				out = append(out, aroot{rootOther, v})
				return
			}
			switch a := x.X.(type) {
			case *ssa.Alloc:
				// a local cell (e.g. a variable captured by a sort closure): use the reaching store when it is unique
				if rv := resolveLoad(x); rv != ssa.Value(x) {
					walk(rv, d+1)
					return
				}
				st := storesTo(a)
				if len(st) == 0 {
					// composite literal filled by field/index stores: a fresh aggregate
					out = append(out, aroot{rootFresh, a})
					// but its fields may hold aliases
					if refs := a.Referrers(); refs != nil {
						for _, u := range *refs {
							if fa, ok := u.(*ssa.FieldAddr); ok {
								for _, s := range storesTo(fa) {
									if isContainer(s.Type()) {
										walk(s, d+1)
									}
								}
							}
						}
					}
				}
				for _, s := range st {
					walk(s, d+1)
				}
			case *ssa.IndexAddr:
				// element of a slice: args[0]
				walk(a.X, d+1)
			case *ssa.FieldAddr:
				walk(a.X, d+1)
			default:
				out = append(out, aroot{rootOther, v})
			}
		case *ssa.Index:
			walk(x.X, d+1)
		case *ssa.FieldAddr:
			walk(x.X, d+1)
		case *ssa.IndexAddr:
			walk(x.X, d+1)
		case *ssa.Lookup:
			walk(x.X, d+1)
		case *ssa.Alloc:
			out = append(out, aroot{rootFresh, x})
		case *ssa.Call:
			if b, ok := x.Call.Value.(*ssa.Builtin); ok {
				if b.Name() == "append" {
					// may return the first argument's storage (spare capacity or nothing appended)
					walk(x.Call.Args[0], d+1)
					out = append(out, aroot{rootFresh, x})
					return
				}
				out = append(out, aroot{rootOther, x})
				return
			}
			n := calleeName(&x.Call)
			switch {
			case freshCalls[n] || strings.HasSuffix(n, ".Copy") || strings.HasSuffix(n, ".Repeat"):
				out = append(out, aroot{rootFresh, x})
			case aliasCalls[n]:
				walk(x.Call.Args[0], d+1)
			default:
				out = append(out, aroot{rootOther, x})
			}
		default:
			out = append(out, aroot{rootOther, v})
		}
	}
	walk(v, 0)
	return out
}

func isContainer(t types.Type) bool {
	switch t.Underlying().(type) {
	case *types.Slice, *types.Map:
		return true
	case *types.Struct:
		return strings.Contains(t.String(), "pyFrozen")
	}
	return false
}

func hasRoot(rs []aroot, kind string) (bool, ssa.Value) {
	for _, r := range rs {
		if r.kind == kind {
			return true, r.v
		}
	}
	return false, nil
}

// storageWrites lists the instructions of fn (and closures) that write into slice/map storage,
// with the written container.
type swrite struct {
	i    ssa.Instruction
	into ssa.Value
	how  string
}

func storageWrites(fn *ssa.Function) []swrite {
	var out []swrite
	for _, g := range withAnon(fn) {
		eachInstr(g, false, func(_ *ssa.Function, i ssa.Instruction) {
			switch x := i.(type) {
			case *ssa.Store:
				if ia, ok := x.Addr.(*ssa.IndexAddr); ok {
					if _, isSlice := ia.X.Type().Underlying().(*types.Slice); isSlice {
						if prm, isP := ia.X.(*ssa.Parameter); isP && typeString(prm.Type()) == "[]parse/asp.pyObject" {
							return // the call's own argument vector, not a BUILD-language value
						}
						out = append(out, swrite{i, ia.X, "element store"})
					}
				}
			case *ssa.MapUpdate:
				out = append(out, swrite{i, x.Map, "map update"})
			case *ssa.Call:
				if b, ok := x.Call.Value.(*ssa.Builtin); ok {
					if (b.Name() == "delete" || b.Name() == "clear" || b.Name() == "copy") && len(x.Call.Args) > 0 {
						out = append(out, swrite{i, x.Call.Args[0], b.Name()})
					}
					if b.Name() == "append" && len(x.Call.Args) > 0 && shortenedReslice(x.Call.Args[0], 0) {
						// append onto x[:k]: spare capacity exists by construction, the elements land in x's storage
						out = append(out, swrite{i, x.Call.Args[0], "append onto a shortened reslice"})
					}
					return
				}
				switch calleeName(&x.Call) {
				case "sort.Slice", "sort.SliceStable", "sort.Sort", "sort.Stable", "sort.Strings", "sort.Ints", "slices.Reverse", "slices.Sort", "slices.SortFunc", "slices.SortStableFunc":
					out = append(out, swrite{i, x.Call.Args[0], calleeName(&x.Call)})
				}
			}
		})
	}
	return out
}

// shortenedReslice: v is (a loop-carried extension of) y[:k] / y[a:b] with an explicit upper bound.
func shortenedReslice(v ssa.Value, d int) bool {
	if d > 6 {
		return false
	}
	switch x := v.(type) {
	case *ssa.Slice:
		return x.High != nil
	case *ssa.Phi:
		for _, e := range x.Edges {
			if e != v && shortenedReslice(e, d+1) {
				return true
			}
		}
	case *ssa.Call:
		if b, ok := x.Call.Value.(*ssa.Builtin); ok && b.Name() == "append" {
			return shortenedReslice(x.Call.Args[0], d+1)
		}
	case *ssa.UnOp:
		if rv := resolveLoad(x); rv != ssa.Value(x) {
			return shortenedReslice(rv, d+1)
		}
		if a, ok := x.X.(*ssa.Alloc); ok {
			for _, st := range storesTo(a) {
				if st != v && shortenedReslice(st, d+1) {
					return true
				}
			}
		}
	}
	return false
}

// nativeBuiltins maps BUILD-language builtin names to their Go implementations (setNativeCode calls).
func (p *Prog) nativeBuiltins() map[string]*ssa.Function {
	out := map[string]*ssa.Function{}
	snc := p.Fn("parse/asp", "setNativeCode")
	if snc == nil {
		return out
	}
	for _, ci := range p.callers(snc) {
		cc := callCommon(ci)
		if len(cc.Args) < 3 {
			continue
		}
		name, ok := constString(cc.Args[1])
		if !ok {
			continue
		}
		var fn *ssa.Function
		for x := range backSlice(cc.Args[2], SliceOpts{}) {
			if f, ok := x.(*ssa.Function); ok {
				fn = f
			}
			if mc, ok := x.(*ssa.MakeClosure); ok {
				fn = mc.Fn.(*ssa.Function)
			}
		}
		if fn != nil {
			out[name] = fn
		}
	}
	return out
}

// closureOf returns fn plus the repository functions it calls directly (helpers like extreme), depth 1.
func (p *Prog) withHelpers(fn *ssa.Function) []*ssa.Function {
	out := withAnon(fn)
	seen := map[*ssa.Function]bool{fn: true}
	for _, g := range withAnon(fn) {
		eachInstr(g, false, func(_ *ssa.Function, i ssa.Instruction) {
			if cc := callCommon(i); cc != nil {
				if h := cc.StaticCallee(); h != nil && h.Blocks != nil && !seen[h] && fnPkg(h) == modPath+"/src/parse/asp" && h.Signature.Recv() == nil && len(h.Params) >= 2 && typeString(h.Params[1].Type()) == "[]parse/asp.pyObject" {
					seen[h] = true
					out = append(out, withAnon(h)...)
				}
			}
		})
	}
	return out
}

// designated mutators of the BUILD language (they change their first argument in CPython too)
var mutatorBuiltins = map[string]bool{"setdefault": true, "config_setdefault": true}

// argMutationRule: value-returning builtins do not write into storage reachable from their arguments.
func (p *Prog) argMutationRule(r *Report, rule string) {
	nb := p.nativeBuiltins()
	if len(nb) < 60 {
		r.unresolved(rule, "setNativeCode registrations (found "+itoa(len(nb))+")")
		return
	}
	names := make([]string, 0, len(nb))
	for n := range nb {
		names = append(names, n)
	}
	sort.Strings(names)
	nChecked := 0
	for _, name := range names {
		fn := nb[name]
		if mutatorBuiltins[name] {
			r.exempt(rule, name+" may modify its argument", p.pos(fn.Pos()), fnName(fn), "designated mutator (modifies its first argument in CPython as well)")
			continue
		}
		var bad []string
		var site token.Pos
		for _, g := range p.withHelpers(fn) {
			for _, w := range storageWrites(g) {
				if ok, _ := hasRoot(aliasRoots(w.into), rootParam); ok {
					bad = append(bad, w.how)
					site = w.i.Pos()
				}
			}
		}
		nChecked++
		if len(bad) > 0 {
			r.add(Obligation{Rule: rule, Instance: name + "() leaves its arguments untouched", Site: p.pos(site), Func: fnName(fn), Status: "violated", Path: true, Key: rule + "|" + name,
				Detail: name + "() performs " + strings.Join(bad, ", ") + " on storage shared with its argument (reslicing / asserting does not copy): the caller's list is modified, which CPython's " + name + "() never does and which lets one BUILD file change a value another one imported"})
		} else {
			r.add(Obligation{Rule: rule, Instance: name + "() leaves its arguments untouched", Site: p.pos(fn.Pos()), Func: fnName(fn), Status: "discharged", Path: true, Key: rule + "|" + name, Detail: "no element store / sort / reverse / map update on storage rooted at the arguments"})
		}
	}
	r.Stats["builtins_checked"] = nChecked
}

// operatorFreshRule: + and | build fresh containers.
func (p *Prog) operatorFreshRule(r *Report, rule string) {
	for _, spec := range []struct{ typ, what string }{{"pyList", "list + list"}, {"pyDict", "dict | dict"}} {
		fn := p.Fn("parse/asp", spec.typ+".Operator")
		if fn == nil {
			r.unresolved(rule, "asp."+spec.typ+".Operator")
			continue
		}
		n, bad := 0, 0
		var site token.Pos
		for _, ret := range returnsOf(fn) {
			v := unspill(ret.Results[0])
			mi, ok := v.(*ssa.MakeInterface)
			if !ok || !isContainer(mi.X.Type()) {
				continue
			}
			n++
			if isParamRooted, _ := hasRoot(aliasRoots(mi.X), rootParam); isParamRooted {
				bad++
				site = ret.Pos()
			}
		}
		key := rule + "|" + fnName(fn)
		if bad > 0 {
			r.add(Obligation{Rule: rule, Instance: spec.what + " returns fresh storage", Site: p.pos(site), Func: fnName(fn), Status: "violated", Path: true, Key: key,
				Detail: "the container returned by " + spec.what + " can share storage with an operand (append onto the operand / returning the operand itself): `b = a + []; b[0] = 9` changes a, and a later `a + [x]` can overwrite elements of an earlier result"})
		} else if n > 0 {
			r.add(Obligation{Rule: rule, Instance: spec.what + " returns fresh storage", Site: p.pos(fn.Pos()), Func: fnName(fn), Status: "discharged", Path: true, Key: key, Detail: itoa(n) + " container-valued returns, none rooted at the receiver or the operand"})
		} else {
			r.unresolved(rule, "container-valued returns of "+fnName(fn))
		}
	}
}

// constantFreshRule: a folded list literal is copied when it becomes an expression's value.
func (p *Prog) constantFreshRule(r *Report, rule string) {
	cst := p.Fn("parse/asp", "scope.Constant")
	ie := p.Fn("parse/asp", "scope.interpretExpression")
	if cst == nil || ie == nil {
		r.unresolved(rule, "asp.scope.Constant / scope.interpretExpression")
		return
	}
	// (A) Constant never folds a list, or (B) every read of optimisedExpression.Constant that is returned as a value copies lists
	foldsList := false
	eachInstr(cst, false, func(_ *ssa.Function, i ssa.Instruction) {
		if fieldKey(valueOf(i)) == "parse/asp.ValueExpression.List" {
			foldsList = true
		}
	})
	copies := false
	for _, g := range p.Funcs("parse/asp") {
		hasRead := false
		eachInstr(g, false, func(_ *ssa.Function, i ssa.Instruction) {
			if fieldKey(valueOf(i)) == "parse/asp.optimisedExpression.Constant" {
				hasRead = true
			}
		})
		if !hasRead || g == cst {
			continue
		}
		// a type test of the constant against pyList followed by a clone
		eachInstr(g, false, func(_ *ssa.Function, i ssa.Instruction) {
			if ta, ok := i.(*ssa.TypeAssert); ok && strings.HasSuffix(typeString(ta.AssertedType), "pyList") {
				for x := range backSlice(ta.X, SliceOpts{}) {
					if fieldKey(x) == "parse/asp.optimisedExpression.Constant" {
						copies = true
					}
				}
			}
		})
	}
	// and no function hands the folded list itself out: the list obtained by asserting the constant to pyList may only go
	// into the copy helper (or be read)
	escapes := ""
	for _, g := range p.Funcs("parse/asp") {
		if g == cst {
			continue
		}
		eachInstr(g, false, func(_ *ssa.Function, i ssa.Instruction) {
			ta, ok := i.(*ssa.TypeAssert)
			if !ok || !strings.HasSuffix(typeString(ta.AssertedType), "pyList") {
				return
			}
			fromConst := false
			for x := range backSlice(ta.X, SliceOpts{StopAtCall: func(*ssa.Call) bool { return true }}) {
				if fieldKey(x) == "parse/asp.optimisedExpression.Constant" {
					fromConst = true
				}
			}
			if !fromConst {
				return
			}
			var vals []ssa.Value
			if ta.CommaOk {
				if refs := ta.Referrers(); refs != nil {
					for _, u := range *refs {
						if e, ok := u.(*ssa.Extract); ok && e.Index == 0 {
							vals = append(vals, e)
						}
					}
				}
			} else {
				vals = []ssa.Value{ta}
			}
			for _, v := range vals {
				if refs := v.Referrers(); refs != nil {
					for _, u := range *refs {
						switch x := u.(type) {
						case *ssa.MakeInterface, *ssa.Return, *ssa.Store, *ssa.MapUpdate, *ssa.Phi:
							escapes = fnName(g)
						case *ssa.Call:
							if x.Call.StaticCallee() == nil || x.Call.StaticCallee().Name() != "copyConstantList" {
								if b, isB := x.Call.Value.(*ssa.Builtin); !isB || b.Name() != "len" {
									escapes = fnName(g)
								}
							}
						}
					}
				}
			}
		})
	}
	if escapes != "" {
		copies = false
	}
	okk := !foldsList || copies
	st := "discharged"
	if !okk {
		st = "violated"
	}
	r.add(Obligation{Rule: rule, Instance: "a folded list literal is not handed out twice", Site: p.pos(cst.Pos()), Func: fnName(cst), Status: st, Path: true, Key: rule + "|" + fnName(cst) + "|list literal",
		Detail: "scope.Constant folds list literals into one pyList stored on the expression and the interpreter hands that same object out on some evaluation path" + map[bool]string{true: " (in " + escapes + ")", false: ""}[escapes != ""] + ": `def lit(): return [3,1,2]`; `a = lit(); a[0] = 99; lit()` yields [99,1,2]; likewise items of a nested literal that a loop iterates over directly"})
}

// sliceFreshRule: a slice expression on a list evaluates to a list of its own (CPython copies), so that writing to the
// slice cannot change the list it was taken from - or, for an imported list, the frozen original.
func (p *Prog) sliceFreshRule(r *Report, rule string) {
	is := p.Fn("parse/asp", "scope.interpretSlice")
	if is == nil {
		r.unresolved(rule, "asp.scope.interpretSlice")
		return
	}
	n, bad := 0, 0
	var site token.Pos
	for _, rc := range returnCases(is, 0) {
		v := rc.Vals[0]
		if isNilConst(v) {
			continue
		}
		mi, ok := v.(*ssa.MakeInterface)
		if !ok || !strings.HasSuffix(typeString(mi.X.Type()), "pyList") {
			continue // strings are immutable
		}
		n++
		for _, ar := range aliasRoots(mi.X) {
			if ar.kind != rootFresh {
				bad++
				site = rc.Site
			}
		}
	}
	r.check(n > 0 && bad == 0, rule, "a list slice is a new list", p.pos(site), fnName(is), itoa(n)+" list-returning path(s), each returning storage allocated for the result", "interpretSlice returns a reslice of the list it was given: `b = a[1:]; b[0] = 9` changes a, `a[:]` is not a copy, and a slice taken from an imported (frozen) list is a writable window onto the value every other package sees")
}

// defaultNotSharedRule: a default value is evaluated per call when it is an expression; when it was folded into a
// constant and is a list, the call must get a copy, or a function that writes to its parameter changes the default for
// every later caller (across packages, for a function that lives in a subincluded file).
func (p *Prog) defaultNotSharedRule(r *Report, rule string) {
	da := p.Fn("parse/asp", "pyFunc.defaultArg")
	if da == nil {
		r.unresolved(rule, "asp.pyFunc.defaultArg")
		return
	}
	n, bad := 0, 0
	var site token.Pos
	for _, rc := range returnCases(da, 0) {
		v := rc.Vals[0]
		direct := false
		if u, ok := v.(*ssa.UnOp); ok && u.Op == token.MUL {
			if ia, ok := u.X.(*ssa.IndexAddr); ok && fieldKeyOfLoad(ia.X) == "parse/asp.pyFunc.constants" {
				direct = true
			}
		}
		if !direct {
			continue
		}
		n++
		notList := false
		for _, f := range rc.Facts {
			if e, ok := f.V.(*ssa.Extract); ok && e.Index == 1 && !f.Val {
				if ta, ok := e.Tuple.(*ssa.TypeAssert); ok && strings.HasSuffix(typeString(ta.AssertedType), "pyList") {
					notList = true
				}
			}
		}
		if !notList {
			bad++
			site = rc.Site
		}
	}
	if n == 0 {
		r.okTrivial(rule, "defaultArg never returns the stored constant itself", p.pos(da.Pos()), fnName(da), "no direct return of pyFunc.constants[i]")
		return
	}
	r.check(bad == 0, rule, "a constant list default is copied for each call", p.pos(site), fnName(da), "the stored constant is returned as is only after it was found not to be a list", "defaultArg hands out the one list object stored in pyFunc.constants on every call: `def reg(name, tags=[\"t1\"]): tags[0] = name` changes the default for all later calls, and for a function defined in a subincluded file the change made while parsing one package is seen by the next")
}

func valueOf(i ssa.Instruction) ssa.Value {
	if v, ok := i.(ssa.Value); ok {
		return v
	}
	return nil
}

func checkC16(p *Prog, r *Report) {
	r.Explanation = "Only the 'fresh, independent values' clauses of C16 are decided (E8 storage-alias analysis over the native builtins registered through setNativeCode and the container operators): (1) no value-returning builtin writes (element store, sort, reverse, map update, delete) into storage reachable from its arguments through reslicing, type assertion or unwrap helpers; setdefault is the designated mutator. (2) `list + list` and `dict | dict` return storage that is not rooted at either operand. (3) a list literal folded into a constant is copied when it becomes an expression's value (or is not folded). Arithmetic, precedence, string methods and formatting are value properties and are NOT decided."
	r.NotCovered = []string{"operator precedence and integer/float arithmetic (e.g. floor division signs)", "string methods and format()", "comprehension semantics", "everything CPython computes that is not about aliasing"}
	p.argMutationRule(r, "E8.builtin-no-arg-mutation")
	p.operatorFreshRule(r, "E8.operator-fresh-result")
	p.constantFreshRule(r, "E8.constant-not-shared")
	p.sliceFreshRule(r, "E8.slice-fresh-result")
}

func checkC17(p *Prog, r *Report) {
	r.Explanation = "Structural clauses of cross-package isolation in the BUILD interpreter. (1) Freeze is fresh and deep: for every implementation of freezable that wraps a container, the storage placed in the frozen wrapper is allocated in Freeze (not the receiver's) and every element goes through Freeze when it is freezable. (2) only frozen values enter the shared subinclude cache: the value returned by the GetOrSet callback in interpreter.Subinclude is the result of scope.Freeze(), which replaces every freezable local. (3) frozen wrappers reject mutation: every method of pyList/pyDict that writes receiver storage is overridden on pyFrozenList/pyFrozenDict by a method that never returns normally; pyFrozenDict.Property panics for every dict method that writes its receiver. (4) builtins do not write into their arguments' storage (shared with C16), so reordering builtins cannot change an imported list."
	r.NotCovered = []string{"parse-order independence as observed on the final graph", "values reachable through CONFIG (pyConfig has its own copy-on-write overlay)", "Go-level data races"}
	// (1)
	rule := "E8.freeze-fresh-and-deep"
	{
		n := 0
		for _, tn := range []string{"pyList", "pyDict"} {
			fn := p.Fn("parse/asp", tn+".Freeze")
			if fn == nil {
				r.unresolved(rule, "asp."+tn+".Freeze")
				continue
			}
			n++
			fresh, aliased := false, false
			var site token.Pos = fn.Pos()
			for _, ret := range returnsOf(fn) {
				v := unspill(ret.Results[0])
				roots := aliasRoots(v)
				for _, rt := range roots {
					switch rt.kind {
					case rootParam:
						aliased = true
						site = ret.Pos()
					case rootFresh:
						if _, isMk := rt.v.(*ssa.MakeSlice); isMk {
							fresh = true
						}
						if _, isMk := rt.v.(*ssa.MakeMap); isMk {
							fresh = true
						}
					}
				}
			}
			key := rule + "|" + fnName(fn) + "|wrapper storage"
			if aliased || !fresh {
				r.add(Obligation{Rule: rule, Instance: tn + ".Freeze wraps freshly allocated storage", Site: p.pos(site), Func: fnName(fn), Status: "violated", Path: true, Key: key,
					Detail: "the frozen wrapper returned by " + tn + ".Freeze shares the receiver's storage (and so its unfrozen nested elements): the exporting file, or anything holding the original, can still change what every importer sees"})
			} else {
				r.add(Obligation{Rule: rule, Instance: tn + ".Freeze wraps freshly allocated storage", Site: p.pos(fn.Pos()), Func: fnName(fn), Status: "discharged", Path: true, Key: key, Detail: "wrapper field is the container made in this function"})
			}
			// deep: some store into the fresh container takes the result of an invoke of Freeze
			deep := false
			eachInstr(fn, false, func(_ *ssa.Function, i ssa.Instruction) {
				var val ssa.Value
				switch x := i.(type) {
				case *ssa.Store:
					if _, ok := x.Addr.(*ssa.IndexAddr); ok {
						val = x.Val
					}
				case *ssa.MapUpdate:
					val = x.Value
				}
				if val == nil {
					return
				}
				// (through helpers of the package: freezeValue(v) that returns v.Freeze() for a freezable v)
				for x := range backSlice(val, SliceOpts{Interproc: 2, Prog: p}) {
					if c, ok := x.(*ssa.Call); ok && c.Call.IsInvoke() && c.Call.Method.Name() == "Freeze" {
						deep = true
					}
				}
			})
			r.check(deep, rule, tn+".Freeze freezes nested values", p.pos(fn.Pos()), fnName(fn), "elements that are freezable are stored as their Freeze() result", tn+".Freeze does not freeze nested lists/dicts")
		}
		if n < 2 {
			r.unresolved(rule, "Freeze implementations")
		}
		// the config object is the third freezable that ends up in the shared cache
		if cf := p.Fn("parse/asp", "pyConfig.Freeze"); cf != nil {
			deep := false
			eachInstr(cf, false, func(_ *ssa.Function, i ssa.Instruction) {
				if c, ok := i.(*ssa.Call); ok && c.Call.IsInvoke() && c.Call.Method.Name() == "Freeze" {
					deep = true
				}
			})
			st := "discharged"
			if !deep {
				st = "violated"
			}
			r.add(Obligation{Rule: rule, Instance: "pyConfig.Freeze freezes the values of its overlay", Site: p.pos(cf.Pos()), Func: fnName(cf), Status: st, Path: true, Key: rule + "|" + fnName(cf) + "|overlay values",
				Detail: "pyConfig.Freeze wraps a struct copy: the overlay map and the lists/dicts in it stay mutable and are merged by reference into every including package's CONFIG: `l = CONFIG.SHARED; l[0] = 99` in one package changes what the next package reads"})
		} else {
			r.unresolved(rule, "asp.pyConfig.Freeze")
		}
	}
	// (2)
	rule = "E7.cache-holds-frozen-values"
	{
		sub := p.Fn("parse/asp", "interpreter.Subinclude")
		sf := p.Fn("parse/asp", "scope.Freeze")
		if sub == nil || sf == nil {
			r.unresolved(rule, "asp.interpreter.Subinclude / scope.Freeze")
		} else {
			okk := false
			n := 0
			for _, g := range sub.AnonFuncs {
				if g.Signature.Results().Len() != 2 {
					continue
				}
				var judge func(h *ssa.Function, depth int)
				judge = func(h *ssa.Function, depth int) {
					for _, rc := range returnCases(h, 0) {
						if isNilConst(rc.Vals[0]) {
							continue
						}
						v := resolveLoad(rc.Vals[0])
						// the callback may hand over to a method of the package that does the work: its results count
						if hc, _ := callResult(v); hc != nil && depth < 2 && !callsFn(hc, sf) {
							if hh := hc.Call.StaticCallee(); hh != nil && hh.Blocks != nil && hh.Pkg == sub.Pkg && hh.Signature.Results().Len() == 2 {
								judge(hh, depth+1)
								continue
							}
						}
						n++
						if c, ok := v.(*ssa.Call); ok && callsFn(c, sf) {
							okk = true
						} else {
							okk = false
						}
					}
				}
				judge(g, 0)
			}
			r.check(okk && n > 0, rule, "the subinclude cache stores scope.Freeze()", p.pos(sub.Pos()), fnName(sub), "the callback's non-nil result is the frozen locals", "the globals stored in the shared subinclude cache are not the result of scope.Freeze(): every importing package receives mutable shared containers")
			// scope.Freeze freezes every freezable local
			all := false
			eachInstr(sf, false, func(_ *ssa.Function, i ssa.Instruction) {
				if mu, ok := i.(*ssa.MapUpdate); ok {
					for x := range backSlice(mu.Value, SliceOpts{Interproc: 2, Prog: p}) {
						if c, ok := x.(*ssa.Call); ok && c.Call.IsInvoke() && c.Call.Method.Name() == "Freeze" {
							all = true
						}
					}
				}
			})
			r.check(all, rule, "scope.Freeze replaces freezable locals by their frozen form", p.pos(sf.Pos()), fnName(sf), "locals[k] = v.Freeze() inside the range over locals", "scope.Freeze no longer freezes the locals it returns")
		}
	}
	// (3)
	rule = "E9.frozen-rejects-mutation"
	{
		for _, pair := range [][2]string{{"pyList", "pyFrozenList"}, {"pyDict", "pyFrozenDict"}} {
			base := p.Type("parse/asp", pair[0])
			wrap := p.Type("parse/asp", pair[1])
			if base == nil || wrap == nil {
				r.unresolved(rule, "asp."+pair[0]+" / "+pair[1])
				continue
			}
			named := base.(*types.Named)
			for k := 0; k < named.NumMethods(); k++ {
				m := named.Method(k)
				fn := p.SSA.FuncValue(m)
				if fn == nil || fn.Blocks == nil {
					continue
				}
				writes := false
				for _, w := range storageWrites(fn) {
					rs := aliasRoots(w.into)
					for _, rt := range rs {
						if rt.kind == rootParam && rt.v == ssa.Value(fn.Params[0]) {
							writes = true
						}
					}
				}
				if !writes {
					continue
				}
				// the wrapper must declare the same method itself and that method must never return
				wn := wrap.(*types.Named)
				var ov *ssa.Function
				for j := 0; j < wn.NumMethods(); j++ {
					if wn.Method(j).Name() == m.Name() {
						ov = p.SSA.FuncValue(wn.Method(j))
					}
				}
				okk := ov != nil && ov.Blocks != nil && len(returnsOf(ov)) == 0
				r.check(okk, rule, pair[1]+"."+m.Name()+" refuses", p.pos(fn.Pos()), fnName(fn), "the mutating method is overridden by one that only panics", pair[0]+"."+m.Name()+" writes the receiver's storage and "+pair[1]+" does not override it with a method that always panics: an imported (frozen) value can be modified in place by any BUILD file")
			}
		}
		// dict methods reached through Property: the method table of dicts, native entries analysed for
		// writes into their receiver, entries implemented in the BUILD language treated as writers
		fdp := p.Fn("parse/asp", "pyFrozenDict.Property")
		nb := p.nativeBuiltins()
		var mutators []string
		nMethods := 0
		for _, fn := range p.Funcs("parse/asp") {
			eachInstr(fn, false, func(_ *ssa.Function, i ssa.Instruction) {
				st, ok := i.(*ssa.Store)
				if !ok || fieldKey(st.Addr) != "parse/asp.interpreter.dictMethods" {
					return
				}
				mm, ok := st.Val.(*ssa.MakeMap)
				if !ok {
					return
				}
				if refs := mm.Referrers(); refs != nil {
					for _, u := range *refs {
						mu, ok := u.(*ssa.MapUpdate)
						if !ok {
							continue
						}
						name, ok := constString(mu.Key)
						if !ok {
							continue
						}
						nMethods++
						native := false
						for x := range backSlice(mu.Value, SliceOpts{}) {
							if c, ok := x.(*ssa.Call); ok && calleeName(&c.Call) == "parse/asp.setNativeCode" {
								native = true
							}
						}
						if !native {
							mutators = append(mutators, name) // BUILD-language implementation: not analysable here
							continue
						}
						if impl := nb[name]; impl != nil {
							for _, w := range storageWrites(impl) {
								if ok, _ := hasRoot(aliasRoots(w.into), rootParam); ok {
									if _, isMap := w.into.Type().Underlying().(*types.Map); isMap {
										mutators = append(mutators, name)
									}
								}
							}
						}
					}
				}
			})
		}
		sort.Strings(mutators)
		if fdp == nil || nMethods < 4 {
			r.unresolved(rule, "asp.pyFrozenDict.Property / dict method table (found "+itoa(nMethods)+" methods)")
		} else {
			refused := map[string]bool{}
			for _, b := range fdp.Blocks {
				if _, isP := b.Instrs[len(b.Instrs)-1].(*ssa.Panic); !isP {
					continue
				}
				for _, f := range condFacts(b) {
					if bo, ok := f.V.(*ssa.BinOp); ok && bo.Op == token.EQL && f.Val {
						if s, ok := constString(bo.Y); ok {
							refused[s] = true
						}
					}
				}
			}
			for _, m := range mutators {
				r.check(refused[m], rule, "frozen dict refuses ."+m+"()", p.pos(fdp.Pos()), fnName(fdp), "pyFrozenDict.Property panics for this name", "dict method "+m+"() can write into its receiver (native write, or implemented in the BUILD language) but pyFrozenDict.Property hands it out for frozen dicts: an imported dict can be modified")
			}
			if len(mutators) == 0 {
				r.unresolved(rule, "mutating dict methods")
			}
		}
	}
	// (4)
	p.argMutationRule(r, "E8.builtin-no-arg-mutation")
	p.operatorFreshRule(r, "E8.operator-fresh-result")
	p.sliceFreshRule(r, "E8.slice-fresh-result")
	p.defaultNotSharedRule(r, "E8.default-not-shared")
	// builtin and preloaded build_defs are frozen after they were interpreted, not before
	if lb, sfz := p.Fn("parse/asp", "interpreter.LoadBuiltins"), p.Fn("parse/asp", "scope.Freeze"); lb == nil || sfz == nil {
		r.unresolved("E5.builtins-frozen-after-load", "asp.interpreter.LoadBuiltins / scope.Freeze")
	} else {
		interp := func(i ssa.Instruction) bool {
			cc := callCommon(i)
			if cc == nil {
				return false
			}
			n := calleeName(cc)
			return strings.HasSuffix(n, ".interpretStatements") || strings.HasSuffix(n, ".interpretAll")
		}
		nF, early := 0, false
		for _, g := range withAnon(lb) {
			for _, ci := range callsInFn(g, sfz) {
				nF++
				if g != lb {
					continue // inside a closure: runs when the closure runs (deferred: at exit)
				}
				// in the body: no interpretation may follow it
				eachInstr(lb, false, func(_ *ssa.Function, j ssa.Instruction) {
					if interp(j) && existsPath(lb, ci, j, nil) {
						early = true
					}
				})
			}
		}
		// and a closure that freezes must be deferred or called after the interpretation
		r.check(nF > 0 && !early, "E5.builtins-frozen-after-load", "the scope is frozen after the file was interpreted", p.pos(lb.Pos()), fnName(lb), "no interpretation of the file's statements is reachable after scope.Freeze()", "LoadBuiltins calls scope.Freeze() before the file is interpreted (as the argument of a deferred call it is evaluated at the defer statement): nothing the file defines is frozen, so top-level lists and dicts of builtin and preloaded build_defs can be changed by one BUILD file and are seen changed by the next")
	}
	// the scope a subinclude's functions resolve their globals through is itself frozen
	if sf := p.Fn("parse/asp", "scope.Freeze"); sf == nil {
		r.unresolved("E8.scope-frozen-in-place", "asp.scope.Freeze")
	} else {
		inPlace := false
		eachInstr(sf, false, func(_ *ssa.Function, i ssa.Instruction) {
			mu, ok := i.(*ssa.MapUpdate)
			if !ok || fieldKeyOfLoad(mu.Map) != "parse/asp.scope.locals" {
				return
			}
			// the stored value is the result of Freeze() on the entry
			for x := range backSlice(mu.Value, SliceOpts{}) {
				if c, ok := x.(*ssa.Call); ok && c.Call.IsInvoke() && c.Call.Method.Name() == "Freeze" {
					inPlace = true
				}
			}
		})
		skips := true
		for _, l := range mapRangeLoops(sf) {
			if fieldKeyOfLoad(l.over) != "parse/asp.scope.locals" {
				continue
			}
			// an iteration may skip the update only when the value is not freezable
			skips = l.iterationSkipsAssuming(func(i ssa.Instruction) bool {
				mu, ok := i.(*ssa.MapUpdate)
				return ok && fieldKeyOfLoad(mu.Map) == "parse/asp.scope.locals"
			}, assumeTypeAssertOK(sf, "freezable", true))
		}
		r.check(inPlace && !skips, "E8.scope-frozen-in-place", "scope.Freeze replaces every freezable local of the scope by its frozen form", p.pos(sf.Pos()), fnName(sf), "s.locals[k] = v.Freeze() for every freezable entry", "scope.Freeze builds the frozen values somewhere else and leaves the scope's own locals mutable: functions defined in a subincluded file resolve their globals through that scope, so one that writes to a module-level list or dict succeeds, and what it wrote while one package was parsed is seen by the next")
	}
	// (5) nothing adopts the storage of a frozen value it was handed
	rule = "E8.no-adoption-of-frozen-storage"
	{
		n := 0
		for _, fn := range p.Funcs("parse/asp") {
			var frozenPrms []*ssa.Parameter
			for _, prm := range fn.Params {
				if strings.Contains(typeString(prm.Type()), "asp.pyFrozen") {
					frozenPrms = append(frozenPrms, prm)
				}
			}
			if len(frozenPrms) == 0 || fn.Signature.Recv() == nil || strings.Contains(typeString(fn.Signature.Recv().Type()), "pyFrozen") {
				continue
			}
			n++
			bad := false
			var site token.Pos = fn.Pos()
			eachInstr(fn, false, func(_ *ssa.Function, i ssa.Instruction) {
				st, ok := i.(*ssa.Store)
				if !ok || !isContainer(st.Val.Type()) {
					return
				}
				if _, isField := st.Addr.(*ssa.FieldAddr); !isField {
					return
				}
				for _, rt := range aliasRoots(st.Val) {
					for _, fp := range frozenPrms {
						if rt.kind == rootParam && rt.v == ssa.Value(fp) {
							bad = true
							site = st.Pos()
						}
					}
				}
			})
			r.check(!bad, rule, fn.Name()+" copies what it takes from a frozen value", p.pos(site), fnName(fn), "no field of the receiver is set to a container rooted at the frozen parameter", fnName(fn)+" stores a map/slice taken from its frozen parameter directly into the (mutable) receiver: later writes through the receiver modify the cached, shared value that every other package sees")
		}
		if n == 0 {
			r.unresolved(rule, "methods taking a frozen value (e.g. pyConfig.Merge)")
		}
	}
}

// c18Builtins: the builtins named in the property statement.
var c18Builtins = []string{"sorted", "reversed", "enumerate", "any", "all", "zip", "min", "max", "map", "filter", "reduce", "len"}

func checkC18(p *Prog, r *Report) {
	r.Explanation = "E9 frozen-awareness. (1) in the native implementation (and argument-taking helpers) of each builtin named in the statement — sorted reversed enumerate any all zip min max map filter reduce len — every type assertion of an argument to pyList/pyDict is frozen-aware: the same operand is also tested against the frozen wrapper, or goes through asList/asDict. (2) the same for the operands of pyList.Operator / pyDict.Operator (+, in, <, |). (3) == and != do not compare pyObjects with a representation-sensitive structural comparison (reflect.DeepEqual on values that may be frozen wrappers)."
	r.NotCovered = []string{"the values builtins compute", "slicing, unpacking, % formatting and isinstance on frozen values", "CONFIG values (pyConfig)"}
	nb := p.nativeBuiltins()
	if len(nb) < 60 {
		r.unresolved("E9.frozen-aware", "setNativeCode registrations")
		return
	}
	frozenAware := func(fns []*ssa.Function, rootOK func(v ssa.Value) bool) (nAssert int, bad []string, site token.Pos) {
		for _, g := range fns {
			// operands asserted to a frozen wrapper in g
			frozenTested := map[ssa.Value]bool{}
			eachInstr(g, false, func(_ *ssa.Function, i ssa.Instruction) {
				if ta, ok := i.(*ssa.TypeAssert); ok && strings.Contains(typeString(ta.AssertedType), "pyFrozen") {
					frozenTested[ta.X] = true
				}
			})
			eachInstr(g, false, func(_ *ssa.Function, i ssa.Instruction) {
				ta, ok := i.(*ssa.TypeAssert)
				if !ok {
					return
				}
				t := typeString(ta.AssertedType)
				if !strings.HasSuffix(t, "asp.pyList") && !strings.HasSuffix(t, "asp.pyDict") {
					return
				}
				if !rootOK(ta.X) {
					return
				}
				nAssert++
				if !frozenTested[ta.X] {
					bad = append(bad, strings.TrimPrefix(t, "parse/asp."))
					site = ta.Pos()
				}
			})
		}
		return
	}
	rule := "E9.frozen-aware"
	for _, name := range c18Builtins {
		fn := nb[name]
		if fn == nil {
			r.unresolved(rule, "builtin "+name)
			continue
		}
		fns := p.withHelpers(fn)
		_, bad, site := frozenAware(fns, func(v ssa.Value) bool {
			ok, _ := hasRoot(aliasRoots(v), rootParam)
			return ok
		})
		key := rule + "|" + name
		if len(bad) > 0 {
			r.add(Obligation{Rule: rule, Instance: name + "() accepts frozen lists/dicts", Site: p.pos(site), Func: fnName(fn), Status: "violated", Path: true, Key: key,
				Detail: name + "() asserts its argument to " + strings.Join(bad, "/") + " only: a list imported through subinclude (pyFrozenList) is rejected with 'must be a list, not list'"})
		} else {
			r.add(Obligation{Rule: rule, Instance: name + "() accepts frozen lists/dicts", Site: p.pos(fn.Pos()), Func: fnName(fn), Status: "discharged", Path: true, Key: key, Detail: "no bare assertion of an argument to pyList/pyDict"})
		}
	}
	for _, tn := range []string{"pyList", "pyDict"} {
		fn := p.Fn("parse/asp", tn+".Operator")
		if fn == nil {
			r.unresolved(rule, "asp."+tn+".Operator")
			continue
		}
		// per operator case: collect assertion sites by the branch constant they are under
		type site struct {
			pos token.Pos
			t   string
		}
		perOp := map[string][]site{}
		frozenTested := map[string]map[ssa.Value]bool{}
		opOf := func(i ssa.Instruction) string {
			for _, f := range factsAt(i) {
				if bo, ok := f.V.(*ssa.BinOp); ok && bo.Op == token.EQL && f.Val {
					if c, ok := constInt(bo.Y); ok {
						return itoa(int(c))
					}
				}
			}
			return "?"
		}
		eachInstr(fn, false, func(_ *ssa.Function, i ssa.Instruction) {
			ta, ok := i.(*ssa.TypeAssert)
			if !ok || ta.X != ssa.Value(fn.Params[2]) {
				return
			}
			op := opOf(ta)
			t := typeString(ta.AssertedType)
			if strings.Contains(t, "pyFrozen") {
				if frozenTested[op] == nil {
					frozenTested[op] = map[ssa.Value]bool{}
				}
				frozenTested[op][ta.X] = true
			} else if strings.HasSuffix(t, "asp."+tn) {
				perOp[op] = append(perOp[op], site{ta.Pos(), t})
			}
		})
		ops := make([]string, 0, len(perOp))
		for op := range perOp {
			ops = append(ops, op)
		}
		sort.Strings(ops)
		for _, op := range ops {
			opName := p.operatorName(op)
			key := rule + "|" + fnName(fn) + "|" + opName
			okk := frozenTested[op] != nil
			st := "discharged"
			if !okk {
				st = "violated"
			}
			r.add(Obligation{Rule: rule, Instance: tn + " " + opName + " accepts a frozen operand", Site: p.pos(perOp[op][0].pos), Func: fnName(fn), Status: st, Path: true, Key: key,
				Detail: "operator " + opName + " on " + tn + " asserts its operand to " + tn + " only: with an imported (frozen) operand it panics or compares unequal"})
		}
	}
	// + and | hand back ordinary fresh containers, never an operand (which may be a frozen wrapper)
	p.operatorFreshRule(r, "E8.operator-fresh-result")
	// (3)
	rule = "E9.equality-representation"
	{
		n := 0
		for _, fn := range p.Funcs("parse/asp") {
			eachInstr(fn, false, func(_ *ssa.Function, i ssa.Instruction) {
				c, ok := i.(*ssa.Call)
				if !ok || !isCallTo(c, "reflect.DeepEqual") {
					return
				}
				isPy := false
				var operands []ssa.Value
				for _, a := range c.Call.Args {
					inner := a
					switch x := a.(type) {
					case *ssa.MakeInterface:
						inner = x.X
					case *ssa.ChangeInterface:
						inner = x.X
					}
					if strings.HasSuffix(typeString(inner.Type()), "asp.pyObject") {
						isPy = true
						operands = append(operands, inner)
					}
				}
				if !isPy {
					return
				}
				// fine if the operands were first offered to the unwrap helpers and are known not to be containers
				unwrapped := 0
				for _, f := range factsAt(c) {
					if e, ok := f.V.(*ssa.Extract); ok && !f.Val && e.Index == 1 {
						if uc, ok := e.Tuple.(*ssa.Call); ok && (calleeName(&uc.Call) == "parse/asp.asList" || calleeName(&uc.Call) == "parse/asp.asDict") {
							for _, op := range operands {
								if uc.Call.Args[0] == op {
									unwrapped++
								}
							}
						}
					}
				}
				if unwrapped >= 2 {
					r.ok(rule, "reflect.DeepEqual only on non-container values", p.pos(c.Pos()), fnName(fn), "dominated by failed asList and asDict of an operand")
					return
				}
				n++
				r.add(Obligation{Rule: rule, Instance: "== on BUILD values is not reflect.DeepEqual", Site: p.pos(c.Pos()), Func: fnName(fn), Status: "violated", Path: true, Key: rule + "|" + fnName(fn) + "|reflect.DeepEqual",
					Detail: "== / != compare pyObjects with reflect.DeepEqual, which distinguishes pyFrozenList{pyList{1}} from pyList{1}: `[1] == IMPORTED` is False although the contents are equal"})
			})
		}
		if n == 0 {
			r.ok(rule, "== on BUILD values is not reflect.DeepEqual", "-", "", "no reflect.DeepEqual on pyObject operands in package asp")
		}
		// the equality itself never looks at the Go type of a value: frozen and ordinary containers are different Go types
		if pe := p.Fn("parse/asp", "pyEqual"); pe == nil {
			r.unresolved(rule, "asp.pyEqual")
		} else {
			via := ""
			eachInstr(pe, false, func(_ *ssa.Function, i ssa.Instruction) {
				if c, ok := i.(*ssa.Call); ok && isCallTo(c, "reflect.TypeOf", "reflect.ValueOf") {
					// allowed only after both operands failed the container unwrap helpers (the scalar fallback)
					scalar := 0
					for _, f := range factsAt(c) {
						if e, ok := f.V.(*ssa.Extract); ok && !f.Val && e.Index == 1 {
							if uc, ok := e.Tuple.(*ssa.Call); ok && (calleeName(&uc.Call) == "parse/asp.asList" || calleeName(&uc.Call) == "parse/asp.asDict") {
								scalar++
							}
						}
					}
					if scalar < 2 {
						via = calleeName(&c.Call)
					}
				}
			})
			r.check(via == "", rule, "pyEqual does not compare Go types of containers or their elements", p.pos(pe.Pos()), fnName(pe), "no reflect.TypeOf on values that may be containers", "pyEqual consults "+via+" on values that can be lists or dicts: an ordinary container can hold imported (frozen) elements, whose Go type differs from that of equal ordinary ones, so `[IMPORTED] == [[1]]` or `{\"k\": IMPORTED} == {...}` is False although the contents are equal")
		}
	}
}

// operatorName maps the numeric value of an asp.Operator constant back to its name.
func (p *Prog) operatorName(v string) string {
	pk := p.ByPath[modPath+"/src/parse/asp"]
	if pk == nil {
		return v
	}
	sc := pk.Types.Scope()
	for _, n := range sc.Names() {
		if c, ok := sc.Lookup(n).(*types.Const); ok && typeString(c.Type()) == "parse/asp.Operator" && c.Val().String() == v {
			return n
		}
	}
	return "op" + v
}

// assumeTypeAssertOK: assumption map taking the ok result of every comma-ok type assertion to a type whose name ends in
// suffix as val.
func assumeTypeAssertOK(fn *ssa.Function, suffix string, val bool) map[ssa.Value]bool {
	out := map[ssa.Value]bool{}
	eachInstr(fn, false, func(_ *ssa.Function, i ssa.Instruction) {
		if e, ok := i.(*ssa.Extract); ok && e.Index == 1 {
			if ta, ok := e.Tuple.(*ssa.TypeAssert); ok && strings.HasSuffix(typeString(ta.AssertedType), suffix) {
				out[e] = val
			}
		}
	})
	return out
}
