package main

import (
	"go/token"
	"go/types"
	"strings"

	"golang.org/x/tools/go/ssa"
)

func init() {
	register("C12", []string{"./src/cache/...", "./src/fs/..."}, checkC12)
	register("C14", []string{"./src/cache/..."}, checkC14)
}

type dcAnchors struct {
	store, storeFiles, storeFile, storeCompressed, storeCompressed2, ensureStoreReady *ssa.Function
	retrieve, retrieveFiles, retrieveCompressed, ensureRetrieveReady                  *ssa.Function
	getPath, getFullPath, markDir, isMarked, clean, shouldClean, tarHeader            *ssa.Function
}

func (p *Prog) dirCache(r *Report, rule string) *dcAnchors {
	f := func(n string) *ssa.Function { return p.Fn("cache", "dirCache."+n) }
	a := &dcAnchors{store: f("Store"), storeFiles: f("storeFiles"), storeFile: f("storeFile"), storeCompressed: f("storeCompressed"), storeCompressed2: f("storeCompressed2"), ensureStoreReady: f("ensureStoreReady"),
		retrieve: f("retrieve"), retrieveFiles: f("retrieveFiles"), retrieveCompressed: f("retrieveCompressed"), ensureRetrieveReady: f("ensureRetrieveReady"),
		getPath: f("getPath"), getFullPath: f("getFullPath"), markDir: f("markDir"), isMarked: f("isMarked"), clean: f("clean"), shouldClean: f("shouldClean"), tarHeader: f("tarHeader")}
	miss := ""
	for n, fn := range map[string]*ssa.Function{"Store": a.store, "storeFiles": a.storeFiles, "storeFile": a.storeFile, "storeCompressed": a.storeCompressed, "storeCompressed2": a.storeCompressed2, "ensureStoreReady": a.ensureStoreReady, "retrieve": a.retrieve, "retrieveFiles": a.retrieveFiles,
		"retrieveCompressed": a.retrieveCompressed, "ensureRetrieveReady": a.ensureRetrieveReady, "getPath": a.getPath, "getFullPath": a.getFullPath, "markDir": a.markDir, "isMarked": a.isMarked, "clean": a.clean, "shouldClean": a.shouldClean, "tarHeader": a.tarHeader} {
		if fn == nil {
			miss += n + " "
		}
	}
	if miss != "" {
		r.unresolved(rule, "dirCache methods: "+miss)
		return nil
	}
	return a
}

// derivesFromValue: v is data-derived from x.
func derivesFromValue(v, x ssa.Value) bool {
	for y := range backSlice(v, SliceOpts{}) {
		if y == x {
			return true
		}
	}
	return false
}

// tempAndFinal finds in Store the final entry path (getPath) and the temp path (getFullPath with a constant "=" suffix).
func (a *dcAnchors) tempAndFinal() (final, tmp *ssa.Call) {
	eachInstr(a.store, false, func(_ *ssa.Function, i ssa.Instruction) {
		c, ok := i.(*ssa.Call)
		if !ok {
			return
		}
		if callsFn(c, a.getPath) {
			final = c
		}
		if callsFn(c, a.getFullPath) {
			if s, ok := constString(c.Call.Args[len(c.Call.Args)-1]); ok && s == "=" {
				tmp = c
			}
		}
	})
	return
}

func checkC12(p *Prog, r *Report) {
	r.Explanation = "Atomicity and agreement clauses of the directory cache. (1) temp-then-rename in dirCache.Store: the directory handed to storeFiles for writing is the '='-suffixed temp path (getFullPath(..., \"=\")), storeFiles passes that parameter (never the final path) to every writer (storeFile, storeCompressed), every file-creating call of the writers takes a path derived from it, and the single os.Rename(temp, final) is dominated by the storeFiles call; the final path is otherwise only marked and removed beforehand. (2) a miss for an absent key: retrieveFiles returns (false, nil) on the !PathExists edge and never (true, err); retrieve returns false whenever an error was returned (shared with C13). (3) archive writer/reader agreement for compressed entries: every entry visited by the store walk gets a tar header on every non-error path and regular entries get their content; every header read back passes ensureRetrieveReady (which removes what is in the way) before it is materialised, and each header kind the writer can emit has a reader case. (4) the uncompressed store and retrieve use the same tree primitive (RecursiveLink) in opposite directions. Byte fidelity itself is not decided."
	r.NotCovered = []string{"byte fidelity of the restored tree", "two processes storing the same key concurrently", "a crash inside rename(2)", "hard-link semantics of the host filesystem"}
	p.walkSortedRule(r, "fs/E5.walk-sorted")
	a := p.dirCache(r, "E5.temp-then-rename")
	if a == nil {
		return
	}
	rule := "E5.temp-then-rename"
	final, tmp := a.tempAndFinal()
	if final == nil || tmp == nil {
		r.bad(rule, "Store computes a final path and a '=' temp path", p.pos(a.store.Pos()), fnName(a.store), "dirCache.Store no longer derives a temporary path with the '=' marker next to the final entry path: entries are written in place, so a crash leaves a partial entry that retrieves as a hit")
		return
	}
	// storeFiles call: which parameter receives tmp / final
	var sfCall *ssa.Call
	for _, ci := range callsInFn(a.store, a.storeFiles) {
		sfCall, _ = ci.(*ssa.Call)
	}
	if sfCall == nil {
		r.unresolved(rule, "storeFiles call in Store")
		return
	}
	tmpIdx, finalIdx := -1, -1
	for k, arg := range sfCall.Call.Args {
		if typeString(arg.Type()) != "string" {
			continue
		}
		if derivesFromValue(arg, tmp) {
			tmpIdx = k
		} else if derivesFromValue(arg, final) {
			finalIdx = k
		}
	}
	r.check(tmpIdx >= 0, rule, "storeFiles receives the temp path", p.pos(sfCall.Pos()), fnName(a.store), "an argument derives from getFullPath(..., \"=\")", "storeFiles is not given the '=' temp path: the entry is written under its final name")
	if tmpIdx < 0 {
		return
	}
	tmpPrm := a.storeFiles.Params[tmpIdx]
	var finalPrm *ssa.Parameter
	if finalIdx >= 0 {
		finalPrm = a.storeFiles.Params[finalIdx]
	}
	// writers get the temp parameter
	nW := 0
	for _, w := range []*ssa.Function{a.storeFile, a.storeCompressed} {
		for _, ci := range callsInFn(a.storeFiles, w) {
			cc := callCommon(ci)
			nW++
			usesTmp, usesFinal := false, false
			for _, arg := range cc.Args {
				if typeString(arg.Type()) != "string" {
					continue
				}
				if derivesFromValue(arg, tmpPrm) {
					usesTmp = true
				}
				if finalPrm != nil && derivesFromValue(arg, finalPrm) {
					usesFinal = true
				}
			}
			r.check(usesTmp && !usesFinal, rule, w.Name()+" writes into the temp path", p.pos(ci.Pos()), fnName(a.storeFiles), "destination argument derives from the temp parameter only", "the writer is handed the final entry path (or not the temp path): files appear under the final name one by one, so a crash mid-store leaves a partial entry that a later retrieve reports as a hit")
		}
	}
	if nW < 2 {
		r.unresolved(rule, "storeFile / storeCompressed calls in storeFiles")
	}
	// inside the writers, creations derive from their directory parameter
	for _, w := range []*ssa.Function{a.storeFile, a.storeCompressed2} {
		var dirPrm *ssa.Parameter
		for _, prm := range w.Params {
			if typeString(prm.Type()) == "string" {
				dirPrm = prm // last string parameter: cacheDir / filename
			}
		}
		n := 0
		eachInstr(w, false, func(_ *ssa.Function, i ssa.Instruction) {
			c, ok := i.(*ssa.Call)
			if !ok {
				return
			}
			var dst ssa.Value
			switch {
			case isCallTo(c, "os.Create", "os.MkdirAll", "os.OpenFile", "os.WriteFile"):
				dst = c.Call.Args[0]
			case isCallTo(c, "fs.RecursiveLink", "fs.RecursiveCopy", "fs.CopyFile", "os.Link", "os.Symlink", "os.Rename"):
				dst = c.Call.Args[1]
			case callsFn(c, a.ensureStoreReady):
				dst = c.Call.Args[len(c.Call.Args)-1]
			default:
				return
			}
			n++
			r.check(dirPrm != nil && derivesFromValue(dst, dirPrm), rule, w.Name()+": "+calleeName(&c.Call)+" under the given directory", p.pos(c.Pos()), fnName(w), "created path derives from the destination parameter", "a file is created outside the directory the writer was given (the temp entry)")
		})
		if n == 0 {
			r.unresolved(rule, "file-creating calls in "+w.Name())
		}
	}
	// every entry of the archive is materialised: in the reader, the case of a header kind has no way back to the loop
	// that skips the call creating the entry (a `continue` for links that "point outside" drops upward-pointing relative
	// links of an ordinary tree)
	if rcz := p.Fn("cache", "dirCache.retrieveCompressed"); rcz == nil {
		r.unresolved("E9.archive-writer-reader", "cache.dirCache.retrieveCompressed")
	} else {
		n, bad := 0, 0
		eachInstrS(rcz, func(_ *ssa.Function, i ssa.Instruction) {
			c, ok := i.(*ssa.Call)
			if !ok || !isCallTo(c, "os.Symlink") {
				return
			}
			n++
			// the entry of the case: the nearest dominating block whose facts compare the header's Typeflag
			var entry *ssa.BasicBlock
			for b := c.Block(); b != nil; b = b.Idom() {
				isCase := false
				for _, f := range condFacts(b) {
					if bo, ok := f.V.(*ssa.BinOp); ok && bo.Op == token.EQL && f.Val && strings.HasSuffix(fieldKeyOfLoad(bo.X), "tar.Header.Typeflag") {
						isCase = true
					}
				}
				if isCase {
					entry = b
				} else if entry != nil {
					break
				}
			}
			if entry == nil || len(entry.Instrs) == 0 {
				bad++
				return
			}
			// from the case entry, can control leave without Symlink and without returning an error?
			if g := c.Parent(); g != rcz {
				// the per-entry switch lives in a private helper: leaving means returning nil
				for _, ret := range returnsOf(g) {
					last := unspill(ret.Results[len(ret.Results)-1])
					if isNilConst(last) && entry.Instrs[0] != ssa.Instruction(c) && existsPath(g, entry.Instrs[0], ret, func(j ssa.Instruction) bool { return j == ssa.Instruction(c) }) {
						bad++
					}
				}
				return
			}
			for _, l := range loopBlocksOf(rcz, entry) {
				if len(l.Instrs) > 0 && existsPath(rcz, entry.Instrs[0], l.Instrs[0], func(j ssa.Instruction) bool { return j == ssa.Instruction(c) }) && entry.Instrs[0] != ssa.Instruction(c) {
					bad++
				}
			}
		})
		if n == 0 {
			r.unresolved("E9.archive-writer-reader", "os.Symlink in retrieveCompressed")
		} else {
			r.check(bad == 0, "E9.archive-writer-reader", "every symlink entry of the archive is recreated", p.pos(rcz.Pos()), fnName(rcz), "the symlink case reaches os.Symlink on every path that goes on to the next entry", "the reader can skip a symlink entry and carry on with the next one (e.g. for targets that are not `local` by filepath.IsLocal): a relative link that climbs with ../ but stays inside the tree is dropped with a warning while the retrieve still reports a hit")
		}
	}
	// whatever is restored replaces what is in the way: ensureRetrieveReady removes the old output on every success path
	if err0 := p.Fn("cache", "dirCache.ensureRetrieveReady"); err0 == nil {
		r.unresolved("E5.retrieve-clears-the-way", "cache.dirCache.ensureRetrieveReady")
	} else {
		isRm := func(j ssa.Instruction) bool {
			c, ok := j.(*ssa.Call)
			return ok && isCallTo(c, "fs.RemoveAll", "os.RemoveAll", "os.Remove")
		}
		n, bad := 0, 0
		idx := err0.Signature.Results().Len() - 1
		for _, rc := range returnCases(err0, idx) {
			if !isNilConst(rc.Vals[idx]) {
				// forwarded error of a call: fine only if that call is the removal itself
				if c, ok := rc.Vals[idx].(*ssa.Call); ok && isRm(c) {
					n++
					continue
				}
				if k, isNil := errKnown(rc.Facts, []ssa.Value{rc.Vals[idx]}); k && !isNil {
					continue
				}
			}
			n++
			if existsPath(err0, nil, rc.Ret, isRm) {
				bad++
			}
		}
		r.check(n > 0 && bad == 0, "E5.retrieve-clears-the-way", "ensureRetrieveReady removes the old output on every success path", p.pos(err0.Pos()), fnName(err0), itoa(n)+" success path(s), each through RemoveAll", "ensureRetrieveReady can succeed without removing what is already at the output path (e.g. for outputs in a sub-directory): a restored file is written over the old one without truncation (the tail of a longer file survives) and a restored directory is merged into the old tree, so what is in plz-out after a cache hit is a mixture of two states")
	}
	// the staging area starts empty: what an earlier store that died left under the temp name must not be merged into
	{
		rl := "E5.staging-starts-empty"
		// summary of ensureStoreReady: every nil-error return has passed RemoveAll(its path parameter)
		clears := false
		if esr := a.ensureStoreReady; esr != nil && len(esr.Params) > 0 {
			pathPrm := esr.Params[len(esr.Params)-1]
			isRm := func(j ssa.Instruction) bool {
				c, ok := j.(*ssa.Call)
				return ok && isCallTo(c, "fs.RemoveAll", "os.RemoveAll") && derivesFromValue(c.Call.Args[0], pathPrm)
			}
			clears = true
			n := 0
			for _, rc := range returnCases(esr, 0) {
				if !isNilConst(rc.Vals[0]) {
					continue
				}
				n++
				if existsPath(esr, nil, rc.Ret, isRm) {
					clears = false
				}
			}
			if n == 0 {
				clears = false
			}
		}
		// alternative: Store clears the whole staging directory once, before storeFiles
		clearedUpFront := false
		eachInstr(a.store, false, func(_ *ssa.Function, i ssa.Instruction) {
			c, ok := i.(*ssa.Call)
			if ok && isCallTo(c, "fs.RemoveAll", "os.RemoveAll") && derivesFromValue(c.Call.Args[0], tmp) && !derivesFromValue(c.Call.Args[0], final) && instrDominates(c, sfCall) {
				clearedUpFront = true
			}
		})
		nL := 0
		eachInstr(a.storeFile, false, func(_ *ssa.Function, i ssa.Instruction) {
			c, ok := i.(*ssa.Call)
			if !ok || !isCallTo(c, "fs.RecursiveLink", "fs.RecursiveCopy") {
				return
			}
			nL++
			dst := c.Call.Args[1]
			prepared := clearedUpFront
			eachInstr(a.storeFile, false, func(_ *ssa.Function, j ssa.Instruction) {
				cj, ok := j.(*ssa.Call)
				if !ok || !instrDominates(cj, c) {
					return
				}
				if callsFn(cj, a.ensureStoreReady) && clears && cj.Call.Args[len(cj.Call.Args)-1] == dst {
					prepared = true
				}
				if isCallTo(cj, "fs.RemoveAll", "os.RemoveAll") && cj.Call.Args[0] == dst {
					prepared = true
				}
			})
			r.check(prepared, rl, "storeFile clears the staging path before linking into it", p.pos(c.Pos()), fnName(a.storeFile), "RecursiveLink(out, staged) is dominated by a successful ensureStoreReady(staged), which removes what is there", "an output is linked into the staging directory without first removing what an earlier, interrupted store left there: the link of a leftover symlink fails with EEXIST, the walk stops, storeFile only logs it, and the incomplete staging tree is renamed into place and retrieved as a hit")
		})
		if nL == 0 {
			r.unresolved(rl, "RecursiveLink into the staging directory in storeFile")
		}
	}
	// the rename is last and unique; final path otherwise only marked / removed before
	var renames []*ssa.Call
	eachInstr(a.store, false, func(_ *ssa.Function, i ssa.Instruction) {
		if c, ok := i.(*ssa.Call); ok && isCallTo(c, "os.Rename") {
			renames = append(renames, c)
		}
	})
	okRen := len(renames) == 1
	if okRen {
		rn := renames[0]
		okRen = derivesFromValue(rn.Call.Args[0], tmp) && derivesFromValue(rn.Call.Args[1], final) && !derivesFromValue(rn.Call.Args[1], tmp) && instrDominates(sfCall, rn)
	}
	r.check(okRen, rule, "single os.Rename(temp, final) after storeFiles", p.pos(a.store.Pos()), fnName(a.store), "the entry appears under its final name by one rename, dominated by the writer call", "Store does not finish with exactly one os.Rename(temp, final) after the files were written")
	{
		bad := ""
		eachInstr(a.store, false, func(_ *ssa.Function, i ssa.Instruction) {
			c, ok := i.(*ssa.Call)
			if !ok || callsFn(c, a.markDir, a.storeFiles, a.getPath, a.getFullPath) || isCallTo(c, "os.Rename") {
				return
			}
			for _, arg := range c.Call.Args {
				if typeString(arg.Type()) == "string" && derivesFromValue(arg, final) && !derivesFromValue(arg, tmp) {
					if isCallTo(c, "fs.RemoveAll", "os.RemoveAll") && instrDominates(c, sfCall) {
						continue // old entry removed before the new one is staged
					}
					if n := calleeName(&c.Call); n != "(*logging.Logger).Warning" && n != "(*logging.Logger).Debug" && !isLogCall(c) {
						bad = n
					}
				}
			}
		})
		r.check(bad == "", rule, "final path only marked, removed beforehand, and renamed onto", p.pos(a.store.Pos()), fnName(a.store), "no other call takes the final entry path", "the final entry path is also passed to "+bad+" in Store")
	}
	// (2) miss for absent key
	rule = "E12.absent-key-is-a-miss"
	{
		nMiss := 0
		for _, rc := range returnCases(a.retrieveFiles, 0) {
			for _, f := range rc.Facts {
				if c, ok := f.V.(*ssa.Call); ok && !f.Val && isCallTo(c, "core.PathExists", "fs.PathExists") {
					if b, isC := constBool(rc.Vals[0]); isC && !b {
						nMiss++
					} else {
						r.bad(rule, "absent entry => false", p.pos(rc.Site), fnName(a.retrieveFiles), "retrieveFiles does not return false when the entry path does not exist")
					}
				}
			}
		}
		r.check(nMiss > 0, rule, "retrieveFiles: !PathExists(entry) => (false, nil)", p.pos(a.retrieveFiles.Pos()), fnName(a.retrieveFiles), "the not-exists edge returns false", "retrieveFiles has no miss on the entry-does-not-exist edge")
		// retrieve: error => false
		bad := 0
		var errs []ssa.Value
		for _, ci := range callsInFn(a.retrieve, a.retrieveFiles) {
			if c, ok := ci.(*ssa.Call); ok {
				errs = append(errs, resultsOf(c, 1)...)
			}
		}
		for _, rc := range returnCases(a.retrieve, 0) {
			if known, isNil := errKnown(rc.Facts, errs); known && !isNil {
				// under err != nil the result is either constant false or the `found` of a pair that is never (true, err)
				if b, isC := constBool(rc.Vals[0]); isC && b {
					bad++
				}
			}
		}
		r.check(bad == 0 && len(errs) > 0, rule, "retrieve: an error is never a hit", p.pos(a.retrieve.Pos()), fnName(a.retrieve), "no constant-true return under err != nil (and retrieveFiles never returns (true, err))", "retrieve can return true although retrieveFiles returned an error")
	}
	importRules(p, r, checkC13, "", "E12.okerr")
	p.archiveAgreement(r, a)
	// (4) same primitive both ways
	rule = "E9.link-both-ways"
	{
		sLink := len(callsIn(a.storeFile, false, "fs.RecursiveLink"))
		var rLinks []ssa.Instruction
		eachInstrS(a.retrieveFiles, func(_ *ssa.Function, i ssa.Instruction) {
			if isCallTo(i, "fs.RecursiveLink") {
				rLinks = append(rLinks, i)
			}
		})
		rLink := len(rLinks)
		r.check(sLink > 0 && rLink > 0, rule, "store and retrieve use fs.RecursiveLink", p.pos(a.storeFile.Pos()), fnName(a.storeFile), "the same tree primitive is used in both directions", "store and retrieve of the uncompressed cache no longer use the same tree-copy primitive (store: "+itoa(sLink)+", retrieve: "+itoa(rLink)+" RecursiveLink calls): kinds one side preserves (symlinks, directories) the other may not")
		// and retrieve checks its error
		for _, ci := range rLinks {
			c := ci.(*ssa.Call)
			k := false
			missOn := func(errv ssa.Value) bool {
				for _, rc := range returnCases(a.retrieveFiles, 0) {
					if known, isNil := errKnown(rc.Facts, []ssa.Value{errv}); known && !isNil {
						if b, isC := constBool(rc.Vals[0]); isC && !b {
							return true
						}
					}
				}
				return false
			}
			if g := c.Parent(); g == a.retrieveFiles {
				k = missOn(c)
			} else if nres := g.Signature.Results().Len(); nres > 0 {
				// the loop over the outputs lives in a private helper: the link error is what the helper returns, and the
				// caller turns the helper's error into a miss
				passes := false
				for _, rc := range returnCases(g, nres-1) {
					if known, isNil := errKnown(rc.Facts, []ssa.Value{c}); known && !isNil && !isNilConst(rc.Vals[nres-1]) {
						passes = true
					}
				}
				if passes {
					for _, hc := range callsInFn(a.retrieveFiles, g) {
						if hcall, ok := hc.(*ssa.Call); ok {
							for _, e := range resultsOf(hcall, nres-1) {
								if missOn(e) {
									k = true
								}
							}
						}
					}
				}
			}
			r.check(k, rule, "retrieve: link error => miss", p.pos(c.Pos()), fnName(a.retrieveFiles), "the error edge returns false", "an error restoring one output does not make the retrieve a miss: a partially restored tree is reported as a hit")
		}
	}
}

func isLogCall(c *ssa.Call) bool {
	if c.Call.IsInvoke() {
		return false
	}
	if f := c.Call.StaticCallee(); f != nil && f.Pkg != nil {
		return f.Pkg.Pkg.Name() == "logging" || f.Pkg.Pkg.Name() == "log" || f.Pkg.Pkg.Name() == "cli"
	}
	return false
}

// archiveAgreement: compressed store writes a header for every walked entry; retrieve prepares each header's path.
func (p *Prog) archiveAgreement(r *Report, a *dcAnchors) {
	rule := "E9.archive-writer-reader"
	// writer callback
	var cb *ssa.Function
	for _, ci := range callsIn(a.storeCompressed2, false, "fs.Walk", "fs.WalkMode") {
		for _, arg := range callCommon(ci).Args {
			if f := closureOfArg(arg); f != nil {
				cb = f
			}
		}
	}
	if cb == nil {
		r.unresolved(rule, "walk callback in storeCompressed2")
		return
	}
	isHeader := func(i ssa.Instruction) bool { return isCallTo(i, "(*archive/tar.Writer).WriteHeader") }
	// every nil return passes WriteHeader
	skip := false
	for _, ret := range returnsOf(cb) {
		if !isNilConst(unspill(ret.Results[0])) {
			continue
		}
		if existsPath(cb, nil, ret, isHeader) {
			skip = true
		}
	}
	r.check(!skip, rule, "every walked entry gets a tar header", p.pos(cb.Pos()), fnName(cb), "every nil return of the store walk callback passes tw.WriteHeader", "the store walk can skip an entry without writing its header (e.g. directories): the reader relies on the header of each entry to clear what is in the way and to recreate empty directories, so a restore over an existing tree keeps stale files")
	// regular content copied: some io.Copy(tw, f) guarded by Typeflag tests only
	copied := false
	eachInstrS(cb, func(_ *ssa.Function, i ssa.Instruction) {
		if c, ok := i.(*ssa.Call); ok && isCallTo(c, "io.Copy") {
			copied = true
			// its error must be returned
			used := false
			for _, e := range resultsOf(c, 1) {
				if refs := e.Referrers(); refs != nil && len(*refs) > 0 {
					used = true
				}
			}
			r.check(used, rule, "content copy error is returned", p.pos(c.Pos()), fnName(cb), "io.Copy error tested", "a short read while archiving an output is ignored: a truncated file is stored")
		}
	})
	r.check(copied, rule, "regular entries get their content", p.pos(cb.Pos()), fnName(cb), "io.Copy into the tar writer present", "file contents are never written into the archive")
	// reader: every header passes ensureRetrieveReady before materialisation
	rc := a.retrieveCompressed
	var next *ssa.Call
	eachInstr(rc, false, func(_ *ssa.Function, i ssa.Instruction) {
		if c, ok := i.(*ssa.Call); ok && isCallTo(c, "(*archive/tar.Reader).Next") {
			next = c
		}
	})
	if next == nil {
		r.unresolved(rule, "tar.Reader.Next in retrieveCompressed")
		return
	}
	n := 0
	eachInstrS(rc, func(_ *ssa.Function, i ssa.Instruction) {
		c, ok := i.(*ssa.Call)
		if !ok || !isCallTo(c, "os.MkdirAll", "os.Symlink", "os.OpenFile", "os.Create") {
			return
		}
		n++
		prep := dominatedByCall(c, a.ensureRetrieveReady)
		okk := prep != nil
		if okk {
			k, isNil := errKnown(factsAt(c), resultsOf(prep, 1))
			okk = k && isNil
		}
		r.check(okk, rule, calleeName(&c.Call)+" only after ensureRetrieveReady", p.pos(c.Pos()), fnName(rc), "the path was cleared and its parent created first (nil error)", "an archive entry is materialised without ensureRetrieveReady having removed what was at that path: stale files or a running binary are written through")
	})
	if n < 3 {
		r.unresolved(rule, "materialising calls in retrieveCompressed (found "+itoa(n)+")")
	}
	// reader has a case for each non-regular kind the writer distinguishes
	kinds := func(fn *ssa.Function) map[int64]bool {
		out := map[int64]bool{}
		eachInstrS(fn, func(_ *ssa.Function, i ssa.Instruction) {
			if bo, ok := i.(*ssa.BinOp); ok && (bo.Op == token.EQL || bo.Op == token.NEQ) {
				if fieldKeyOfLoad(bo.X) == "archive/tar.Header.Typeflag" {
					if c, ok := constInt(bo.Y); ok {
						out[c] = true
					}
				}
			}
		})
		return out
	}
	wk, rk := kinds(cb), kinds(rc)
	missing := ""
	for k := range wk {
		if !rk[k] {
			missing += string(rune(k)) + " "
		}
	}
	r.check(missing == "" && len(wk) >= 2, rule, "reader handles every header kind the writer singles out", p.pos(rc.Pos()), fnName(rc), "Typeflag constants compared by the writer are all compared by the reader", "the writer treats tar kinds {"+missing+"} specially (no content) but the reader has no case for them: they would be restored as empty regular files")
	// EOF => success only
	okEOF := false
	for _, c := range returnCases(rc, 0) {
		if isNilConst(c.Vals[0]) {
			for _, f := range c.Facts {
				if bo, ok := f.V.(*ssa.BinOp); ok && bo.Op == token.EQL && f.Val {
					for x := range backSlice(bo.Y, SliceOpts{}) {
						if g, ok := x.(*ssa.Global); ok && g.Name() == "EOF" {
							okEOF = true
						}
					}
				}
			}
		}
	}
	r.check(okEOF, rule, "retrieveCompressed succeeds only at end of archive", p.pos(rc.Pos()), fnName(rc), "nil is returned on the err == io.EOF edge of tr.Next", "retrieveCompressed can return nil without having read the archive to its end")
}

func checkC14(p *Prog, r *Report) {
	r.Explanation = "Structural clauses of cache cleaning. (1) protection is established: dirCache.Store marks the final entry path and the temp path it writes into before it removes or writes anything, and retrieveFiles marks the entry before it links or unpacks out of it. (2) marker/cleaner agreement: the temp path written by Store is itself passed to markDir (its name is not always final+\"=\"). (3) whole entries only: in clean, entries are recorded only under shouldClean(name) on the not-marked edge, the walk does not descend into a recorded uncompressed entry (SkipDir), and every removal takes a path derived from entries[i].Path. (4) no protected entry is removed: every rename/remove in the eviction loop is dominated by the not-marked edge of isMarked(entry.Path) of the same iteration. (5) the bound: the running total is decreased only after a successful removal (nil errors of both the rename and the RemoveAll), the loop is left early only on the total<lowWaterMark edge, and `continue` happens only on marked or failed entries."
	r.NotCovered = []string{"access-time ordering and sizes (runtime values)", "entries added by other processes after the walk", "the 28/29/44/45 length table of shouldClean"}
	a := p.dirCache(r, "E5.protection-established")
	if a == nil {
		return
	}
	p.cleanWalkRules(r)
	// prefix tests between cache paths (entry paths, protection marks) are component-bounded: //pkg:server must not
	// stand for //pkg:server_test
	{
		n0 := len(r.Obs)
		p.runPrefixRule(r, "E1.prefixbound", p.Funcs("cache"), 0)
		if len(r.Obs) == n0 {
			r.ok("E1.prefixbound", "no prefix test between two cache paths", "-", "", "no strings.HasPrefix/Contains/HasSuffix whose operands both derive from cache.Dir or the keys of the protection marks")
		}
	}
	// (1)
	rule := "E5.protection-established"
	final, tmp := a.tempAndFinal()
	var sfCall *ssa.Call
	for _, ci := range callsInFn(a.store, a.storeFiles) {
		sfCall, _ = ci.(*ssa.Call)
	}
	if final == nil || tmp == nil || sfCall == nil {
		r.unresolved(rule, "final/temp path or storeFiles call in Store")
	} else {
		marked := func(v *ssa.Call, before ssa.Instruction) bool {
			for _, ci := range callsInFn(a.store, a.markDir) {
				c := ci.(*ssa.Call)
				if derivesFromValue(c.Call.Args[1], v) && instrDominates(c, before) {
					// must be that path itself, not the other one
					return true
				}
			}
			return false
		}
		var firstDestructive ssa.Instruction = sfCall
		eachInstr(a.store, false, func(_ *ssa.Function, i ssa.Instruction) {
			if isCallTo(i, "fs.RemoveAll", "os.RemoveAll") && instrDominates(i, sfCall) {
				firstDestructive = i
			}
		})
		r.check(marked(final, firstDestructive), rule, "Store marks the entry before touching it", p.pos(a.store.Pos()), fnName(a.store), "markDir(final path) dominates the removal of the old entry and the writes", "Store removes/writes the entry without having marked it first: a cleaner pass overlapping the store evicts the half-written entry, which is then renamed into place partial")
		rule2 := "E10.temp-name-agreement"
		tmpMarked := false
		for _, ci := range callsInFn(a.store, a.markDir) {
			c := ci.(*ssa.Call)
			if derivesFromValue(c.Call.Args[1], tmp) && instrDominates(c, sfCall) {
				tmpMarked = true
			}
		}
		r.add(Obligation{Rule: rule2, Instance: "the temp path Store writes into is itself marked", Site: p.pos(tmp.Pos()), Func: fnName(a.store), Path: true, Key: rule2 + "|" + fnName(a.store) + "|temp path marked",
			Status: map[bool]string{true: "discharged", false: "violated"}[tmpMarked],
			Detail: map[bool]string{true: "markDir(getFullPath(..., \"=\")) dominates storeFiles", false: "the in-flight temp entry is protected only through markDir's own guess path+\"=\", which differs from getFullPath's temp name when the cache has a suffix (compressed: <key>=.tar.gz vs <key>.tar.gz=): the cleaner evicts the temp file of a store in progress"}[tmpMarked]})
	}
	{
		rf := a.retrieveFiles
		n := 0
		eachInstrS(rf, func(_ *ssa.Function, i ssa.Instruction) {
			if isCallTo(i, "fs.RecursiveLink") || callsFn(i, a.retrieveCompressed) {
				n++
				r.check(dominatedByCall(i, a.markDir) != nil, rule, "retrieveFiles marks the entry before reading it", p.pos(i.Pos()), fnName(rf), "markDir dominates the link/unpack", "an entry is read out of the cache without having been marked: the cleaner may evict it (or part of it) while it is being restored")
			}
		})
		if n < 2 {
			r.unresolved(rule, "RecursiveLink / retrieveCompressed in retrieveFiles")
		}
	}
	// (3)+(4)+(5) clean
	cl := a.clean
	var walkCb *ssa.Function
	for _, ci := range callsIn(cl, false, "fs.Walk", "fs.WalkMode") {
		for _, arg := range callCommon(ci).Args {
			if mc, ok := arg.(*ssa.MakeClosure); ok {
				walkCb = mc.Fn.(*ssa.Function)
			}
		}
	}
	rule = "E5.whole-entries-only"
	if walkCb == nil {
		r.unresolved(rule, "walk callback in clean")
	} else {
		// appends to entries under shouldClean true and isMarked false
		n := 0
		eachInstr(walkCb, false, func(_ *ssa.Function, i ssa.Instruction) {
			c, ok := i.(*ssa.Call)
			if !ok {
				return
			}
			b, isB := c.Call.Value.(*ssa.Builtin)
			if !isB || b.Name() != "append" || typeString(c.Type()) != "[]cache.cacheEntry" {
				return
			}
			n++
			facts := factsAt(c)
			sc := callFact(facts, true, a.shouldClean) != nil
			nm := false
			for _, f := range facts {
				if e, ok := f.V.(*ssa.Extract); ok && !f.Val && e.Index == 1 {
					if cc, ok := e.Tuple.(*ssa.Call); ok && callsFn(cc, a.isMarked) {
						nm = true
					}
				}
			}
			r.check(sc && nm, rule, "entry recorded only if shouldClean and not marked", p.pos(c.Pos()), fnName(walkCb), "append is on the true edge of shouldClean and the false edge of isMarked", "the cleaner records an eviction candidate that is not a whole cache entry (shouldClean not established) or that this process has marked")
			// after recording an uncompressed entry the walk must not descend: a SkipDir return follows under !Compress
			skipOK := false
			for _, rc := range returnCases(walkCb, 0) {
				isSkip := false
				for x := range backSlice(rc.Vals[0], SliceOpts{}) {
					if g, ok := x.(*ssa.Global); ok && g.Name() == "SkipDir" {
						isSkip = true
					}
				}
				if isSkip && existsPath(walkCb, c, rc.Ret, nil) {
					skipOK = true
				}
			}
			r.check(skipOK, rule, "no descent into a recorded entry", p.pos(c.Pos()), fnName(walkCb), "a SkipDir return is reachable after recording (uncompressed entries are directories)", "after recording a directory entry the walk descends into it: nested names that look like keys would be recorded and evicted separately, removing part of an entry")
		})
		if n == 0 {
			r.unresolved(rule, "append to entries in the clean walk")
		}
	}
	// eviction loop
	rule = "E5.no-protected-eviction"
	var removals []*ssa.Call
	eachInstrS(cl, func(_ *ssa.Function, i ssa.Instruction) {
		if c, ok := i.(*ssa.Call); ok && isCallTo(c, "os.Rename", "fs.RemoveAll", "os.RemoveAll", "os.Remove") {
			removals = append(removals, c)
		}
	})
	if len(removals) < 2 {
		r.unresolved(rule, "rename/remove calls in clean")
	}
	for _, c := range removals {
		nm := false
		for _, f := range factsAt(c) {
			if e, ok := f.V.(*ssa.Extract); ok && !f.Val && e.Index == 1 {
				if cc, ok := e.Tuple.(*ssa.Call); ok && callsFn(cc, a.isMarked) && tagsOf(cc.Call.Args[1], SliceOpts{})["cache.cacheEntry.Path"] {
					nm = true
				}
			}
		}
		fromEntry := tagsOf(c.Call.Args[0], SliceOpts{})["cache.cacheEntry.Path"]
		r.check(nm && fromEntry, rule, calleeName(&c.Call)+" only on an unmarked entry's own path", p.pos(c.Pos()), fnName(cl), "dominated by isMarked(entry.Path)==false; path derives from entry.Path", "the cleaner can remove a path that this process has marked (stored/retrieved), or a path that is not a recorded entry")
	}
	rule = "E5.bound-accounting"
	{
		// the decrement of the running total: a BinOp SUB whose X is the running total (phi) and Y derives from entry.Size
		var sub *ssa.BinOp
		eachInstr(cl, false, func(_ *ssa.Function, i ssa.Instruction) {
			if bo, ok := i.(*ssa.BinOp); ok && bo.Op == token.SUB && tagsOf(bo.Y, SliceOpts{})["cache.cacheEntry.Size"] {
				sub = bo
			}
		})
		if sub == nil {
			r.unresolved(rule, "running total decrement in clean")
		} else {
			okk := true
			why := ""
			for _, c := range removals {
				k, isNil := errKnown(condFacts(sub.Block()), resultsOf(c, 0))
				if !(k && isNil) {
					okk = false
					why += calleeName(&c.Call) + " "
				}
			}
			r.check(okk, rule, "total decreased only after a successful eviction", p.pos(sub.Pos()), fnName(cl), "the subtraction is dominated by nil errors of the rename and the removal", "the running total is decreased although "+why+"may have failed: the loop stops early believing the bound is met while the entries are still on disk")
			// early exit only under total < lowWaterMark
			var lowPrm *ssa.Parameter
			for _, prm := range cl.Params {
				if prm.Name() == "lowWaterMark" {
					lowPrm = prm
				}
			}
			if lowPrm == nil && len(cl.Params) >= 3 {
				lowPrm = cl.Params[2]
			}
			guarded := false
			eachInstr(cl, false, func(_ *ssa.Function, i ssa.Instruction) {
				iff, ok := i.(*ssa.If)
				if !ok {
					return
				}
				if bo, ok := iff.Cond.(*ssa.BinOp); ok && bo.Op == token.LSS && bo.Y == ssa.Value(lowPrm) && derivesFromValue(bo.X, sub) {
					guarded = true
				}
			})
			r.check(guarded, rule, "loop left early only when total < lowWaterMark", p.pos(sub.Pos()), fnName(cl), "the early exit compares the decreased total with the low-water mark", "the eviction loop's early exit is not the comparison of the updated total with the low-water mark")
		}
	}
}

// cleanWalkRules: (a) the paths the cleaner sees must be spelled like the paths that were marked as protected:
// marks are keyed by strings built from cache.Dir as configured, so the walk must start from that very value, not from
// a resolved / absolute / cleaned form of it. (b) sizing an entry never follows links: entries legitimately contain
// dangling symlinks (RecursiveLink stores them as they are), and an error while sizing aborts the whole clean.
func (p *Prog) cleanWalkRules(r *Report) {
	clean := p.Fn("cache", "dirCache.clean")
	findSize := p.Fn("cache", "findSize")
	if clean == nil || findSize == nil {
		r.unresolved("E10.walk-root-is-the-marked-prefix", "cache.dirCache.clean / cache.findSize")
		return
	}
	n := 0
	eachInstr(clean, false, func(_ *ssa.Function, i ssa.Instruction) {
		c, ok := i.(*ssa.Call)
		if !ok || !isCallTo(c, "fs.Walk", "fs.WalkMode", "path/filepath.Walk", "path/filepath.WalkDir") {
			return
		}
		n++
		root := c.Call.Args[0]
		plain := fieldKeyOfLoad(root) == "cache.dirCache.Dir"
		via := ""
		for t := range tagsOf(root, SliceOpts{}) {
			if strings.HasPrefix(t, "call:") {
				via = strings.TrimPrefix(t, "call:")
			}
		}
		r.check(plain && via == "", "E10.walk-root-is-the-marked-prefix", "the cleaner walks cache.Dir as configured", p.pos(c.Pos()), fnName(clean), "the walk root is a plain load of dirCache.Dir", "the cleaner walks a transformed form of the cache directory ("+via+"): protected entries are recorded under paths built from cache.Dir as configured, so when the two spellings differ (a symlink in the cache path) no walked path matches a mark and entries stored or retrieved by this very process are evicted")
	})
	if n == 0 {
		r.unresolved("E10.walk-root-is-the-marked-prefix", "directory walk in dirCache.clean")
	}
	// the size of an entry depends on the entry alone: the total is the sum of the sizes, and evicting an entry subtracts
	// its size; a size that depends on which entries were measured before (a shared "already seen" set) breaks that sum
	{
		shared := ""
		nCalls := 0
		for _, fn := range p.Funcs("cache") {
			for _, ci := range callsInFn(fn, findSize) {
				nCalls++
				cc := callCommon(ci)
				for _, a := range cc.Args {
					switch a.Type().Underlying().(type) {
					case *types.Map, *types.Pointer, *types.Slice, *types.Chan:
						if isNilConst(a) {
							continue
						}
						fresh := false
						if mk, ok := a.(*ssa.MakeMap); ok && mk.Block() == ci.Block() {
							fresh = true
						}
						if !fresh {
							shared = typeString(a.Type()) + " in " + fn.Name()
						}
					}
				}
			}
		}
		r.check(nCalls > 0 && shared == "", "E5.bound-accounting", "an entry's size is measured independently of other entries", p.pos(findSize.Pos()), fnName(findSize), itoa(nCalls)+" call(s) of findSize, none handed state that outlives the call", "findSize is given state shared between entries ("+shared+", e.g. a set of inodes already counted): an entry measured after one it shares a hard-linked file with is under-counted, evicting the first subtracts the full size, and clean() stops while the unprotected entries still exceed the low-water mark")
	}
	follows := ""
	for _, g := range withAnon(findSize) {
		eachInstr(g, false, func(_ *ssa.Function, i ssa.Instruction) {
			if c, ok := i.(*ssa.Call); ok && isCallTo(c, "os.Stat", "fs.Stat") {
				follows = calleeName(&c.Call)
			}
		})
	}
	r.check(follows == "", "E7.sizing-does-not-follow-links", "findSize never follows a symlink", p.pos(findSize.Pos()), fnName(findSize), "sizes come from the walker's own (l)stat information", "findSize stats entries with "+follows+", which follows symlinks: a dangling link inside a cache entry makes it fail, clean() returns on the error before evicting anything, and the cache stays above its bound")
}

// loopBlocksOf: headers of the loops that contain block b.
func loopBlocksOf(fn *ssa.Function, b *ssa.BasicBlock) []*ssa.BasicBlock {
	var out []*ssa.BasicBlock
	for h, body := range loopBlocks(fn) {
		for _, x := range body {
			if x == b {
				out = append(out, h)
			}
		}
	}
	return out
}
