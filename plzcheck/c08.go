package main

import (
	"golang.org/x/tools/go/ssa"
	"strings"
)

func init() {
	register("C08", []string{"./src/..."}, checkC08)
}

// buildRelevant is the must-hash table taken from the statement of C08 (and
// the attributes the code itself documents as build-relevant).
var buildRelevant = []mustHash{
	{"name", []string{"core.BuildTarget.Label"}},
	{"cmd", []string{"core.BuildTarget.Command", "core.BuildTarget.Commands"}},
	{"srcs", []string{"core.BuildTarget.Sources"}},
	{"named srcs", []string{"core.BuildTarget.NamedSources"}},
	{"outs", []string{"core.BuildTarget.outputs"}},
	{"named outs", []string{"core.BuildTarget.namedOutputs"}},
	{"optional_outs", []string{"core.BuildTarget.OptionalOutputs"}},
	{"deps", []string{"core.BuildTarget.dependencies"}},
	{"tools", []string{"core.BuildTarget.Tools", "core.BuildTarget.namedTools"}},
	{"env", []string{"core.BuildTarget.Env"}},
	{"pass_env", []string{"core.BuildTarget.PassEnv", "<os.Getenv>"}},
	{"labels", []string{"core.BuildTarget.Labels"}},
	{"secrets", []string{"core.BuildTarget.Secrets", "core.BuildTarget.NamedSecrets"}},
	{"binary", []string{"core.BuildTarget.IsBinary"}},
	{"sandbox", []string{"core.BuildTarget.Sandbox"}},
	{"output_dirs", []string{"core.BuildTarget.OutputDirectories"}},
	{"entry_points", []string{"core.BuildTarget.EntryPoints"}},
	{"text_file content", []string{"core.BuildTarget.FileContent"}},
	{"requires", []string{"core.BuildTarget.Requires"}},
	{"provides", []string{"core.BuildTarget.Provides"}},
	{"hashes", []string{"core.BuildTarget.Hashes"}},
	{"licences", []string{"core.BuildTarget.Licences"}},
	{"stamp", []string{"core.BuildTarget.Stamp"}},
	{"filegroup/text_file/remote_file kind", []string{"core.BuildTarget.IsFilegroup", "core.BuildTarget.IsTextFile", "core.BuildTarget.IsRemoteFile"}},
	{"needs_transitive_deps", []string{"core.BuildTarget.NeedsTransitiveDependencies"}},
	{"output_is_complete", []string{"core.BuildTarget.OutputIsComplete"}},
	{"local", []string{"core.BuildTarget.Local"}},
	{"src_list_files", []string{"core.BuildTarget.SrcListFiles"}},
	{"exit_on_error", []string{"core.BuildTarget.ExitOnError"}},
	{"subrepo", []string{"core.BuildTarget.IsSubrepo"}},
	{"pre_build / post_build presence", []string{"core.BuildTarget.PreBuildFunction", "core.BuildTarget.PostBuildFunction"}},
	// names of named groups (the keys of the map-valued attributes) select environment variables / outputs
	{"names of named srcs", []string{"keys:core.BuildTarget.NamedSources"}},
	{"names of named outs", []string{"keys:core.BuildTarget.namedOutputs"}},
	{"names of named tools", []string{"keys:core.BuildTarget.namedTools"}},
	{"names of named secrets", []string{"keys:core.BuildTarget.NamedSecrets"}},
	{"provides languages", []string{"keys:core.BuildTarget.Provides"}},
	{"env variable names", []string{"keys:core.BuildTarget.Env"}},
	{"entry point names", []string{"keys:core.BuildTarget.EntryPoints"}},
}

// runtimeRelevant: additional attributes for the runtime (test) hash, C11/C24.
var runtimeRelevant = []mustHash{
	{"data", []string{"core.BuildTarget.Data", "core.BuildTarget.NamedData"}},
	{"test outputs", []string{"core.TestFields.Outputs"}},
	{"test sandbox", []string{"core.TestFields.Sandbox"}},
	{"test_cmd", []string{"core.TestFields.Command", "core.TestFields.Commands"}},
	{"test args placeholder", []string{"core.TestFields.ArgsPlaceholder"}},
}

func ruleHashAnchors(p *Prog, r *Report, rule string) (rh *ssa.Function, runtime ssa.Value) {
	rh = p.Fn("build", "ruleHash")
	if rh == nil {
		// fall back: the function RuleHash calls that creates a hash
		r.unresolved(rule, "build.ruleHash")
		return nil, nil
	}
	for _, prm := range rh.Params {
		if prm.Name() == "runtime" {
			runtime = prm
		}
	}
	if runtime == nil {
		r.unresolved(rule, "bool parameter `runtime` of build.ruleHash")
		return nil, nil
	}
	return rh, runtime
}

func checkC08(p *Prog, r *Report) {
	r.Explanation = "E2 hashcover: for build.ruleHash (non-runtime part) every field in the must-hash table (taken from the property statement: cmd, srcs, named srcs, outs, named outs, optional outs, deps, tools, env, pass_env names and values, labels, secrets, binary, sandbox, output_dirs, entry points, text_file content, requires/provides, plus the attributes the code documents as build-relevant) must be in the SSA backward slice (accessors followed interprocedurally to depth 4, including helper functions that take the hash) of some operand written to the hash or of a condition controlling such a write. E3 hashframe: every loop that writes free-form strings to the hash must frame its items (constant terminator/separator or length per iteration; build labels count as self-delimiting), and two variable parts of one item need a constant between them."
	r.NotCovered = []string{"SHA-1 collisions", "attributes not in the table", "separators between different attributes (changes two attributes at once; outside C08's quantifier)"}
	rh, runtime := ruleHashAnchors(p, r, "E2.hashcover")
	if rh == nil {
		return
	}
	p.runHashCover(r, "E2.hashcover", rh, map[ssa.Value]bool{runtime: false}, buildRelevant)
	r.floor("E2.hashcover", 30)
	// memoised hash is only written from the non-runtime hash
	p.runFraming(r, "E3.hashframe", rh)
	if hm := p.Fn("build", "hashMap"); hm != nil {
		p.runFraming(r, "E3.hashframe", hm)
	}
	r.floor("E3.hashframe", 10)
	p.depsAccessorUnfiltered(r, "E2.dependencies-hashed-unfiltered", rh)
}

// depsAccessorUnfiltered: the accessor through which the rule hash reads BuildTarget.dependencies must yield an
// element for every entry of that list. BuildTarget has filtered siblings (DeclaredDependenciesStrict drops exported,
// runtime, source- and tool-implied dependencies; those are hashed nowhere else), and coverage of the *field* (E2) cannot
// tell them apart.
func (p *Prog) depsAccessorUnfiltered(r *Report, rule string, rh *ssa.Function) {
	n := 0
	seen := map[*ssa.Function]bool{}
	eachInstr(rh, true, func(_ *ssa.Function, i ssa.Instruction) {
		cc := callCommon(i)
		if cc == nil {
			return
		}
		g := cc.StaticCallee()
		if g == nil || g.Blocks == nil || seen[g] || !strings.HasPrefix(fnPkg(g), modPath+"/src/core") {
			return
		}
		seen[g] = true
		if g.Signature.Results().Len() != 1 || !strings.Contains(typeString(g.Signature.Results().At(0).Type()), "BuildLabel") {
			return
		}
		for _, l := range sliceRangeLoops(g) {
			if fieldKeyOfLoad(l.over) != "core.BuildTarget.dependencies" {
				continue
			}
			n++
			skips := l.iterationSkips(func(j ssa.Instruction) bool {
				switch x := j.(type) {
				case *ssa.Store:
					_, isIdx := x.Addr.(*ssa.IndexAddr)
					return isIdx
				case *ssa.Call:
					b, ok := x.Call.Value.(*ssa.Builtin)
					return ok && b.Name() == "append"
				}
				return false
			})
			r.check(!skips, rule, g.Name()+" yields every declared dependency", p.pos(g.Pos()), fnName(g), "each iteration over BuildTarget.dependencies stores or appends an element", "the rule hash reads the target's dependencies through "+g.Name()+", which leaves some of them out (exported, runtime, source- or tool-implied dependencies): adding or removing such a dependency does not change the rule hash, so the target is neither rebuilt nor reported as changed")
		}
	})
	if n == 0 {
		r.unresolved(rule, "accessor over BuildTarget.dependencies called from ruleHash")
	}
}

func (p *Prog) runFraming(r *Report, rule string, fn *ssa.Function) {
	seen := map[string]int{}
	for _, f := range p.hashFraming(fn) {
		inst := f.kind + " framing of " + f.attr
		key := rule + "|" + fnName(fn) + "|" + f.kind + "|" + f.attr
		seen[key]++
		if seen[key] > 1 {
			key += "#" + itoa(seen[key])
		}
		st := "discharged"
		if !f.ok {
			st = "violated"
		}
		r.add(Obligation{Rule: rule, Instance: inst, Site: p.pos(f.site), Func: fnName(fn), Status: st, Detail: f.detail, Key: key, Path: true})
	}
}
