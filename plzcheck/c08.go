package main

import (
	"go/token"
	"golang.org/x/tools/go/ssa"
	"strings"
)

func init() {
	register("C08", []string{"./src/..."}, checkC08)
}

// buildRelevant is the must-hash table taken from the statement of C08 (and
// the attributes the code itself documents as build-relevant).
var buildRelevant = []mustHash{
	{"name", []string{"core.BuildTarget.Label"}},
	{"cmd", []string{"core.BuildTarget.Command", "core.BuildTarget.Commands"}},
	{"srcs", []string{"core.BuildTarget.Sources"}},
	{"named srcs", []string{"core.BuildTarget.NamedSources"}},
	{"outs", []string{"core.BuildTarget.outputs"}},
	{"named outs", []string{"core.BuildTarget.namedOutputs"}},
	{"optional_outs", []string{"core.BuildTarget.OptionalOutputs"}},
	{"deps", []string{"core.BuildTarget.dependencies"}},
	{"tools", []string{"core.BuildTarget.Tools", "core.BuildTarget.namedTools"}},
	{"env", []string{"core.BuildTarget.Env"}},
	{"pass_env", []string{"core.BuildTarget.PassEnv", "<os.Getenv>"}},
	{"labels", []string{"core.BuildTarget.Labels"}},
	{"secrets", []string{"core.BuildTarget.Secrets", "core.BuildTarget.NamedSecrets"}},
	{"binary", []string{"core.BuildTarget.IsBinary"}},
	{"sandbox", []string{"core.BuildTarget.Sandbox"}},
	{"output_dirs", []string{"core.BuildTarget.OutputDirectories"}},
	{"entry_points", []string{"core.BuildTarget.EntryPoints"}},
	{"text_file content", []string{"core.BuildTarget.FileContent"}},
	{"requires", []string{"core.BuildTarget.Requires"}},
	{"provides", []string{"core.BuildTarget.Provides"}},
	{"hashes", []string{"core.BuildTarget.Hashes"}},
	{"licences", []string{"core.BuildTarget.Licences"}},
	{"stamp", []string{"core.BuildTarget.Stamp"}},
	{"filegroup/text_file/remote_file kind", []string{"core.BuildTarget.IsFilegroup", "core.BuildTarget.IsTextFile", "core.BuildTarget.IsRemoteFile"}},
	{"needs_transitive_deps", []string{"core.BuildTarget.NeedsTransitiveDependencies"}},
	{"output_is_complete", []string{"core.BuildTarget.OutputIsComplete"}},
	{"local", []string{"core.BuildTarget.Local"}},
	{"src_list_files", []string{"core.BuildTarget.SrcListFiles"}},
	{"exit_on_error", []string{"core.BuildTarget.ExitOnError"}},
	{"subrepo", []string{"core.BuildTarget.IsSubrepo"}},
	{"pre_build / post_build presence", []string{"core.BuildTarget.PreBuildFunction", "core.BuildTarget.PostBuildFunction"}},
	// names of named groups (the keys of the map-valued attributes) select environment variables / outputs
	{"names of named srcs", []string{"keys:core.BuildTarget.NamedSources"}},
	{"names of named outs", []string{"keys:core.BuildTarget.namedOutputs"}},
	{"names of named tools", []string{"keys:core.BuildTarget.namedTools"}},
	{"names of named secrets", []string{"keys:core.BuildTarget.NamedSecrets"}},
	{"provides languages", []string{"keys:core.BuildTarget.Provides"}},
	{"env variable names", []string{"keys:core.BuildTarget.Env"}},
	{"entry point names", []string{"keys:core.BuildTarget.EntryPoints"}},
}

// runtimeRelevant: additional attributes for the runtime (test) hash, C11/C24.
var runtimeRelevant = []mustHash{
	{"data", []string{"core.BuildTarget.Data", "core.BuildTarget.NamedData"}},
	{"test outputs", []string{"core.TestFields.Outputs"}},
	{"test sandbox", []string{"core.TestFields.Sandbox"}},
	{"test_cmd", []string{"core.TestFields.Command", "core.TestFields.Commands"}},
	{"test args placeholder", []string{"core.TestFields.ArgsPlaceholder"}},
}

func ruleHashAnchors(p *Prog, r *Report, rule string) (rh *ssa.Function, runtime ssa.Value) {
	rh = p.Fn("build", "ruleHash")
	if rh == nil {
		// fall back: the function RuleHash calls that creates a hash
		r.unresolved(rule, "build.ruleHash")
		return nil, nil
	}
	for _, prm := range rh.Params {
		if prm.Name() == "runtime" {
			runtime = prm
		}
	}
	if runtime == nil {
		r.unresolved(rule, "bool parameter `runtime` of build.ruleHash")
		return nil, nil
	}
	return rh, runtime
}

func checkC08(p *Prog, r *Report) {
	r.Explanation = "E2 hashcover: for build.ruleHash (non-runtime part) every field in the must-hash table (taken from the property statement: cmd, srcs, named srcs, outs, named outs, optional outs, deps, tools, env, pass_env names and values, labels, secrets, binary, sandbox, output_dirs, entry points, text_file content, requires/provides, plus the attributes the code documents as build-relevant) must be in the SSA backward slice (accessors followed interprocedurally to depth 4, including helper functions that take the hash) of some operand written to the hash or of a condition controlling such a write. E3 hashframe: every loop that writes free-form strings to the hash must frame its items (constant terminator/separator or length per iteration; build labels count as self-delimiting), and two variable parts of one item need a constant between them."
	r.NotCovered = []string{"SHA-1 collisions", "attributes not in the table", "separators between different attributes (changes two attributes at once; outside C08's quantifier)"}
	rh, runtime := ruleHashAnchors(p, r, "E2.hashcover")
	if rh == nil {
		return
	}
	p.runHashCover(r, "E2.hashcover", rh, map[ssa.Value]bool{runtime: false}, buildRelevant)
	r.floor("E2.hashcover", 30)
	// memoised hash is only written from the non-runtime hash
	p.runFraming(r, "E3.hashframe", rh)
	if hm := p.Fn("build", "hashMap"); hm != nil {
		p.runFraming(r, "E3.hashframe", hm)
	}
	r.floor("E3.hashframe", 10)
	p.depsAccessorUnfiltered(r, "E2.dependencies-hashed-unfiltered", rh)
	p.sentinelKeyRule(r, rh)
	p.noMemoBeforePreBuild(r, "E5.rule-hash-not-memoised-before-pre-build")
	p.hashedCommandIsExecutedCommand(r, rh)
	p.inputGroupsConcatenated(r)
}

// hashedCommandIsExecutedCommand: which of a target's per-config commands applies is decided by
// BuildTarget.GetCommand / GetTestCommand (active config, fallback config, then the highest config name). The rule
// hash must take the command from those accessors, not from a selection of its own, or it hashes a command other than
// the one that runs.
func (p *Prog) hashedCommandIsExecutedCommand(r *Report, rh *ssa.Function) {
	rule := "E7.hashed-command-is-executed-command"
	for _, acc := range []string{"GetCommand", "GetTestCommand"} {
		found := false
		eachInstr(rh, true, func(_ *ssa.Function, i ssa.Instruction) {
			if a, ok := hashWriteArg(i); ok && tagsOf(a, SliceOpts{})["call:(*core.BuildTarget)."+acc] {
				found = true
			}
		})
		r.check(found, rule, "the rule hash covers the result of "+acc, p.pos(rh.Pos()), fnName(rh), "a hash write takes target."+acc+"(state)", "the rule hash no longer takes the command from BuildTarget."+acc+", the accessor the build step uses to pick the command it runs: for a per-config command dict the hashed command can differ from the executed one (e.g. no entry for the active or fallback config), and editing the executed command leaves the hash unchanged")
	}
	// and nothing in package build selects from the per-config maps on its own
	n := 0
	for _, f := range p.Funcs("build") {
		eachInstr(f, false, func(_ *ssa.Function, i ssa.Instruction) {
			lk, ok := i.(*ssa.Lookup)
			if !ok {
				return
			}
			tg := tagsOf(lk.X, SliceOpts{StopAtCall: func(*ssa.Call) bool { return true }})
			if tg["core.BuildTarget.Commands"] || tg["core.TestFields.Commands"] {
				n++
				r.bad(rule, "package build selects a per-config command itself", p.pos(lk.Pos()), fnName(f), "a lookup in target.Commands outside BuildTarget.GetCommand: the selection rule is duplicated and can disagree with the one the build uses")
			}
		})
	}
	if n == 0 {
		r.ok(rule, "only BuildTarget selects from the per-config command maps", "-", "", "no lookup in Commands in package build")
	}
}

// inputGroupsConcatenated: the rule hash writes the flat list of inputs (AllSources/AllTools/...) and, for the named
// groups, only their names and sizes; group membership is recoverable from that only while the flat list is the plain
// concatenation of the unnamed list and the groups in key order. allBuildInputs must therefore append every element of
// every group (no filtering or de-duplication).
func (p *Prog) inputGroupsConcatenated(r *Report) {
	rule := "E2.input-groups-concatenated"
	abi := p.Fn("core", "BuildTarget.allBuildInputs")
	if abi == nil {
		r.unresolved(rule, "core.BuildTarget.allBuildInputs")
		return
	}
	cond := false
	var site token.Pos
	for _, g := range withAnon(abi) {
		for _, l := range sliceRangeLoops(g) {
			if !strings.HasSuffix(typeString(l.over.Type()), "core.BuildInput") {
				continue
			}
			if l.iterationSkips(func(i ssa.Instruction) bool {
				c, ok := i.(*ssa.Call)
				if !ok {
					return false
				}
				b, ok := c.Call.Value.(*ssa.Builtin)
				return ok && b.Name() == "append"
			}) {
				cond = true
				site = l.header.Instrs[0].Pos()
			}
		}
	}
	appends := 0
	for _, g := range withAnon(abi) {
		eachInstr(g, false, func(_ *ssa.Function, i ssa.Instruction) {
			if c, ok := i.(*ssa.Call); ok {
				if b, ok := c.Call.Value.(*ssa.Builtin); ok && b.Name() == "append" && strings.HasSuffix(typeString(c.Type()), "core.BuildInput") {
					appends++
				}
			}
		})
	}
	r.check(!cond && appends > 0, rule, "allBuildInputs appends every element of every group", p.pos(abi.Pos()), fnName(abi), itoa(appends)+" append(s) of inputs, none conditional on the element", "allBuildInputs drops some inputs (at "+p.pos(site)+"; e.g. one already seen in another group): the rule hash writes this flat list plus only the names and sizes of the groups, so srcs={a:[x,y], b:[x]} and {a:[x,y], b:[y]} hash the same although $SRCS_B differs")
}

// depsAccessorUnfiltered: the accessor through which the rule hash reads BuildTarget.dependencies must yield an
// element for every entry of that list. BuildTarget has filtered siblings (DeclaredDependenciesStrict drops exported,
// runtime, source- and tool-implied dependencies; those are hashed nowhere else), and coverage of the *field* (E2) cannot
// tell them apart.
func (p *Prog) depsAccessorUnfiltered(r *Report, rule string, rh *ssa.Function) {
	n := 0
	seen := map[*ssa.Function]bool{}
	eachInstr(rh, true, func(_ *ssa.Function, i ssa.Instruction) {
		cc := callCommon(i)
		if cc == nil {
			return
		}
		g := cc.StaticCallee()
		if g == nil || g.Blocks == nil || seen[g] || !strings.HasPrefix(fnPkg(g), modPath+"/src/core") {
			return
		}
		seen[g] = true
		if g.Signature.Results().Len() != 1 || !strings.Contains(typeString(g.Signature.Results().At(0).Type()), "BuildLabel") {
			return
		}
		for _, l := range sliceRangeLoops(g) {
			if fieldKeyOfLoad(l.over) != "core.BuildTarget.dependencies" {
				continue
			}
			n++
			skips := l.iterationSkips(func(j ssa.Instruction) bool {
				switch x := j.(type) {
				case *ssa.Store:
					_, isIdx := x.Addr.(*ssa.IndexAddr)
					return isIdx
				case *ssa.Call:
					b, ok := x.Call.Value.(*ssa.Builtin)
					return ok && b.Name() == "append"
				}
				return false
			})
			r.check(!skips, rule, g.Name()+" yields every declared dependency", p.pos(g.Pos()), fnName(g), "each iteration over BuildTarget.dependencies stores or appends an element", "the rule hash reads the target's dependencies through "+g.Name()+", which leaves some of them out (exported, runtime, source- or tool-implied dependencies): adding or removing such a dependency does not change the rule hash, so the target is neither rebuilt nor reported as changed")
		}
	})
	if n == 0 {
		r.unresolved(rule, "accessor over BuildTarget.dependencies called from ruleHash")
	}
}

func (p *Prog) runFraming(r *Report, rule string, fn *ssa.Function) {
	seen := map[string]int{}
	for _, f := range p.hashFraming(fn) {
		inst := f.kind + " framing of " + f.attr
		key := rule + "|" + fnName(fn) + "|" + f.kind + "|" + f.attr
		seen[key]++
		if seen[key] > 1 {
			key += "#" + itoa(seen[key])
		}
		st := "discharged"
		if !f.ok {
			st = "violated"
		}
		r.add(Obligation{Rule: rule, Instance: inst, Site: p.pos(f.site), Func: fnName(fn), Status: st, Detail: f.detail, Key: key, Path: true})
	}
}

// sentinelKeyRule: while preparing what goes into the rule hash, a map that is filled with user-chosen keys (the names
// of named groups, env names, ...) must not also get an entry under a constant key standing for something else (the
// unnamed group, a default): a user key equal to the constant overwrites or is overwritten by it, and two different
// rules hash the same.
func (p *Prog) sentinelKeyRule(r *Report, rh *ssa.Function) {
	rule := "E3.no-sentinel-key-among-user-keys"
	n, bad := 0, 0
	var site token.Pos
	for _, g := range p.closure([]*ssa.Function{rh}, 2, inRepoPkgs("build")) {
		byMap := map[ssa.Value][2]bool{}
		eachInstr(g, false, func(_ *ssa.Function, i ssa.Instruction) {
			mu, ok := i.(*ssa.MapUpdate)
			if !ok {
				return
			}
			mk, ok := mu.Map.(*ssa.MakeMap)
			if !ok {
				return
			}
			st := byMap[mk]
			if _, isC := mu.Key.(*ssa.Const); isC {
				st[0] = true
				site = mu.Pos()
			} else {
				for x := range backSlice(mu.Key, SliceOpts{}) {
					if _, isNext := x.(*ssa.Next); isNext {
						st[1] = true
					}
				}
			}
			byMap[mk] = st
		})
		for _, st := range byMap {
			n++
			if st[0] && st[1] {
				bad++
			}
		}
	}
	if n == 0 {
		r.ok(rule, "no local map mixes a constant key with keys taken from another map", "-", "", "no local maps are filled in the rule-hash closure")
		return
	}
	r.check(bad == 0, rule, "no local map mixes a constant key with keys taken from another map", p.pos(site), fnName(rh), itoa(n)+" local map(s) in the rule-hash closure, none with both kinds of key", "a helper of the rule hash puts a constant key (e.g. \"\" for the unnamed group) into the same map as the user-chosen group names: srcs=[a,b] and srcs={\"\": [a,b]} then hash the same although only the second exports $SRCS_")
}

// noMemoBeforePreBuild: RuleHash memoises the (non-post-build) hash on the target. The pre-build function may still
// change the command, outputs and dependencies, so nothing in buildTarget may ask for that hash before it has run.
func (p *Prog) noMemoBeforePreBuild(r *Report, rule string) {
	bt := p.Fn("build", "buildTarget")
	RH := p.Fn("build", "RuleHash")
	if bt == nil || RH == nil {
		r.unresolved(rule, "build.buildTarget / build.RuleHash")
		return
	}
	var pre []ssa.Instruction
	eachInstr(bt, false, func(_ *ssa.Function, i ssa.Instruction) {
		cc := callCommon(i)
		if cc != nil && cc.IsInvoke() && cc.Method.Name() == "RunPreBuildFunction" {
			pre = append(pre, i)
		}
	})
	if len(pre) == 0 {
		r.unresolved(rule, "the RunPreBuildFunction call in buildTarget")
		return
	}
	// every function that (transitively, depth 3) calls RuleHash with postBuild == false
	memoises := func(g *ssa.Function) bool {
		for _, h := range p.closure([]*ssa.Function{g}, 3, inRepoPkgs("build")) {
			if h == RH {
				return true
			}
		}
		return false
	}
	early := ""
	eachInstr(bt, false, func(_ *ssa.Function, i ssa.Instruction) {
		cc := callCommon(i)
		if cc == nil || cc.StaticCallee() == nil || !memoises(cc.StaticCallee()) {
			return
		}
		for _, pc := range pre {
			if existsPath(bt, i, pc, nil) {
				early = calleeName(cc) + " at " + p.pos(i.Pos())
			}
		}
	})
	r.check(early == "", rule, "buildTarget does not compute the rule hash before the pre-build function", p.pos(bt.Pos()), fnName(bt), "no call that reaches RuleHash can be followed by RunPreBuildFunction", "buildTarget asks for the rule hash ("+early+") before the pre-build function has run, and RuleHash memoises it on the target: whatever the pre-build function then changes (set_command, add_out, add_dep) is missing from the hash that is compared, recorded and used as cache key")
}
