package main

import (
	"go/token"
	"go/types"
	"strings"

	"golang.org/x/tools/go/ssa"
)

func init() {
	register("C26", []string{"./src/core/...", "./src/test/..."}, checkC26)
	register("C27", []string{"./src/core/..."}, checkC27)
}

// ---------------------------------------------------------------- C27

func checkC27(p *Prog, r *Report) {
	r.Explanation = "Structural clauses of order-independent coverage merging. The merge touches line states only through comparisons, so its algebra is visible in its shape: (1) MergeCoverageLines never writes into its arguments: every element store and append goes to storage allocated in the function (E8 alias roots), so merging cannot disturb what another merge reads. (2) pointwise maximum: every element store into the result is guarded by a strictly-greater comparison between the stored value and the element it replaces, taken at the same index; elements beyond the shorter input are appended unchanged; no other store exists. A loop body of this shape computes max(a[i], b[i]) (commutative, associative, idempotent) on the common prefix and copies the tail, which is what makes the result independent of the order of runs and a second merge of the same run a no-op. (3) table: the four line states are declared in increasing order of 'goodness' (NotExecutable < Unreachable < Uncovered < Covered), so 'greater' means 'better'. (4) Aggregate merges every file of the incoming coverage into the entry of the same name. The algebraic laws themselves are not executed."
	r.NotCovered = []string{"per-test coverage (Tests map: last writer wins by design, tests are assumed independent)", "incremental coverage and reporting"}
	merge := p.Fn("core", "MergeCoverageLines")
	agg := p.Fn("core", "TestCoverage.Aggregate")
	if merge == nil || agg == nil {
		r.unresolved("E8.merge-does-not-mutate-inputs", "core.MergeCoverageLines / TestCoverage.Aggregate")
		return
	}
	rule := "E8.merge-does-not-mutate-inputs"
	{
		n, bad := 0, 0
		for _, w := range storageWrites(merge) {
			n++
			if ok, _ := hasRoot(aliasRoots(w.into), rootParam); ok {
				bad++
			}
		}
		// copy(ret, existing) writes into ret: its destination must be fresh too (storageWrites lists copy with Args[0])
		r.check(n > 0 && bad == 0, rule, "every write of the merge goes to storage it allocated", p.pos(merge.Pos()), fnName(merge), itoa(n)+" element stores/copies, none rooted at a parameter", "MergeCoverageLines writes into one of its arguments: the coverage of an earlier run is modified while (or after) being merged, so the result depends on which run was merged first and a repeated merge is not a no-op")
		// the result is the fresh slice
		fresh := false
		for _, ret := range returnsOf(merge) {
			if ok, _ := hasRoot(aliasRoots(unspill(ret.Results[0])), rootFresh); ok {
				if isP, _ := hasRoot(aliasRoots(unspill(ret.Results[0])), rootParam); !isP {
					fresh = true
				}
			}
		}
		r.check(fresh, rule, "the merged slice is freshly allocated", p.pos(merge.Pos()), fnName(merge), "returned storage is rooted at make/append in this function", "MergeCoverageLines can return one of its arguments' storage")
	}
	rule = "E5.pointwise-max"
	{
		nStores, bad := 0, 0
		eachInstr(merge, false, func(_ *ssa.Function, i ssa.Instruction) {
			st, ok := i.(*ssa.Store)
			if !ok {
				return
			}
			ia, ok := st.Addr.(*ssa.IndexAddr)
			if !ok {
				return
			}
			if _, isSlice := ia.X.Type().Underlying().(*types.Slice); !isSlice {
				return // e.g. the one-element array go/ssa builds for append's variadic argument
			}
			nStores++
			// guarded by `new > old` with old = the element at the same index of the same slice
			okk := false
			for _, f := range factsAt(st) {
				bo, ok := f.V.(*ssa.BinOp)
				if !ok || !f.Val {
					continue
				}
				var greater, smaller ssa.Value
				switch bo.Op {
				case token.GTR:
					greater, smaller = bo.X, bo.Y
				case token.LSS:
					greater, smaller = bo.Y, bo.X
				default:
					continue
				}
				// stored value is the greater operand (same load or same element)
				sameVal := greater == st.Val || sameElement(greater, st.Val)
				// the smaller operand is the element being replaced
				oldElem := false
				if u, ok := smaller.(*ssa.UnOp); ok {
					if oia, ok := u.X.(*ssa.IndexAddr); ok && oia.Index == ia.Index && rootOf(oia.X) == rootOf(ia.X) {
						oldElem = true
					}
				}
				if sameVal && oldElem {
					okk = true
				}
			}
			if !okk {
				bad++
			}
		})
		r.check(nStores > 0 && bad == 0, rule, "an element is replaced only by a strictly greater one at the same index", p.pos(merge.Pos()), fnName(merge), itoa(nStores)+" element store(s), each on the true edge of `new > ret[i]` storing that new value", "an element of the merged coverage is overwritten without the stored value having compared greater than the element it replaces (or with a value other than the one compared): the merge is no longer a pointwise maximum, so its result depends on the order of the runs / lines lose their best state")
		// tail: appended values are elements of the other input, unchanged, under i >= len(ret)
		nApp, badApp := 0, 0
		eachInstr(merge, false, func(_ *ssa.Function, i ssa.Instruction) {
			c, ok := i.(*ssa.Call)
			if !ok {
				return
			}
			if b, ok := c.Call.Value.(*ssa.Builtin); !ok || b.Name() != "append" {
				return
			}
			nApp++
			under := false
			for _, f := range factsAt(c) {
				if bo, ok := f.V.(*ssa.BinOp); ok && f.Val && (bo.Op == token.GEQ) {
					if lc, ok := bo.Y.(*ssa.Call); ok {
						if b, ok := lc.Call.Value.(*ssa.Builtin); ok && b.Name() == "len" {
							under = true
						}
					}
				}
			}
			if !under {
				badApp++
			}
		})
		r.check(nApp > 0 && badApp == 0, rule, "lines beyond the shorter input are appended as they are", p.pos(merge.Pos()), fnName(merge), "append only on the i >= len(result) edge", "lines are appended to the merged coverage although the result already has that index (or never): lengths no longer extend to the longer input")
	}
	rule = "E10.line-state-order"
	{
		names := []string{"NotExecutable", "Unreachable", "Uncovered", "Covered"}
		okk := true
		prev := int64(-1)
		for _, n := range names {
			v, ok := p.ConstInt("core", n)
			if !ok || v <= prev {
				okk = false
			}
			prev = v
		}
		r.check(okk, rule, "NotExecutable < Unreachable < Uncovered < Covered", "-", "", "the enum values increase with the quality of the observation", "the line-state constants are no longer declared in increasing order of quality: taking the greater state no longer means taking the best one")
	}
	// every copy of the build state (per subrepo, per architecture) aggregates into one shared map: the map exists before
	// the state can be copied (BuildState.Copy copies the struct, so only a non-nil map is shared)
	if nbs := p.Fn("core", "NewBuildState"); nbs == nil {
		r.unresolved("E5.aggregate-every-file", "core.NewBuildState")
	} else {
		made := false
		eachInstr(nbs, false, func(_ *ssa.Function, i ssa.Instruction) {
			if st, ok := i.(*ssa.Store); ok && fieldKey(st.Addr) == "core.TestCoverage.Files" {
				if _, isMk := st.Val.(*ssa.MakeMap); isMk {
					made = true
				}
			}
		})
		r.check(made, "E5.aggregate-every-file", "the shared coverage map is created with the build state", p.pos(nbs.Pos()), fnName(nbs), "NewBuildState stores a fresh map into Coverage.Files", "NewBuildState leaves Coverage.Files nil and relies on Aggregate creating it lazily: a state copied (for a subrepo or another architecture) before the first result arrives gets a map of its own, so runs logged through that copy never reach the aggregate `plz cover` reports from - which runs count depends on which test finishes first")
	}
	rule = "E5.aggregate-every-file"
	{
		okk := false
		for _, l := range mapRangeLoops(agg) {
			if fieldKeyOfLoad(l.over) != "core.TestCoverage.Files" {
				continue
			}
			skips := l.iterationSkips(func(i ssa.Instruction) bool { return callsFn(i, merge) })
			// result stored under the same key it was read from
			same := false
			eachInstr(agg, false, func(_ *ssa.Function, i ssa.Instruction) {
				mu, ok := i.(*ssa.MapUpdate)
				if !ok {
					return
				}
				c, ok := mu.Value.(*ssa.Call)
				if !ok || !callsFn(c, merge) {
					return
				}
				if lk, ok := c.Call.Args[0].(*ssa.Lookup); ok && lk.Index == mu.Key {
					same = true
				}
			})
			if !skips && same {
				okk = true
			}
			// the file loop is unavoidable: every return of Aggregate lies behind the loop header
			reached := true
			for _, ret := range returnsOf(agg) {
				if len(l.header.Instrs) == 0 || !instrDominates(l.header.Instrs[0], ret) {
					reached = false
				}
			}
			r.check(reached, rule, "the per-file merge cannot be bypassed", p.pos(agg.Pos()), fnName(agg), "the loop over cov.Files dominates every return of Aggregate", "Aggregate can return before merging the incoming per-file coverage (e.g. when every test label is already known): coverage of a repeated or re-run test is dropped, and which run survives depends on the order in which results arrive")
		}
		r.check(okk, rule, "every incoming file is merged into the entry of the same name", p.pos(agg.Pos()), fnName(agg), "each iteration over cov.Files stores Merge(coverage.Files[name], lines) back under name", "Aggregate can skip a file of the incoming coverage, or merges it into another file's entry")
	}
}

// sameElement: a and b are loads of the same slice element (same base root, same index value).
func sameElement(a, b ssa.Value) bool {
	ua, ok1 := a.(*ssa.UnOp)
	ub, ok2 := b.(*ssa.UnOp)
	if !ok1 || !ok2 {
		return false
	}
	ia, ok1 := ua.X.(*ssa.IndexAddr)
	ib, ok2 := ub.X.(*ssa.IndexAddr)
	if !ok1 || !ok2 {
		return false
	}
	return ia.Index == ib.Index && rootOf(ia.X) == rootOf(ib.X)
}

// ---------------------------------------------------------------- C26

func checkC26(p *Prog, r *Report) {
	r.Explanation = "Structural clauses of result summarising; the fidelity of the JUnit-XML and go-test parsers depends on input data and is NOT decided. (1) the pass verdict: TestCases.AllSucceeded returns false exactly on a case that has neither a successful nor a skipped execution and true otherwise (truth table over its two tests by path enumeration), and it examines every case. (2) the outcome of one execution is decided by the three fields Failure / Error / Skip only: Success() returns an execution only when all three are nil, Skip() only when Skip is non-nil, Failures()/Errors() collect exactly the executions whose Failure / Error is non-nil. (3) the per-suite counters are mutually exclusive where they must be: Failures() and Errors() require no success and no skip, and Failures() additionally no error (so an errored case is not also counted as failed), Skips() counts cases with a skipped execution. (4) retries: doFlakeRun runs the test at most Flakiness times, adds every run's cases to the same result (Add merges by class name and name), stops at the first run in which every case succeeded, and every run goes through doTest. (5) results files: every file found is parsed; an empty datum is an error; parse errors propagate."
	r.NotCovered = []string{"JUnit XML / go test output parsing (data dependent)", "names with XML metacharacters", "the rendering of the summary"}
	all := p.Fn("core", "TestCases.AllSucceeded")
	succ := p.Fn("core", "TestCase.Success")
	skip := p.Fn("core", "TestCase.Skip")
	fails := p.Fn("core", "TestCase.Failures")
	errs := p.Fn("core", "TestCase.Errors")
	flake := p.Fn("test", "doFlakeRun")
	doTest := p.Fn("test", "doTest")
	if all == nil || succ == nil || skip == nil || fails == nil || errs == nil || flake == nil || doTest == nil {
		r.unresolved("E5.pass-verdict", "core.TestCases.AllSucceeded / TestCase.Success / Skip / Failures / Errors / test.doFlakeRun / doTest")
		return
	}
	rule := "E5.pass-verdict"
	{
		paths, ok := enumeratePaths(all, 2000)
		bad := 0
		nFalse := 0
		if ok {
			for _, pa := range paths {
				if pa.Ret == nil {
					continue
				}
				v, isC := constBool(pa.Resolve(unspill(pa.Ret.Results[0])))
				noSucc := pa.HasFact(true, func(v ssa.Value) bool { x, eq, ok := isNilCmp(v); return ok && eq && isCallResult(x, succ) }) || pa.HasFact(false, func(v ssa.Value) bool { x, eq, ok := isNilCmp(v); return ok && !eq && isCallResult(x, succ) })
				noSkip := pa.HasFact(true, func(v ssa.Value) bool { x, eq, ok := isNilCmp(v); return ok && eq && isCallResult(x, skip) }) || pa.HasFact(false, func(v ssa.Value) bool { x, eq, ok := isNilCmp(v); return ok && !eq && isCallResult(x, skip) })
				if !isC {
					bad++
					continue
				}
				if !v {
					nFalse++
					if !(noSucc && noSkip) {
						bad++
					}
				} else if noSucc && noSkip {
					// a true return on a path that saw a case without success and skip — only acceptable if that
					// fact belongs to an earlier iteration that returned... it cannot: such a case returns false
					bad++
				}
			}
		}
		r.check(ok && bad == 0 && nFalse > 0, rule, "AllSucceeded is false exactly for a case with neither a success nor a skip", p.pos(all.Pos()), fnName(all), itoa(len(paths))+" paths; false only under Success()==nil && Skip()==nil, never true on such a path", "AllSucceeded's verdict does not follow 'every case passed or was skipped': a target can be reported as passing with a failed case, or as failing with only passes and skips")
		every := false
		for _, l := range sliceRangeLoops(all) {
			if !l.iterationSkips(func(i ssa.Instruction) bool { return callsFn(i, succ) }) {
				every = true
			}
		}
		r.check(every, rule, "every test case is examined", p.pos(all.Pos()), fnName(all), "each iteration calls Success()", "AllSucceeded can skip a test case")
	}
	rule = "E5.execution-outcome-table"
	{
		field := func(v ssa.Value) string {
			k := fieldKeyOfLoad(v)
			if strings.HasPrefix(k, "core.TestExecution.") {
				return strings.TrimPrefix(k, "core.TestExecution.")
			}
			if f, ok := v.(*ssa.Field); ok {
				return strings.TrimPrefix(fieldKey(f), "core.TestExecution.")
			}
			return ""
		}
		nilFacts := func(facts []Fact) (isNil, nonNil map[string]bool) {
			isNil, nonNil = map[string]bool{}, map[string]bool{}
			for _, f := range facts {
				if x, eq, ok := isNilCmp(f.V); ok {
					if fld := field(x); fld != "" {
						if eq == f.Val {
							isNil[fld] = true
						} else {
							nonNil[fld] = true
						}
					}
				}
			}
			return
		}
		// Success: non-nil result requires all three nil
		okS := false
		for _, rc := range returnCases(succ, 0) {
			if isNilConst(rc.Vals[0]) {
				continue
			}
			in, _ := nilFacts(rc.Facts)
			okS = in["Failure"] && in["Error"] && in["Skip"]
			if !okS {
				break
			}
		}
		r.check(okS, rule, "Success(): an execution with no Failure, no Error and no Skip", p.pos(succ.Pos()), fnName(succ), "non-nil only under all three fields nil", "Success() can return an execution that has a Failure, an Error or a Skip: failed or skipped cases count as passed")
		okK := false
		for _, rc := range returnCases(skip, 0) {
			if isNilConst(rc.Vals[0]) {
				continue
			}
			_, nn := nilFacts(rc.Facts)
			okK = nn["Skip"]
			if !okK {
				break
			}
		}
		r.check(okK, rule, "Skip(): an execution whose Skip is set", p.pos(skip.Pos()), fnName(skip), "non-nil only under Skip != nil", "Skip() can return an execution that was not skipped")
		for _, spec := range []struct {
			fn  *ssa.Function
			fld string
		}{{fails, "Failure"}, {errs, "Error"}} {
			okk, n := true, 0
			eachInstr(spec.fn, false, func(_ *ssa.Function, i ssa.Instruction) {
				c, ok := i.(*ssa.Call)
				if !ok {
					return
				}
				if b, ok := c.Call.Value.(*ssa.Builtin); !ok || b.Name() != "append" {
					return
				}
				n++
				_, nn := nilFacts(factsAt(c))
				if !nn[spec.fld] {
					okk = false
				}
			})
			r.check(okk && n > 0, rule, spec.fn.Name()+"(): exactly the executions whose "+spec.fld+" is set", p.pos(spec.fn.Pos()), fnName(spec.fn), "append only under "+spec.fld+" != nil", spec.fn.Name()+"() collects executions without looking at their "+spec.fld+" field")
		}
	}
	rule = "E5.counter-exclusivity"
	{
		// in each TestSuite counter: which per-case predicates guard the increment
		guards := func(fn *ssa.Function) (map[string]bool, bool) {
			g := map[string]bool{}
			found := false
			eachInstr(fn, false, func(_ *ssa.Function, i ssa.Instruction) {
				bo, ok := i.(*ssa.BinOp)
				if !ok || bo.Op != token.ADD {
					return
				}
				if one, ok := constInt(bo.Y); !ok || one != 1 {
					return
				}
				if _, isPhi := bo.X.(*ssa.Phi); !isPhi {
					return
				}
				found = true
				for _, f := range factsAt(bo) {
					if x, eq, ok := isNilCmp(f.V); ok {
						name := ""
						if isCallResult(x, succ) {
							name = "success"
						} else if isCallResult(x, skip) {
							name = "skip"
						}
						if name != "" {
							if eq == f.Val {
								g["no-"+name] = true
							} else {
								g["has-"+name] = true
							}
						}
					}
					if b2, ok := f.V.(*ssa.BinOp); ok {
						if lc, ok := b2.X.(*ssa.Call); ok {
							if bi, ok := lc.Call.Value.(*ssa.Builtin); ok && bi.Name() == "len" {
								which := ""
								if isCallResult(lc.Call.Args[0], errs) {
									which = "errors"
								} else if isCallResult(lc.Call.Args[0], fails) {
									which = "failures"
								}
								if z, ok := constInt(b2.Y); ok && z == 0 && which != "" {
									switch {
									case b2.Op == token.EQL && f.Val, b2.Op == token.GTR && !f.Val, b2.Op == token.NEQ && !f.Val:
										g["no-"+which] = true
									default:
										g["has-"+which] = true
									}
								}
							}
						}
					}
				}
			})
			return g, found
		}
		fS := p.Fn("core", "TestSuite.Failures")
		eS := p.Fn("core", "TestSuite.Errors")
		kS := p.Fn("core", "TestSuite.Skips")
		if fS == nil || eS == nil || kS == nil {
			r.unresolved(rule, "core.TestSuite.Failures / Errors / Skips")
		} else {
			gf, ok1 := guards(fS)
			ge, ok2 := guards(eS)
			gk, ok3 := guards(kS)
			r.check(ok1 && gf["no-success"] && gf["no-skip"] && gf["no-errors"] && gf["has-failures"], rule, "Failures(): no success, no skip, no error, some failure", p.pos(fS.Pos()), fnName(fS), "increment guarded by "+strings.Join(sortedKeys(gf), ","), "TestSuite.Failures() counts a case without requiring no-success/no-skip/no-error/some-failure (guards: "+strings.Join(sortedKeys(gf), ",")+"): flaky passes or errored cases are also counted as failures")
			r.check(ok2 && ge["no-success"] && ge["no-skip"] && ge["has-errors"], rule, "Errors(): no success, no skip, some error", p.pos(eS.Pos()), fnName(eS), "increment guarded by "+strings.Join(sortedKeys(ge), ","), "TestSuite.Errors() counts a case without requiring no-success/no-skip/some-error (guards: "+strings.Join(sortedKeys(ge), ",")+")")
			r.check(ok3 && gk["has-skip"], rule, "Skips(): a skipped execution", p.pos(kS.Pos()), fnName(kS), "increment guarded by Skip() != nil", "TestSuite.Skips() does not count exactly the cases with a skipped execution")
		}
	}
	rule = "E5.flake-retries"
	{
		var loopHdr *ssa.BasicBlock
		bounded := false
		for hdr := range loopBlocks(flake) {
			if iff, ok := lastIf(hdr); ok {
				if bo, ok := iff.Cond.(*ssa.BinOp); ok && (bo.Op == token.LEQ || bo.Op == token.LSS) && tagsOf(bo.Y, SliceOpts{})["core.TestFields.Flakiness"] {
					bounded = true
					loopHdr = hdr
				}
			}
		}
		r.check(bounded, rule, "at most Flakiness runs", p.pos(flake.Pos()), fnName(flake), "the retry loop is bounded by target.Test.Flakiness", "the retry loop of doFlakeRun is not bounded by the target's flakiness allowance")
		// every iteration runs the test and adds its cases; leaves early only when all succeeded
		if loopHdr != nil {
			blocks := map[*ssa.BasicBlock]bool{}
			for _, b := range loopBlocks(flake)[loopHdr] {
				blocks[b] = true
			}
			l := rloop{header: loopHdr, body: loopHdr.Succs[0], blocks: blocks}
			addFn := p.Fn("core", "TestSuite.Add")
			skipsRun := l.iterationSkips(func(i ssa.Instruction) bool { return callsFn(i, doTest) })
			skipsAdd := l.iterationSkips(func(i ssa.Instruction) bool { return addFn != nil && callsFn(i, addFn) })
			r.check(!skipsRun && !skipsAdd, rule, "every retry runs the test and adds its cases to the same result", p.pos(flake.Pos()), fnName(flake), "each iteration passes doTest and results.Add", "a retry can complete without running the test or without adding its cases: executions are lost from the reported outcome")
			// early exit only under AllSucceeded
			okBreak := true
			for b := range blocks {
				if b == loopHdr {
					continue
				}
				for _, s := range b.Succs {
					if blocks[s] {
						continue
					}
					under := false
					for _, f := range edgeFacts(b, s) {
						if c, ok := f.V.(*ssa.Call); ok && callsFn(c, all) && f.Val {
							under = true
						}
					}
					for _, f := range condFacts(b) {
						if c, ok := f.V.(*ssa.Call); ok && callsFn(c, all) && f.Val {
							under = true
						}
					}
					if !under {
						okBreak = false
					}
				}
			}
			r.check(okBreak, rule, "retries stop early only after a fully successful run", p.pos(flake.Pos()), fnName(flake), "the only exit from inside the loop is under AllSucceeded()", "doFlakeRun can stop retrying although the last run had a failing case (or for another reason)")
		}
		// Add merges by ClassName and Name
		fm := p.Fn("core", "findMatchingTestCase")
		if fm != nil {
			both := map[string]bool{}
			for _, rc := range returnCases(fm, 0) {
				if v, ok := constInt(rc.Vals[0]); ok && v == -1 {
					continue
				}
				for _, f := range rc.Facts {
					if bo, ok := f.V.(*ssa.BinOp); ok && bo.Op == token.EQL && f.Val {
						for t := range tagsOf(bo.X, SliceOpts{}) {
							if strings.HasPrefix(t, "core.TestCase.") {
								both[strings.TrimPrefix(t, "core.TestCase.")] = true
							}
						}
					}
				}
			}
			r.check(both["Name"] && both["ClassName"], rule, "executions are merged into the case with the same class name and name", p.pos(fm.Pos()), fnName(fm), "a match requires equality of both Name and ClassName", "test cases are merged on fewer than (class name, name): different tests' executions are folded into one case")
		} else if add := p.Fn("core", "TestSuite.Add"); add == nil {
			r.unresolved(rule, "core.TestSuite.Add / findMatchingTestCase")
		} else {
			// no matching helper: the identity of a case is whatever selects the element whose Executions are appended to
			inst := "executions are merged into the case with the same class name and name"
			decided := false
			eachInstr(add, false, func(_ *ssa.Function, i ssa.Instruction) {
				st, ok := i.(*ssa.Store)
				if !ok || fieldKey(st.Addr) != "core.TestCase.Executions" || decided {
					return
				}
				// (a) equality facts on both fields at the append
				both := map[string]bool{}
				for _, f := range factsAt(st) {
					if bo, ok := f.V.(*ssa.BinOp); ok && bo.Op == token.EQL && f.Val {
						for t := range tagsOf(bo.X, SliceOpts{}) {
							if strings.HasPrefix(t, "core.TestCase.") {
								both[strings.TrimPrefix(t, "core.TestCase.")] = true
							}
						}
					}
				}
				if both["Name"] && both["ClassName"] {
					decided = true
					r.ok(rule, inst, p.pos(st.Pos()), fnName(add), "the append is under equality of both Name and ClassName")
					return
				}
				// (b) the element index comes from a map: the key must keep the two fields apart
				var idx ssa.Value = st.Addr
				if fa, ok := st.Addr.(*ssa.FieldAddr); ok {
					if ia, ok := fa.X.(*ssa.IndexAddr); ok {
						idx = ia.Index
					}
				}
				for x := range backSlice(idx, SliceOpts{}) {
					lk, ok := x.(*ssa.Lookup)
					if !ok {
						continue
					}
					mt, ok := lk.X.Type().Underlying().(*types.Map)
					if !ok {
						continue
					}
					decided = true
					if stt, ok := mt.Key().Underlying().(*types.Struct); ok && stt.NumFields() >= 2 {
						r.ok(rule, inst, p.pos(st.Pos()), fnName(add), "cases are indexed by a struct key of "+itoa(stt.NumFields())+" fields")
					} else {
						r.bad(rule, inst, p.pos(st.Pos()), fnName(add), "test cases are matched through a map keyed by "+typeString(mt.Key())+": class name and name are folded into one value, so (class `a.b`, name `c`) and (class `a`, name `b.c`) are the same case; a failing test merged into a passing one is reported as a flaky pass")
					}
					return
				}
			})
			if !decided {
				r.unresolved(rule, "what selects the test case that TestSuite.Add appends executions to")
			}
		}
	}
	// every repeated child element of a <testcase> becomes executions whatever the other children are
	rule = "E10.every-retry-element-is-read"
	if ar, tt := p.Fn("test", "appendResult"), p.Type("test", "jUnitXMLTest"); ar == nil || tt == nil {
		r.unresolved(rule, "test.appendResult / test.jUnitXMLTest")
	} else if stt, ok := tt.Underlying().(*types.Struct); ok {
		nF := 0
		for k := 0; k < stt.NumFields(); k++ {
			f := stt.Field(k)
			if _, isSl := f.Type().Underlying().(*types.Slice); !isSl {
				continue
			}
			nF++
			key := "test.jUnitXMLTest." + f.Name()
			always := false
			for _, l := range sliceRangeLoops(ar) {
				if !tagsOf(l.over, SliceOpts{})[key] || len(l.header.Instrs) == 0 {
					continue
				}
				// the loop, or the `len(field) > 0` test that guards nothing but the loop, lies on every path to a return
				cands := []*ssa.BasicBlock{l.header}
				for b := l.header.Idom(); b != nil; b = b.Idom() {
					if iff, ok := lastIf(b); ok {
						if bo, ok := iff.Cond.(*ssa.BinOp); ok && tagsOf(bo.X, SliceOpts{})[key] {
							if z, isC := constInt(bo.Y); isC && z == 0 {
								cands = append(cands, b)
							}
						}
					}
				}
				for _, b := range cands {
					dom := true
					for _, ret := range returnsOf(ar) {
						if !b.Dominates(ret.Block()) {
							dom = false
						}
					}
					if dom {
						always = true
					}
				}
			}
			r.check(always, rule, "appendResult reads every <"+f.Name()+"> element", p.pos(ar.Pos()), fnName(ar), "the loop over test."+f.Name()+" (or its own emptiness test) is on every path through appendResult", "the "+f.Name()+" elements of a test case are read only for some outcomes of the case (e.g. rerunError only next to <error>): a case whose retries mix kinds loses executions, so the number of attempts and the failed/errored verdict no longer match the results file")
		}
		if nF < 4 {
			r.unresolved(rule, "repeated child elements of jUnitXMLTest (found "+itoa(nF)+")")
		}
	}
	// the XML parser reports success only at the end of the document: more than one report can follow in a results file
	if px := p.Fn("test", "parseJUnitXMLTestResults"); px == nil {
		r.unresolved("E5.xml-read-to-the-end", "test.parseJUnitXMLTestResults")
	} else {
		n, early := 0, false
		for _, rc := range returnCases(px, 1) {
			if !isNilConst(rc.Vals[1]) {
				continue
			}
			n++
			atEOF := false
			for _, f := range rc.Facts {
				if bo, ok := f.V.(*ssa.BinOp); ok && bo.Op == token.EQL && f.Val {
					for _, op := range []ssa.Value{bo.X, bo.Y} {
						for x := range backSlice(op, SliceOpts{StopAtCall: func(*ssa.Call) bool { return true }}) {
							if g, ok := x.(*ssa.Global); ok && g.Name() == "EOF" {
								atEOF = true
							}
						}
					}
				}
			}
			if !atEOF {
				early = true
			}
		}
		r.check(n > 0 && !early, "E5.xml-read-to-the-end", "parseJUnitXMLTestResults returns success only at io.EOF", p.pos(px.Pos()), fnName(px), itoa(n)+" nil-error return(s), each under err == io.EOF", "the JUnit parser returns successfully before the end of the input (e.g. after the first </testsuites>): what follows in the results file - a second report appended by a wrapper that runs two binaries - is dropped, and if the failures were there the target is reported as passing")
	}
	// the cases Please invents for a target (success of a no_test_output target, synthetic failures) name the test the same
	// way, so that attempts of a flaky test collate: either all of them carry a class name or none does
	if pto := p.Fn("test", "parseTestOutput"); pto == nil {
		r.unresolved("E9.synthetic-cases-agree-on-identity", "test.parseTestOutput")
	} else {
		with, without := 0, 0
		for _, g := range withAnon(pto) {
			seen := map[ssa.Value]bool{}
			eachInstr(g, false, func(_ *ssa.Function, i ssa.Instruction) {
				st, ok := i.(*ssa.Store)
				if !ok || fieldKey(st.Addr) != "core.TestCase.Name" {
					return
				}
				base := receiverOf(st.Addr)
				if base == nil || seen[base] {
					return
				}
				seen[base] = true
				hasClass := false
				if refs := base.Referrers(); refs != nil {
					for _, u := range *refs {
						if fa, ok := u.(*ssa.FieldAddr); ok && fieldKey(fa) == "core.TestCase.ClassName" {
							if frefs := fa.Referrers(); frefs != nil {
								for _, w := range *frefs {
									if _, ok := w.(*ssa.Store); ok {
										hasClass = true
									}
								}
							}
						}
					}
				}
				if hasClass {
					with++
				} else {
					without++
				}
			})
		}
		r.check(with+without > 0 && (with == 0 || without == 0), "E9.synthetic-cases-agree-on-identity", "the test cases built in parseTestOutput agree on whether they carry a class name", p.pos(pto.Pos()), fnName(pto), itoa(with)+" with, "+itoa(without)+" without a class name", "some of the cases parseTestOutput builds for a target set ClassName and others do not: TestSuite.Add collates attempts by (class name, name), so a failed attempt and a later passing attempt of a flaky no_test_output test stay two cases and the target is reported failing although it passed within its flakiness allowance")
	}
	rule = "E12.results-files"
	{
		pd := p.Fn("test", "parseTestResultDatum")
		rd := p.Fn("test", "readTestResultsDir")
		if pd == nil || rd == nil {
			r.unresolved(rule, "test.parseTestResultDatum / readTestResultsDir")
		} else {
			emptyErr := false
			for _, rc := range returnCases(pd, 1) {
				for _, f := range rc.Facts {
					if bo, ok := f.V.(*ssa.BinOp); ok && bo.Op == token.EQL && f.Val {
						if z, ok := constInt(bo.Y); ok && z == 0 && !isNilConst(rc.Vals[1]) {
							emptyErr = true
						}
					}
				}
			}
			r.check(emptyErr, rule, "an empty results datum is an error", p.pos(pd.Pos()), fnName(pd), "len(data)==0 returns a non-nil error", "an empty results file is accepted as an (empty, passing) suite")
			// parse errors of the two format branches are returned
			prop := 0
			eachInstr(pd, false, func(_ *ssa.Function, i ssa.Instruction) {
				c, ok := i.(*ssa.Call)
				if !ok || c.Call.StaticCallee() == nil || !strings.HasPrefix(c.Call.StaticCallee().Name(), "parse") {
					return
				}
				for _, e := range resultsOf(c, 1) {
					if refs := e.Referrers(); refs != nil {
						for _, u := range *refs {
							if _, ok := u.(*ssa.Return); ok {
								prop++
							}
						}
					}
				}
				if refs := c.Referrers(); refs != nil {
					for _, u := range *refs {
						if _, ok := u.(*ssa.Return); ok {
							prop++
						}
					}
				}
			})
			r.check(prop >= 2, rule, "parser errors are returned", p.pos(pd.Pos()), fnName(pd), "both format branches return the parser's error", "a parse error in a results file is dropped")
		}
	}
}

func isCallResult(v ssa.Value, fn *ssa.Function) bool {
	c, ok := v.(*ssa.Call)
	return ok && callsFn(c, fn)
}
