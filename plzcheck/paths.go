package main

import (
	"golang.org/x/tools/go/ssa"
)

// Path is one acyclic-ish walk through a function's CFG from entry to a
// return (each block at most twice, so a loop body is seen zero, one and two
// times). Branch conditions taken along the way are recorded as facts, and
// phis are resolved exactly for this path.
type Path struct {
	Blocks []*ssa.BasicBlock
	Facts  []Fact
	Ret    *ssa.Return // nil if the path ends in panic / no return
	// Spliced: for a call of a private helper (satellite) of the function, the instructions of one path through the
	// helper; Instrs() yields them right after the call, so that a rule that counts or orders events along a path
	// gives the same answer whether a piece of the function is written inline or extracted.
	Spliced map[ssa.Instruction][]ssa.Instruction
}

// Resolve follows phis using the predecessor actually taken on this path.
func (pa *Path) Resolve(v ssa.Value) ssa.Value {
	for depth := 0; depth < 8; depth++ {
		phi, ok := v.(*ssa.Phi)
		if !ok {
			return v
		}
		// find last occurrence of phi's block in the path and its predecessor
		found := false
		for k := len(pa.Blocks) - 1; k > 0; k-- {
			if pa.Blocks[k] == phi.Block() {
				pred := pa.Blocks[k-1]
				for e, pb := range phi.Block().Preds {
					if pb == pred {
						v = phi.Edges[e]
						found = true
						break
					}
				}
				break
			}
		}
		if !found {
			return v
		}
	}
	return v
}

// HasFact: a fact with given truth whose (resolved) value satisfies pred.
func (pa *Path) HasFact(val bool, pred func(ssa.Value) bool) bool {
	for _, f := range pa.Facts {
		if f.Val == val && pred(f.V) {
			return true
		}
	}
	return false
}

// Calls lists call instructions executed on the path, in order.
func (pa *Path) Instrs() []ssa.Instruction {
	var out []ssa.Instruction
	for _, b := range pa.Blocks {
		if pa.Spliced == nil {
			out = append(out, b.Instrs...)
			continue
		}
		for _, i := range b.Instrs {
			out = append(out, i)
			out = append(out, pa.Spliced[i]...)
		}
	}
	return out
}

// enumeratePaths lists entry->return paths; ok=false if more than limit exist
// (the caller must then fall back to dominance reasoning or fail).
func enumeratePaths(fn *ssa.Function, limit int) (paths []*Path, ok bool) {
	paths, ok = enumeratePaths0(fn, limit)
	if !ok || enumDepth >= 2 || len(satellitesOf(topFunc(fn))) == 0 {
		return paths, ok
	}
	enumDepth++
	defer func() { enumDepth-- }()
	top := topFunc(fn)
	sub := map[*ssa.Function][]*Path{}
	var out []*Path
	for _, pa := range paths {
		cur := []*Path{pa}
		for _, b := range pa.Blocks {
			for _, i := range b.Instrs {
				c, isCall := i.(*ssa.Call)
				if !isCall {
					continue
				}
				g := c.Call.StaticCallee()
				if g == nil || g.Blocks == nil || g == fn || !isSatelliteOf(g, top) {
					continue
				}
				hp, seen := sub[g]
				if !seen {
					var hok bool
					hp, hok = enumeratePaths(g, 200)
					if !hok {
						hp = nil
					}
					sub[g] = hp
				}
				if len(hp) == 0 {
					continue
				}
				var next []*Path
				for _, base := range cur {
					for _, h := range hp {
						if !helperPathAgrees(base, c, h) {
							continue
						}
						np := &Path{Blocks: base.Blocks, Ret: base.Ret, Facts: append(append([]Fact{}, base.Facts...), h.Facts...), Spliced: map[ssa.Instruction][]ssa.Instruction{}}
						for k, v := range base.Spliced {
							np.Spliced[k] = v
						}
						np.Spliced[i] = h.Instrs()
						next = append(next, np)
					}
				}
				if len(next) > 0 {
					cur = next
				}
				if len(out)+len(cur) > limit {
					return nil, false
				}
			}
		}
		out = append(out, cur...)
	}
	return out, true
}

var enumDepth = 0

// helperPathAgrees: the result the helper path h returns does not contradict what the outer path assumes about the
// call's result (a constant bool against a branch on it, a nil / surely non-nil error against a nil test).
func helperPathAgrees(outer *Path, c *ssa.Call, h *Path) bool {
	if h.Ret == nil {
		return false
	}
	for _, f := range outer.Facts {
		v, want, kind := f.V, f.Val, byte('b')
		if x, eq, ok := isNilCmp(f.V); ok {
			v, want, kind = resolveLoad(x), eq == f.Val, 'n'
		}
		cc, idx := callResult(v)
		if cc != c || idx >= len(h.Ret.Results) {
			continue
		}
		res := h.Resolve(unspill(h.Ret.Results[idx]))
		if kind == 'b' {
			if b, isC := constBool(res); isC && b != want {
				return false
			}
		} else {
			if isNilConst(res) && !want {
				return false
			}
			if isSurelyNonNil(res, h.Facts) && want {
				return false
			}
		}
	}
	return true
}

func enumeratePaths0(fn *ssa.Function, limit int) (paths []*Path, ok bool) {
	if len(fn.Blocks) == 0 {
		return nil, true
	}
	ok = true
	visits := map[*ssa.BasicBlock]int{}
	var cur []*ssa.BasicBlock
	var facts []Fact
	var walk func(b *ssa.BasicBlock)
	walk = func(b *ssa.BasicBlock) {
		if !ok {
			return
		}
		if visits[b] >= 2 {
			return
		}
		visits[b]++
		cur = append(cur, b)
		defer func() {
			visits[b]--
			cur = cur[:len(cur)-1]
		}()
		if len(b.Instrs) == 0 {
			return
		}
		last := b.Instrs[len(b.Instrs)-1]
		switch t := last.(type) {
		case *ssa.Return:
			if len(paths) >= limit {
				ok = false
				return
			}
			paths = append(paths, &Path{Blocks: append([]*ssa.BasicBlock{}, cur...), Facts: append([]Fact{}, facts...), Ret: t})
		case *ssa.Panic:
			// not a normal return
		case *ssa.If:
			if len(b.Succs) == 2 {
				for k := 0; k < 2; k++ {
					// constant conditions prune infeasible branches
					if cb, isC := constBool(t.Cond); isC && cb != (k == 0) {
						continue
					}
					f := normFact(t.Cond, k == 0)
					// prune paths contradicting an earlier fact on the same value
					contra := false
					for _, g := range facts {
						if g.V == f.V && g.Val != f.Val {
							// only for values that cannot change between evaluations (same SSA value, same iteration)
							if _, isPhi := f.V.(*ssa.Phi); !isPhi && visits[valueBlock(f.V)] <= 1 {
								contra = true
							}
						}
					}
					if contra {
						continue
					}
					facts = append(facts, f)
					walk(b.Succs[k])
					facts = facts[:len(facts)-1]
				}
			}
		default:
			for _, s := range b.Succs {
				walk(s)
			}
		}
	}
	walk(fn.Blocks[0])
	return paths, ok
}

func valueBlock(v ssa.Value) *ssa.BasicBlock {
	if i, ok := v.(ssa.Instruction); ok {
		return i.Block()
	}
	return nil
}
