package main

import (
	"golang.org/x/tools/go/ssa"
)

// Path is one acyclic-ish walk through a function's CFG from entry to a
// return (each block at most twice, so a loop body is seen zero, one and two
// times). Branch conditions taken along the way are recorded as facts, and
// phis are resolved exactly for this path.
type Path struct {
	Blocks []*ssa.BasicBlock
	Facts  []Fact
	Ret    *ssa.Return // nil if the path ends in panic / no return
}

// Resolve follows phis using the predecessor actually taken on this path.
func (pa *Path) Resolve(v ssa.Value) ssa.Value {
	for depth := 0; depth < 8; depth++ {
		phi, ok := v.(*ssa.Phi)
		if !ok {
			return v
		}
		// find last occurrence of phi's block in the path and its predecessor
		found := false
		for k := len(pa.Blocks) - 1; k > 0; k-- {
			if pa.Blocks[k] == phi.Block() {
				pred := pa.Blocks[k-1]
				for e, pb := range phi.Block().Preds {
					if pb == pred {
						v = phi.Edges[e]
						found = true
						break
					}
				}
				break
			}
		}
		if !found {
			return v
		}
	}
	return v
}

// HasFact: a fact with given truth whose (resolved) value satisfies pred.
func (pa *Path) HasFact(val bool, pred func(ssa.Value) bool) bool {
	for _, f := range pa.Facts {
		if f.Val == val && pred(f.V) {
			return true
		}
	}
	return false
}

// Calls lists call instructions executed on the path, in order.
func (pa *Path) Instrs() []ssa.Instruction {
	var out []ssa.Instruction
	for _, b := range pa.Blocks {
		out = append(out, b.Instrs...)
	}
	return out
}

// enumeratePaths lists entry->return paths; ok=false if more than limit exist
// (the caller must then fall back to dominance reasoning or fail).
func enumeratePaths(fn *ssa.Function, limit int) (paths []*Path, ok bool) {
	if len(fn.Blocks) == 0 {
		return nil, true
	}
	ok = true
	visits := map[*ssa.BasicBlock]int{}
	var cur []*ssa.BasicBlock
	var facts []Fact
	var walk func(b *ssa.BasicBlock)
	walk = func(b *ssa.BasicBlock) {
		if !ok {
			return
		}
		if visits[b] >= 2 {
			return
		}
		visits[b]++
		cur = append(cur, b)
		defer func() {
			visits[b]--
			cur = cur[:len(cur)-1]
		}()
		if len(b.Instrs) == 0 {
			return
		}
		last := b.Instrs[len(b.Instrs)-1]
		switch t := last.(type) {
		case *ssa.Return:
			if len(paths) >= limit {
				ok = false
				return
			}
			paths = append(paths, &Path{Blocks: append([]*ssa.BasicBlock{}, cur...), Facts: append([]Fact{}, facts...), Ret: t})
		case *ssa.Panic:
			// not a normal return
		case *ssa.If:
			if len(b.Succs) == 2 {
				for k := 0; k < 2; k++ {
					// constant conditions prune infeasible branches
					if cb, isC := constBool(t.Cond); isC && cb != (k == 0) {
						continue
					}
					f := normFact(t.Cond, k == 0)
					// prune paths contradicting an earlier fact on the same value
					contra := false
					for _, g := range facts {
						if g.V == f.V && g.Val != f.Val {
							// only for values that cannot change between evaluations (same SSA value, same iteration)
							if _, isPhi := f.V.(*ssa.Phi); !isPhi && visits[valueBlock(f.V)] <= 1 {
								contra = true
							}
						}
					}
					if contra {
						continue
					}
					facts = append(facts, f)
					walk(b.Succs[k])
					facts = facts[:len(facts)-1]
				}
			}
		default:
			for _, s := range b.Succs {
				walk(s)
			}
		}
	}
	walk(fn.Blocks[0])
	return paths, ok
}

func valueBlock(v ssa.Value) *ssa.BasicBlock {
	if i, ok := v.(ssa.Instruction); ok {
		return i.Block()
	}
	return nil
}
