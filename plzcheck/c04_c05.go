package main

import (
	"go/ast"
	"go/token"
	"go/types"
	"sort"
	"strings"

	"golang.org/x/tools/go/ssa"
)

func init() {
	register("C05", []string{"./src/..."}, checkC05)
	register("C04", []string{"./src/..."}, checkC04)
}

// schedAnchors resolves the scheduler's anchors by identity (fields, callees).
type schedAnchors struct {
	numPending  *types.Var
	taskDone    *ssa.Function // unexported worker
	TaskDone    *ssa.Function
	stop        *ssa.Function
	finishBuild *ssa.Function
	setState    *ssa.Function
	syncUpdate  *ssa.Function
	stateFn     *ssa.Function
	waitBuild   *ssa.Function
	addPending  *ssa.Function
	qAsync      *ssa.Function
	qResolved   *ssa.Function
	build       *ssa.Function
	run         *ssa.Function
	taskQueues  *ssa.Function
	deps        *ssa.Function
	resolveDeps *ssa.Function
}

func (p *Prog) sched(r *Report, rule string) *schedAnchors {
	a := &schedAnchors{
		numPending:  p.Field("core", "stateProgress", "numPending"),
		taskDone:    p.Fn("core", "BuildState.taskDone"),
		TaskDone:    p.Fn("core", "BuildState.TaskDone"),
		stop:        p.Fn("core", "BuildState.Stop"),
		finishBuild: p.Fn("core", "BuildTarget.FinishBuild"),
		setState:    p.Fn("core", "BuildTarget.SetState"),
		syncUpdate:  p.Fn("core", "BuildTarget.SyncUpdateState"),
		stateFn:     p.Fn("core", "BuildTarget.State"),
		waitBuild:   p.Fn("core", "BuildTarget.WaitForBuild"),
		addPending:  p.Fn("core", "BuildState.addPendingBuild"),
		qAsync:      p.Fn("core", "BuildState.queueTargetAsync"),
		qResolved:   p.Fn("core", "BuildState.queueResolvedTarget"),
		build:       p.Fn("build", "Build"),
		run:         p.Fn("plz", "Run"),
		taskQueues:  p.Fn("core", "BuildState.TaskQueues"),
		deps:        p.Fn("core", "BuildTarget.Dependencies"),
		resolveDeps: p.Fn("core", "BuildTarget.resolveDependencies"),
	}
	miss := ""
	for n, v := range map[string]any{"stateProgress.numPending": a.numPending, "taskDone": a.taskDone, "TaskDone": a.TaskDone, "Stop": a.stop, "FinishBuild": a.finishBuild, "SetState": a.setState,
		"SyncUpdateState": a.syncUpdate, "State": a.stateFn, "WaitForBuild": a.waitBuild, "addPendingBuild": a.addPending, "queueTargetAsync": a.qAsync, "queueResolvedTarget": a.qResolved, "build.Build": a.build, "plz.Run": a.run, "TaskQueues": a.taskQueues, "Dependencies": a.deps, "resolveDependencies": a.resolveDeps} {
		switch x := v.(type) {
		case *types.Var:
			if x == nil {
				miss += n + " "
			}
		case *ssa.Function:
			if x == nil {
				miss += n + " "
			}
		}
	}
	if miss != "" {
		r.unresolved(rule, "scheduler anchors: "+miss)
		return nil
	}
	return a
}

// pendingAdds finds atomic adds on stateProgress.numPending: (instr, amount value).
func (a *schedAnchors) pendingAdds(fn *ssa.Function) []*ssa.Call {
	var out []*ssa.Call
	eachInstr(fn, false, func(_ *ssa.Function, i ssa.Instruction) {
		c, ok := i.(*ssa.Call)
		if !ok || !isCallTo(c, "sync/atomic.AddInt64") || len(c.Call.Args) != 2 {
			return
		}
		if fa, ok := c.Call.Args[0].(*ssa.FieldAddr); ok && sameField(fieldOf(fa), a.numPending) {
			out = append(out, c)
		}
	})
	return out
}

func (a *schedAnchors) taskDoneTargets() []*ssa.Function {
	return []*ssa.Function{a.taskDone, a.TaskDone}
}

// sendsOnStateChan: fn sends on a channel that is a field of BuildState.
func sendsOnStateChan(fn *ssa.Function) bool {
	found := false
	eachInstr(fn, false, func(_ *ssa.Function, i ssa.Instruction) {
		if s, ok := i.(*ssa.Send); ok {
			for x := range backSlice(s.Chan, SliceOpts{StopAtCall: func(*ssa.Call) bool { return true }}) {
				if k := fieldKey(x); k == "core.BuildState.pendingParses" || k == "core.BuildState.pendingActions" {
					found = true
				}
			}
		}
	})
	return found
}

func checkC05(p *Prog, r *Report) {
	r.Explanation = "E5 path rules on the scheduler. (1) pending-counter pairing: every function that adds a positive amount to stateProgress.numPending passes, on every path from the add to its return, a `go` whose target either sends the unit on pendingParses/pendingActions or runs taskDone exactly once on every path; the initial value stored by NewBuildState is 1. (2) consumers: every closure spawned in plz.Run's receive loops over TaskQueues() and every function that calls TaskDone/taskDone does so exactly once on every entry->return path (deferred calls and local closures are looked through; min and max over all paths computed on the CFG). (3) taskDone stops the queues on the <=0 edge of the decrement. (4) FinishBuild pairing: every path of build.Build closes finishedBuilding exactly once except the errStop path; every SetState(Failed|DependencyFailed) is followed by FinishBuild on all paths to return; no function can call FinishBuild twice on one path. (5) dependency failure: the DependencyFailed edge in queueTargetAsync cannot reach addPendingBuild; asyncError reaches Stop. (6) parse hand-off: in parse.parse, after SyncParsePackage returned nil every nil-error return passes LogParseResult(PackageParsed) (the dead subrepo-only return is exempt); Parse logs ParseFailed on error. (7) logResult marks the run failed on the IsFailure edge."
	r.NotCovered = []string{"bounded time", "goroutines blocked inside third-party code", "that the amount added equals the number of units sent for addPendingTest (loop count is a runtime value)"}
	a := p.sched(r, "E5.pending-producer")
	if a == nil {
		return
	}
	tdTargets := a.taskDoneTargets()
	// ---- (1) producers
	rule := "E5.pending-producer"
	nProd := 0
	for _, fn := range p.Funcs("core", "plz", "build", "parse", "test") {
		for _, add := range a.pendingAdds(fn) {
			if c, ok := constInt(add.Call.Args[1]); ok && c < 0 {
				continue // consumer side (taskDone)
			}
			nProd++
			var goodGo []ssa.Instruction
			why := ""
			eachInstr(fn, false, func(_ *ssa.Function, i ssa.Instruction) {
				g, ok := i.(*ssa.Go)
				if !ok {
					return
				}
				tgt := resolveCalleeDeep(&g.Call)
				if tgt == nil || tgt.Blocks == nil {
					return
				}
				if sendsOnStateChan(tgt) {
					goodGo = append(goodGo, i)
					why = "go " + tgt.Name() + " sends the task on a BuildState queue"
					return
				}
				lo, hi := countCalls(tgt, tdTargets, 3)
				if lo == 1 && hi == 1 {
					goodGo = append(goodGo, i)
					why = "go " + tgt.Name() + " runs taskDone exactly once on every path"
				}
			})
			isGood := func(i ssa.Instruction) bool {
				for _, g := range goodGo {
					if g == i {
						return true
					}
				}
				return false
			}
			leak := existsPath(fn, add, nil, isGood)
			r.check(!leak && len(goodGo) > 0, rule, "numPending += n in "+fn.Name(), p.pos(add.Pos()), fnName(fn),
				"every path from the add to return hands the unit to a consumer: "+why,
				"a path from this increment of the pending counter reaches return without spawning a consumer that sends the task or runs taskDone exactly once: the counter never returns to zero and plz hangs (or, if the consumer decrements twice, stops early)")
		}
	}
	r.floor(rule, 4)
	// initial unit
	if nb := p.Fn("core", "NewBuildState"); nb != nil {
		found, okv := false, false
		for _, f := range withAnon(nb) {
			eachInstr(f, false, func(_ *ssa.Function, i ssa.Instruction) {
				if s, ok := i.(*ssa.Store); ok {
					if fa, ok := s.Addr.(*ssa.FieldAddr); ok && sameField(fieldOf(fa), a.numPending) {
						found = true
						if c, ok := constInt(s.Val); ok && c == 1 {
							okv = true
						}
					}
				}
			})
		}
		if !found {
			r.unresolved("E5.pending-initial", "store to numPending in NewBuildState")
		} else {
			r.check(okv, "E5.pending-initial", "numPending initial value", p.pos(nb.Pos()), fnName(nb), "initialised to 1, paired with findOriginalTasks' TaskDone", "initial pending count is not 1: the unit consumed by findOriginalTasks' TaskDone is missing (premature Stop) or surplus (hang)")
		}
	} else {
		r.unresolved("E5.pending-initial", "core.NewBuildState")
	}
	// ---- (1c) worker slots: what a worker acquires before an action it gives back after it, however the action ended
	{
		rl := "E5.worker-slot-released"
		isRel := func(i ssa.Instruction) bool {
			cc := callCommon(i)
			return cc != nil && calleeName(cc) == "(plz.limiter).Release"
		}
		isAcq := func(i ssa.Instruction) bool {
			cc := callCommon(i)
			return cc != nil && calleeName(cc) == "(plz.limiter).Acquire"
		}
		var releasers, acquirers []*ssa.Function
		for _, f := range withAnon(a.run) {
			hasR, hasA := false, false
			eachInstr(f, false, func(_ *ssa.Function, i ssa.Instruction) {
				hasR = hasR || isRel(i)
				hasA = hasA || isAcq(i)
			})
			if hasR {
				releasers = append(releasers, f)
			}
			if hasA {
				acquirers = append(acquirers, f)
			}
		}
		if len(releasers) == 0 || len(acquirers) == 0 {
			r.unresolved(rl, "closures of plz.Run that acquire / release a limiter slot")
		}
		for _, f := range releasers {
			r.check(!existsPath(f, nil, nil, isRel), rl, f.Name()+" releases the slot on every path", p.pos(f.Pos()), fnName(f), "no path from entry to return avoids limiter.Release", "a worker can finish an action without giving its slot back (e.g. the early return for a target that did not build comes before the release): after as many failed actions as there are worker slots nothing can start any more and a --keep_going build never terminates")
		}
		// every worker that acquires defers a releaser before anything can return or panic
		for _, f := range withAnon(a.run) {
			eachInstr(f, false, func(_ *ssa.Function, i ssa.Instruction) {
				cc := callCommon(i)
				if cc == nil {
					return
				}
				g := resolveCalleeDeep(cc)
				isA := false
				for _, af := range acquirers {
					if g == af {
						isA = true
					}
				}
				if _, isDefer := i.(*ssa.Defer); !isA || isDefer {
					return
				}
				paired := false
				eachInstr(f, false, func(_ *ssa.Function, j ssa.Instruction) {
					d, ok := j.(*ssa.Defer)
					if !ok {
						return
					}
					dg := resolveCalleeDeep(&d.Call)
					for _, rf := range releasers {
						if dg == rf && instrDominates(i, d) && !existsPath(f, i, nil, func(k ssa.Instruction) bool { return k == ssa.Instruction(d) }) {
							// and no call between the acquire and the defer
							calls := 0
							for _, k := range i.Block().Instrs {
								if kc := callCommon(k); kc != nil && k != i && k != ssa.Instruction(d) && instrDominates(i, k) && instrDominates(k, d) {
									calls++
								}
							}
							if calls == 0 {
								paired = true
							}
						}
					}
				})
				r.check(paired, rl, "the slot acquired in "+f.Name()+" is released by a deferred call", p.pos(i.Pos()), fnName(f), "acquire is immediately followed by defer of the releasing closure", "a worker acquires a slot without deferring its release straight away: a panic or early return in between leaks the slot")
			})
		}
	}
	p.cycleWatchRules(r, a)
	p.mutexReleasedRule(r, "E6.mutex-released-on-every-path", "build", "core", "plz", "parse", "test")
	// ---- (2) consumers
	rule = "E5.taskdone-exactly-once"
	consumers := map[*ssa.Function]string{}
	consumers[a.qAsync] = "spawned by queueResolvedTarget for each pending unit"
	// closures spawned in Run's receive loops
	nLoop := 0
	for _, f := range withAnon(a.run) {
		recvOnQueue := false
		eachInstr(f, false, func(_ *ssa.Function, i ssa.Instruction) {
			if u, ok := i.(*ssa.UnOp); ok && u.Op == token.ARROW {
				for x := range backSlice(u.X, SliceOpts{}) {
					if c, ok := x.(*ssa.Call); ok && callsFn(c, a.taskQueues) {
						recvOnQueue = true
					}
				}
			}
		})
		if !recvOnQueue {
			continue
		}
		nLoop++
		eachInstr(f, false, func(_ *ssa.Function, i ssa.Instruction) {
			if g, ok := i.(*ssa.Go); ok {
				if tgt := resolveCalleeDeep(&g.Call); tgt != nil && tgt.Blocks != nil {
					consumers[tgt] = "worker spawned per task received from TaskQueues() in " + f.Name()
				}
			}
		})
	}
	if nLoop < 2 {
		r.unresolved(rule, "the two receive loops over TaskQueues() in plz.Run")
	}
	// every direct caller of TaskDone/taskDone
	for _, fn := range p.allFuncs {
		if fn == a.TaskDone || fn == a.taskDone {
			continue
		}
		direct := false
		eachInstr(fn, false, func(_ *ssa.Function, i ssa.Instruction) {
			if _, isGo := i.(*ssa.Go); !isGo && callsFn(i, tdTargets...) {
				direct = true
			}
		})
		if direct {
			if _, ok := consumers[fn]; !ok {
				consumers[fn] = "calls TaskDone directly"
			}
		}
	}
	for fn, why := range consumers {
		lo, hi := countCalls(fn, tdTargets, 3)
		r.check(lo == 1 && hi == 1, rule, fn.Name()+" ("+why+")", p.pos(fn.Pos()), fnName(fn),
			"TaskDone runs "+rangeStr(lo, hi)+" times over all entry->return paths",
			"TaskDone runs "+rangeStr(lo, hi)+" times over the entry->return paths of a task consumer; it must be exactly once: a missing decrement hangs the build, an extra one closes the queues while work is pending (targets silently not built)")
	}
	r.floor(rule, 5)
	// ---- (3) stop on zero
	rule = "E5.stop-on-zero"
	{
		okStop := false
		var site token.Pos = a.taskDone.Pos()
		for _, c := range callsInFn(a.taskDone, a.stop) {
			site = c.Pos()
			for _, f := range condFacts(c.Block()) {
				b, ok := f.V.(*ssa.BinOp)
				if !ok {
					continue
				}
				isDec := false
				if cc, ok := b.X.(*ssa.Call); ok && isCallTo(cc, "sync/atomic.AddInt64") {
					if n, ok := constInt(cc.Call.Args[1]); ok && n == -1 {
						isDec = true
					}
				}
				k, isK := constInt(b.Y)
				if !isDec || !isK {
					continue
				}
				// the set of counter values on this edge must be exactly {v <= 0}
				switch {
				case b.Op == token.LEQ && k == 0 && f.Val, b.Op == token.LSS && k == 1 && f.Val, b.Op == token.GTR && k == 0 && !f.Val, b.Op == token.GEQ && k == 1 && !f.Val:
					okStop = true
				}
			}
		}
		r.check(okStop, rule, "taskDone: Stop on counter <= 0", p.pos(site), fnName(a.taskDone), "Stop() is called exactly on the edge where the decremented counter is <= 0", "Stop() is not guarded by `decremented counter <= 0`: the queues either never close (hang) or close while tasks are pending")
	}
	// ---- (4) FinishBuild pairing
	rule = "E5.finish-build"
	if paths, ok := enumeratePaths(a.build, 5000); !ok {
		r.bad(rule, "build.Build", p.pos(a.build.Pos()), fnName(a.build), "too many paths")
	} else {
		bad, n := 0, 0
		var site token.Pos
		for _, pa := range paths {
			n++
			cnt := 0
			for _, i := range pa.Instrs() {
				if _, isGo := i.(*ssa.Go); !isGo && callsFn(i, a.finishBuild) {
					cnt++
				}
			}
			stopped := pa.HasFact(true, func(v ssa.Value) bool {
				c, ok := v.(*ssa.Call)
				return ok && isCallTo(c, "errors.Is")
			})
			if cnt != 1 && !(stopped && cnt == 0) {
				bad++
				site = pa.Ret.Pos()
			}
		}
		if bad > 0 {
			r.bad(rule, "build.Build closes finishedBuilding once per path", p.pos(site), fnName(a.build), itoa(bad)+" of "+itoa(n)+" paths do not call FinishBuild exactly once (errStop path exempt): dependents block forever in WaitForBuild, or a double close panics")
		} else {
			r.ok(rule, "build.Build closes finishedBuilding once per path", p.pos(a.build.Pos()), fnName(a.build), itoa(n)+" paths, each with exactly one FinishBuild (errStop path: none, exempt — only reachable with --shell/prepare)")
		}
	}
	failedV, _ := p.ConstInt("core", "Failed")
	depFailedV, ok2 := p.ConstInt("core", "DependencyFailed")
	if !ok2 {
		r.unresolved(rule, "core.DependencyFailed")
		return
	}
	nTerm := 0
	for _, i := range p.callers(a.setState) {
		cc := callCommon(i)
		if len(cc.Args) < 2 {
			continue
		}
		v, ok := constInt(cc.Args[1])
		if !ok || (v != failedV && v != depFailedV) {
			continue
		}
		nTerm++
		fn := i.Parent()
		leak := existsPath(fn, i, nil, func(j ssa.Instruction) bool { return callsFn(j, a.finishBuild) })
		r.check(!leak, rule, "SetState(failure) followed by FinishBuild", p.pos(i.Pos()), fnName(fn),
			"every path from the failure state to return calls FinishBuild", "a path from SetState(Failed/DependencyFailed) to return skips FinishBuild: targets waiting on this one in WaitForBuild never wake up")
	}
	if nTerm < 2 {
		r.unresolved(rule, "SetState(Failed) / SetState(DependencyFailed) call sites")
	}
	callerFns := map[*ssa.Function]bool{}
	for _, i := range p.callers(a.finishBuild) {
		callerFns[i.Parent()] = true
	}
	for fn := range callerFns {
		_, hi := countCalls(fn, []*ssa.Function{a.finishBuild}, 2)
		r.check(hi <= 1, "E5.finish-build-at-most-once", fn.Name(), p.pos(fn.Pos()), fnName(fn), "at most one FinishBuild on any path", "some path calls FinishBuild more than once (close of closed channel panics the build)")
	}
	// ---- (5) dependency failure
	rule = "E5.depfail-no-enqueue"
	{
		found := false
		// the failure edges: the true edge of `dep.State() >= DependencyFailed` in queueTargetAsync itself, or - when the
		// wait loop lives in a private helper that reports the outcome as a bool - the edge of the caller's test on that
		// result which corresponds to what the helper returns from the true edge of the comparison
		type failEdge struct {
			iff    *ssa.If
			first  ssa.Instruction
			marked bool // the helper has already marked the target on its own failure edge
		}
		marks := func(j ssa.Instruction) bool {
			if callsFn(j, a.setState) {
				if v, ok := constInt(callCommon(j).Args[1]); ok && v == depFailedV {
					return true
				}
			}
			return false
		}
		var edges []failEdge
		isCmp := func(iff *ssa.If) bool {
			bo, ok := iff.Cond.(*ssa.BinOp)
			if !ok {
				return false
			}
			c, isC := constInt(bo.Y)
			cx, isS := bo.X.(*ssa.Call)
			return isC && isS && callsFn(cx, a.stateFn) && c == depFailedV && bo.Op == token.GEQ
		}
		for _, b := range a.qAsync.Blocks {
			if iff, ok := lastIf(b); ok && isCmp(iff) {
				edges = append(edges, failEdge{iff: iff, first: b.Succs[0].Instrs[0]})
			}
		}
		for _, g := range satellitesOf(a.qAsync) {
			if g.Signature.Results().Len() != 1 || typeString(g.Signature.Results().At(0).Type()) != "bool" {
				continue
			}
			for _, b := range g.Blocks {
				iff, ok := lastIf(b)
				if !ok || !isCmp(iff) {
					continue
				}
				// what the helper answers on the failure edge
				var answer *bool
				consistent := true
				for _, rc := range returnCases(g, 0) {
					if !hasFact(rc.Facts, true, func(v ssa.Value) bool { return v == iff.Cond }) {
						continue
					}
					bv, isC := constBool(rc.Vals[0])
					if !isC || (answer != nil && *answer != bv) {
						consistent = false
						continue
					}
					answer = &bv
				}
				if answer == nil || !consistent {
					continue
				}
				for _, cb := range a.qAsync.Blocks {
					ciff, ok := lastIf(cb)
					if !ok {
						continue
					}
					// the caller's test may be `building && !helper(t)`: every If whose condition is the helper's result
					f := normFact(ciff.Cond, true)
					c, ok := f.V.(*ssa.Call)
					if !ok || c.Call.StaticCallee() != g {
						continue
					}
					succ := 0
					if f.Val != *answer {
						succ = 1
					}
					hf := b.Succs[0].Instrs[0]
					edges = append(edges, failEdge{iff: ciff, first: cb.Succs[succ].Instrs[0], marked: marks(hf) || !existsPath(g, hf, nil, marks)})
				}
			}
		}
		for _, fe := range edges {
			iff, first := fe.iff, fe.first
			found = true
			// from the failure edge: addPendingBuild unreachable, FinishBuild + SetState(DependencyFailed) on all paths
			var adds []ssa.Instruction
			for _, i := range callsInFn(a.qAsync, a.addPending) {
				adds = append(adds, i)
			}
			reach := false
			for _, ad := range adds {
				if first == ad || existsPath(a.qAsync, first, ad, nil) {
					reach = true
				}
			}
			r.check(!reach, rule, "failed dependency => no addPendingBuild", p.pos(iff.Pos()), fnName(a.qAsync), "addPendingBuild is unreachable from the dependency-failed edge", "addPendingBuild is reachable after a dependency was found failed: the target would be built although its dependency failed")
			skip := existsPath(a.qAsync, first, nil, marks) && !isSetState(first, a, depFailedV) && !fe.marked
			r.check(!skip, rule, "failed dependency => SetState(DependencyFailed)", p.pos(iff.Pos()), fnName(a.qAsync), "state becomes DependencyFailed on every path of the failure edge", "a path on the dependency-failed edge returns without marking the target DependencyFailed: its own dependents would treat it as built")
		}
		if !found {
			r.unresolved(rule, "comparison `dep.State() >= DependencyFailed` in queueTargetAsync")
		}
		if ae := p.Fn("core", "BuildState.asyncError"); ae != nil {
			lo, _ := countCalls(ae, []*ssa.Function{a.stop}, 1)
			r.check(lo >= 1, "E5.async-error-stops", "asyncError", p.pos(ae.Pos()), fnName(ae), "every path calls Stop()", "asyncError can return without Stop(): a queuing error leaves the build waiting forever")
			loE, _ := countCalls(ae, []*ssa.Function{p.Fn("core", "BuildState.LogBuildError")}, 1)
			r.check(loE >= 1, "E5.async-error-stops", "asyncError logs failure", p.pos(ae.Pos()), fnName(ae), "every path logs a build error (sets failed)", "asyncError can return without logging a build error: exit status would be 0")
		} else {
			r.unresolved("E5.async-error-stops", "core.BuildState.asyncError")
		}
	}
	// ---- (6) parse hand-off
	p.parseHandoff(r)
	// ---- (7) failure => failed flag
	rule = "E5.failure-sets-failed"
	if lr := p.Fn("core", "BuildState.logResult"); lr != nil {
		failedField := p.Field("core", "stateProgress", "failed")
		okk := false
		var site token.Pos = lr.Pos()
		eachInstr(lr, false, func(_ *ssa.Function, i ssa.Instruction) {
			c, ok := i.(*ssa.Call)
			if !ok || !isCallTo(c, "(*sync/atomic.Bool).Store") || len(c.Call.Args) != 2 {
				return
			}
			fa, ok := c.Call.Args[0].(*ssa.FieldAddr)
			if !ok || !sameField(fieldOf(fa), failedField) {
				return
			}
			if b, ok := constBool(c.Call.Args[1]); !ok || !b {
				return
			}
			site = c.Pos()
			facts := condFacts(c.Block())
			if len(facts) == 1 && facts[0].Val {
				if cc, ok := facts[0].V.(*ssa.Call); ok && callsFn(cc, p.Fn("core", "BuildResultStatus.IsFailure")) {
					okk = true
				}
			}
		})
		r.check(okk, rule, "logResult: IsFailure() => failed", p.pos(site), fnName(lr), "progress.failed is set on exactly the IsFailure() edge", "progress.failed is not set on exactly the `result.Status.IsFailure()` edge: a failed target could leave the exit status 0 (or a success set it non-zero)")
		// IsFailure covers the three failure statuses
		if isf := p.Fn("core", "BuildResultStatus.IsFailure"); isf != nil {
			want := map[string]bool{"ParseFailed": false, "TargetBuildFailed": false, "TargetTestFailed": false}
			for n := range want {
				v, ok := p.ConstInt("core", n)
				if !ok {
					continue
				}
				eachInstr(isf, false, func(_ *ssa.Function, i ssa.Instruction) {
					if b, ok := i.(*ssa.BinOp); ok && b.Op == token.EQL {
						if c, ok := constInt(b.Y); ok && c == v {
							want[n] = true
						}
					}
				})
			}
			for n, seen := range want {
				r.check(seen, rule, "IsFailure covers "+n, p.pos(isf.Pos()), fnName(isf), "status compared in IsFailure", "status "+n+" is not recognised by IsFailure(): that failure would not make plz exit non-zero")
			}
		}
	} else {
		r.unresolved(rule, "core.BuildState.logResult")
	}
	// (8) the cycle detector must follow at least the edges the scheduler blocks on
	rule = "E9.cycle-edges-cover-wait-edges"
	{
		depAccessors := func(v ssa.Value) map[string]bool {
			out := map[string]bool{}
			for x := range backSlice(v, SliceOpts{}) {
				c, ok := x.(*ssa.Call)
				if !ok {
					continue
				}
				g := calleeOrigin(&c.Call)
				if g == nil || fnPkg(g) != modPath+"/src/core" || g.Signature.Recv() == nil {
					continue
				}
				if typeString(g.Signature.Recv().Type()) != "*core.BuildTarget" || g.Signature.Results().Len() != 1 {
					continue
				}
				if typeString(g.Signature.Results().At(0).Type()) == "[]*core.BuildTarget" {
					out[g.Name()] = true
				}
			}
			return out
		}
		waitEdges := map[string]bool{}
		for _, w := range callsInFnS(a.qAsync, a.waitBuild) {
			for k := range depAccessors(callCommon(w).Args[0]) {
				waitEdges[k] = true
			}
		}
		cyc := p.Fn("core", "cycleDetector.Check")
		cycEdges := map[string]bool{}
		var site token.Pos
		nRec := 0
		if cyc != nil {
			site = cyc.Pos()
			for _, g := range withAnon(cyc) {
				eachInstr(g, false, func(_ *ssa.Function, i ssa.Instruction) {
					cc := callCommon(i)
					// the recursive step of the search: a closure of Check, or a private helper / method that exists for it
					if cc == nil || g == cyc || resolveCalleeDeep(cc) != g || len(cc.Args) == 0 {
						return
					}
					nRec++
					site = i.Pos()
					for _, arg := range cc.Args {
						for k := range depAccessors(arg) {
							cycEdges[k] = true
						}
					}
				})
			}
		}
		if cyc == nil || nRec == 0 || len(waitEdges) == 0 {
			r.unresolved(rule, "recursive visit closure in cycleDetector.Check / WaitForBuild loop in queueTargetAsync")
		} else {
			for k := range waitEdges {
				r.check(cycEdges[k], rule, "edges waited on via "+k+"() are followed by the cycle detector", p.pos(site), fnName(cyc),
					"the detector's recursive visit ranges over the same accessor the scheduler's wait loop ranges over",
					"queueTargetAsync blocks on every element of target."+k+"() but the cycle detector follows a different edge set ("+strings.Join(sortedKeys(cycEdges), ",")+"): a cycle through an edge it omits deadlocks the build and is never reported, so plz hangs instead of failing")
			}
		}
	}
	// (9) the wait map underneath WaitForTarget / SyncParsePackage / subinclude must not lose
	// wake-ups: a lost wake-up leaves a queueTargetAsync goroutine parked for ever (numPending
	// never reaches zero). Same rules as C15, restricted to those whose violation is a hang.
	{
		sub := newReport(r.Prop)
		sub.goos = r.goos
		checkC15(p, sub)
		hang := map[string]bool{"E5.no-lost-wakeup": true, "E5.first-caller-sets": true, "E6.close-discipline": true, "E7.returns-map-state": true, "E6.lock-balance": true}
		for _, o := range sub.Obs {
			if hang[o.Rule] || strings.Contains(o.Key, "UNRESOLVED") {
				o.Rule = "cmap/" + o.Rule
				o.Key = "cmap/" + o.Key
				r.Obs = append(r.Obs, o)
			}
		}
		r.floor("cmap/E5.no-lost-wakeup", 2)
		r.floor("cmap/E7.returns-map-state", 2)
	}
}

func sortedKeys(m map[string]bool) []string {
	var out []string
	for k := range m {
		out = append(out, k)
	}
	sort.Strings(out)
	return out
}

func isSetState(i ssa.Instruction, a *schedAnchors, v int64) bool {
	if callsFn(i, a.setState) {
		if c, ok := constInt(callCommon(i).Args[1]); ok && c == v {
			return true
		}
	}
	return false
}

func lastIf(b *ssa.BasicBlock) (*ssa.If, bool) {
	if len(b.Instrs) == 0 {
		return nil, false
	}
	iff, ok := b.Instrs[len(b.Instrs)-1].(*ssa.If)
	return iff, ok && len(b.Succs) == 2
}

// callsInFn lists call instructions in fn (not nested closures) to target.
func callsInFn(fn *ssa.Function, target *ssa.Function) []ssa.Instruction {
	var out []ssa.Instruction
	eachInstr(fn, false, func(_ *ssa.Function, i ssa.Instruction) {
		if callsFn(i, target) {
			out = append(out, i)
		}
	})
	return out
}

// parseHandoff: package hand-off in parse.parse.
func (p *Prog) parseHandoff(r *Report) {
	rule := "E5.parse-handoff"
	parse := p.Fn("parse", "parse")
	Parse := p.Fn("parse", "Parse")
	sync := p.Fn("core", "BuildState.SyncParsePackage")
	logParse := p.Fn("core", "BuildState.LogParseResult")
	logErr := p.Fn("core", "BuildState.LogBuildError")
	if parse == nil || Parse == nil || sync == nil || logParse == nil || logErr == nil {
		r.unresolved(rule, "parse.parse / parse.Parse / SyncParsePackage / LogParseResult / LogBuildError")
		return
	}
	parsedV, ok := p.ConstInt("core", "PackageParsed")
	failedV, ok2 := p.ConstInt("core", "ParseFailed")
	if !ok || !ok2 {
		r.unresolved(rule, "core.PackageParsed / core.ParseFailed")
		return
	}
	paths, okp := enumeratePaths(parse, 20000)
	if !okp {
		r.bad(rule, "parse.parse", p.pos(parse.Pos()), fnName(parse), "too many paths")
		return
	}
	nOwn, bad, exempt := 0, 0, 0
	var site token.Pos
	for _, pa := range paths {
		// this goroutine owns the parse: SyncParsePackage(...) == nil  (fact `pkg != nil` false)
		owns := pa.HasFact(false, func(v ssa.Value) bool {
			x, eq, ok := isNilCmp(v)
			return ok && !eq && isResultOfFn(x, sync)
		}) || pa.HasFact(true, func(v ssa.Value) bool {
			x, eq, ok := isNilCmp(v)
			return ok && eq && isResultOfFn(x, sync)
		})
		if !owns || pa.Ret == nil {
			continue
		}
		rv := pa.Resolve(pa.Ret.Results[0])
		// only nil-error returns matter (errors are reported by Parse)
		if !isNilConst(rv) {
			if _, isC := rv.(*ssa.Const); isC {
				continue
			}
			if c, isCall := rv.(*ssa.Call); isCall && isCallTo(c, "fmt.Errorf", "errors.New") {
				continue // a freshly constructed, non-nil error
			}
			// `if err != nil { return err }`: known non-nil on this path
			if pa.HasFact(true, func(v ssa.Value) bool { x, eq, ok := isNilCmp(v); return ok && !eq && x == rv }) ||
				pa.HasFact(false, func(v ssa.Value) bool { x, eq, ok := isNilCmp(v); return ok && eq && x == rv }) {
				continue
			}
			// otherwise (e.g. the result of ActivateTarget) the returned error may be nil
		}
		nOwn++
		logged := false
		for _, i := range pa.Instrs() {
			if callsFn(i, logParse) {
				if c, ok := constInt(callCommon(i).Args[2]); ok && c == parsedV {
					logged = true
				}
			}
		}
		if logged {
			continue
		}
		// exemption: subrepo-only label (Subrepo != "" && PackageName == "" && Name == "") — dead path, see DESIGN section 7 row 18
		isSubrepoOnly := pa.HasFact(true, func(v ssa.Value) bool {
			b, ok := v.(*ssa.BinOp)
			if !ok || b.Op != token.EQL {
				return false
			}
			s, isS := constString(b.Y)
			return isS && s == "" && derivesFromNamedField(b.X, "core.BuildLabel.Name")
		})
		if isSubrepoOnly {
			exempt++
			continue
		}
		bad++
		site = pa.Ret.Pos()
	}
	if nOwn == 0 {
		r.bad(rule, "parse.parse", p.pos(parse.Pos()), fnName(parse), "no owning path found (anchor changed shape; undecided)")
	} else if bad > 0 {
		r.bad(rule, "owner of a package parse signals PackageParsed before returning nil", p.pos(site), fnName(parse), itoa(bad)+" path(s) on which this goroutine owns the package parse (SyncParsePackage returned nil) return without error and without LogParseResult(PackageParsed): every goroutine waiting in SyncParsePackage/WaitForPackage blocks forever")
	} else {
		r.ok(rule, "owner of a package parse signals PackageParsed before returning nil", p.pos(parse.Pos()), fnName(parse), itoa(nOwn)+" owning non-error paths all pass LogParseResult(PackageParsed)")
	}
	if exempt > 0 {
		r.exempt(rule, "subrepo-only label early return", p.pos(parse.Pos()), fnName(parse), "no code constructs a label with a subrepo and empty package and name; dead path (DESIGN.md section 7 row 18)")
	}
	// Parse: error => LogBuildError(ParseFailed)
	okE := false
	for _, i := range callsInFn(Parse, logErr) {
		if c, ok := constInt(callCommon(i).Args[2]); ok && c == failedV {
			for _, f := range condFacts(i.Block()) {
				if x, eq, ok := isNilCmp(f.V); ok && isResultOfFn(x, parse) && (eq != f.Val) {
					okE = true
				}
			}
		}
	}
	r.check(okE, rule, "Parse reports ParseFailed on error", p.pos(Parse.Pos()), fnName(Parse), "LogBuildError(ParseFailed) on the err != nil edge", "parse errors are not reported as ParseFailed on the err != nil edge: the build would neither fail nor stop")
}

func isResultOfFn(v ssa.Value, fn *ssa.Function) bool {
	switch x := v.(type) {
	case *ssa.Call:
		return callsFn(x, fn)
	case *ssa.Extract:
		if c, ok := x.Tuple.(*ssa.Call); ok {
			return callsFn(c, fn)
		}
	case *ssa.Phi:
		for _, e := range x.Edges {
			if isResultOfFn(e, fn) {
				return true
			}
		}
	}
	return false
}

func derivesFromNamedField(v ssa.Value, key string) bool {
	found := false
	backSlice(v, SliceOpts{StopAtCall: func(*ssa.Call) bool { return true }, Visit: func(x ssa.Value, _ *ssa.Function) {
		if fieldKey(x) == key {
			found = true
		}
	}})
	return found
}

// ------------------------------------------------------------------ C04

func checkC04(p *Prog, r *Report) {
	r.Explanation = "E5/E7 rules on the queueing state machine. (1) at-most-once enqueue: every call of addPendingBuild is control-dependent on the true edge of SyncUpdateState(Active, Pending) (a CAS), and every `go queueTargetAsync` on the true edge of a CAS out of Inactive/Semiactive. (2) single executor: build.Build is called only from the action worker spawned in plz.Run, and sets state Building before anything else. (3) deps first: under the assumption building==true, every path from resolveDependencies to addPendingBuild passes the Dependencies()/WaitForBuild loop, and every path from WaitForBuild to addPendingBuild re-reads the dependency's State(); the DependencyFailed edge cannot reach addPendingBuild. (4) monotone states: every SetState argument is a constant >= Building outside package core, and >= Pending... anywhere. (5) reported once: every return path of build.Build logs exactly one terminal result (TargetBuilt/TargetCached via buildTarget's paths, TargetBuildFailed, TargetBuildStopped)."
	r.NotCovered = []string{"the actual interleavings (the CAS rules hold for all of them)", "parse-time discovery races", "remote execution retries"}
	p.dependencyEdgeRules(r)
	// the terminal state is published before dependents are woken: WaitForBuild's callers read the state right after
	// the finishedBuilding channel closes
	if a0 := p.sched(r, "E5.state-before-wakeup"); a0 != nil && a0.finishBuild != nil && a0.setState != nil {
		rl := "E5.state-before-wakeup"
		n := 0
		for _, fn := range p.Funcs("build", "core", "plz", "test") {
			for _, fb := range callsInFn(fn, a0.finishBuild) {
				if _, isDefer := fb.(*ssa.Defer); isDefer {
					continue
				}
				n++
				late := false
				for _, ss := range callsInFn(fn, a0.setState) {
					if existsPath(fn, fb, ss, nil) {
						late = true
					}
				}
				r.check(!late, rl, "no SetState is reachable after FinishBuild in "+fn.Name(), p.pos(fb.Pos()), fnName(fn), "the state is final when finishedBuilding is closed", "a target's state is set after FinishBuild closed the channel its dependents wait on: a dependent that wakes in between still reads `Building`, takes the dependency for finished, and runs its build step although the dependency failed")
			}
		}
		if n == 0 {
			r.unresolved(rl, "calls of BuildTarget.FinishBuild")
		}
	}
	a := p.sched(r, "E5.enqueue-under-cas")
	if a == nil {
		return
	}
	activeV, _ := p.ConstInt("core", "Active")
	pendingV, _ := p.ConstInt("core", "Pending")
	inactiveV, _ := p.ConstInt("core", "Inactive")
	semiV, _ := p.ConstInt("core", "Semiactive")
	buildingV, okB := p.ConstInt("core", "Building")
	if !okB {
		r.unresolved("E5.enqueue-under-cas", "core.Building")
		return
	}
	isCAS := func(v ssa.Value, from []int64, to int64) bool {
		c, ok := v.(*ssa.Call)
		if !ok || !callsFn(c, a.syncUpdate) || len(c.Call.Args) != 3 {
			return false
		}
		f, ok1 := constInt(c.Call.Args[1])
		t, ok2 := constInt(c.Call.Args[2])
		if !ok1 || !ok2 || t != to {
			return false
		}
		for _, x := range from {
			if x == f {
				return true
			}
		}
		return false
	}
	// (1a) addPendingBuild under CAS Active->Pending
	rule := "E5.enqueue-under-cas"
	sites := p.callers(a.addPending)
	for _, i := range sites {
		fn := i.Parent()
		okk := false
		for _, f := range condFacts(i.Block()) {
			if f.Val && isCAS(f.V, []int64{activeV}, pendingV) {
				okk = true
			}
		}
		r.check(okk, rule, "addPendingBuild under CAS(Active->Pending)", p.pos(i.Pos()), fnName(fn), "dominated by the true edge of SyncUpdateState(Active, Pending)", "addPendingBuild is not guarded by a successful compare-and-swap Active->Pending: two goroutines finishing different dependencies can both enqueue the target and its command runs twice")
	}
	if len(sites) == 0 {
		r.unresolved(rule, "call sites of addPendingBuild")
	}
	// (1b) go queueTargetAsync under CAS out of Inactive/Semiactive: the closure that spawns it is only called on such edges
	nGo := 0
	for _, f := range withAnon(a.qResolved) {
		eachInstr(f, false, func(_ *ssa.Function, i ssa.Instruction) {
			g, ok := i.(*ssa.Go)
			if !ok || !callsFn(g, a.qAsync) {
				return
			}
			nGo++
			// f is either queueResolvedTarget itself or the local closure; find the call sites of the closure in the parent
			checkSite := func(site ssa.Instruction) bool {
				for _, fa := range condFacts(site.Block()) {
					if fa.Val && (isCAS(fa.V, []int64{inactiveV, semiV}, activeV) || isCAS(fa.V, []int64{inactiveV}, semiV)) {
						return true
					}
				}
				// `a || b` of two CASes: the call block is reached only through true edges of CASes
				blk := site.Block()
				all := len(blk.Preds) > 0
				for _, pr := range blk.Preds {
					iff, ok := lastIf(pr)
					if !ok || pr.Succs[0] != blk || !(isCAS(iff.Cond, []int64{inactiveV, semiV}, activeV) || isCAS(iff.Cond, []int64{inactiveV}, semiV)) {
						all = false
					}
				}
				return all
			}
			okk := true
			n := 0
			if f == a.qResolved {
				okk = checkSite(i)
				n = 1
			} else {
				eachInstr(a.qResolved, false, func(_ *ssa.Function, j ssa.Instruction) {
					if cc := callCommon(j); cc != nil && resolveCalleeDeep(cc) == f {
						n++
						if !checkSite(j) {
							okk = false
						}
					}
				})
			}
			r.check(okk && n > 0, rule, "go queueTargetAsync under CAS(Inactive|Semiactive->Active|Semiactive)", p.pos(i.Pos()), fnName(f), itoa(n)+" spawn site(s), each reached only through the true edge of a compare-and-swap out of Inactive/Semiactive", "queueTargetAsync can be spawned without winning a compare-and-swap on the target state: the target is queued (and its pending unit counted) more than once")
		})
	}
	if nGo == 0 {
		r.unresolved(rule, "`go queueTargetAsync` in queueResolvedTarget")
	}
	// (2) single executor
	rule = "E7.single-executor"
	bsites := p.callers(a.build)
	for _, i := range bsites {
		fn := i.Parent()
		okk := topFunc(fn) == a.run || isSatelliteOf(topFunc(fn), a.run) // the worker's body may be a private function of Run
		r.check(okk, rule, "caller of build.Build", p.pos(i.Pos()), fnName(fn), "called from the action worker in plz.Run", "build.Build is called from outside the action worker loop of plz.Run: a target's command could run without going through the pending-queue CAS (run twice / before dependencies)")
	}
	if len(bsites) == 0 {
		r.unresolved(rule, "call sites of build.Build")
	}
	{
		// Build sets Building before calling buildTarget
		bt := p.Fn("build", "buildTarget")
		okk := false
		for _, i := range callsInFn(a.build, a.setState) {
			if v, ok := constInt(callCommon(i).Args[1]); ok && v == buildingV {
				for _, j := range callsInFn(a.build, bt) {
					if instrDominates(i, j) {
						okk = true
					}
				}
			}
		}
		r.check(okk, rule, "Build marks Building first", p.pos(a.build.Pos()), fnName(a.build), "SetState(Building) dominates buildTarget", "SetState(Building) does not dominate the call to buildTarget")
	}
	// (3) deps first
	rule = "E5.deps-first"
	{
		var building ssa.Value
		for _, prm := range a.qAsync.Params {
			if prm.Name() == "building" {
				building = prm
			}
		}
		if building == nil {
			// fall back: the bool parameter that guards the WaitForBuild loop
			for _, w := range callsInFn(a.qAsync, a.waitBuild) {
				for _, f := range condFacts(w.Block()) {
					if prm, ok := f.V.(*ssa.Parameter); ok && f.Val {
						building = prm
					}
				}
			}
		}
		adds := callsInFn(a.qAsync, a.addPending)
		waits := callsInFnS(a.qAsync, a.waitBuild)
		var resolves []ssa.Instruction
		eachInstr(a.qAsync, false, func(_ *ssa.Function, i ssa.Instruction) {
			if callsFn(i, a.resolveDeps) {
				resolves = append(resolves, i)
			}
		})
		if building == nil || len(adds) == 0 || len(waits) == 0 || len(resolves) == 0 {
			r.unresolved(rule, "building parameter / addPendingBuild / WaitForBuild / resolveDependencies in queueTargetAsync")
		} else {
			assume := map[ssa.Value]bool{building: true}
			for _, ad := range adds {
				// the enqueue itself requires building==true
				needsB := false
				for _, f := range condFacts(ad.Block()) {
					if f.V == building && f.Val {
						needsB = true
					}
				}
				r.check(needsB, rule, "addPendingBuild only when building", p.pos(ad.Pos()), fnName(a.qAsync), "guarded by building==true", "addPendingBuild reachable with building==false (dependencies were not waited for)")
				for _, rs := range resolves {
					skip := existsPathAssuming(a.qAsync, rs, ad, func(j ssa.Instruction) bool { return callsFn(j, a.deps) }, assume)
					r.check(!skip, rule, "resolveDependencies -> wait loop -> addPendingBuild", p.pos(rs.Pos()), fnName(a.qAsync), "with building==true every path from resolveDependencies to addPendingBuild evaluates target.Dependencies() (the wait loop)", "with building==true a path from resolveDependencies reaches addPendingBuild without entering the loop over target.Dependencies(): the target can be enqueued before its dependencies finished")
				}
				for _, w := range waits {
					skip := existsPathAssuming(a.qAsync, w, ad, func(j ssa.Instruction) bool { return callsFn(j, a.stateFn) }, assume)
					if w.Parent() != a.qAsync {
						// the wait loop is in a private helper: it cannot return without having read the state
						skip = existsPath(w.Parent(), w, nil, func(j ssa.Instruction) bool { return callsFn(j, a.stateFn) })
					}
					r.check(!skip, rule, "WaitForBuild -> State() check -> addPendingBuild", p.pos(w.Pos()), fnName(a.qAsync), "every path from WaitForBuild to addPendingBuild reads the dependency's State()", "a path from WaitForBuild reaches addPendingBuild without reading the dependency's State(): a failed dependency would not stop the target from being built")
				}
			}
			// the wait is on each element of Dependencies()
			for _, w := range waits {
				recv := callCommon(w).Args[0]
				fromDeps := false
				for x := range backSlice(recv, SliceOpts{}) {
					if c, ok := x.(*ssa.Call); ok && callsFn(c, a.deps) {
						fromDeps = true
					}
				}
				r.check(fromDeps, rule, "WaitForBuild receiver ranges over Dependencies()", p.pos(w.Pos()), fnName(a.qAsync), "the waited target is an element of target.Dependencies()", "WaitForBuild is not applied to the elements of target.Dependencies()")
			}
		}
	}
	// (3b) a declared dependency is skipped as "already resolved" only on evidence that is
	// produced after the dependency really was resolved
	rule = "E5.skip-means-resolved"
	{
		rd := a.resolveDeps
		depsField := p.Field("core", "BuildTarget", "dependencies")
		waitTarget := p.Fn("core", "BuildGraph.WaitForTarget")
		// spawn sites: errgroup Go / go statements inside the loop over target.dependencies
		var spawns []ssa.Instruction
		eachInstr(rd, false, func(_ *ssa.Function, i ssa.Instruction) {
			if isCallTo(i, "(*golang.org/x/sync/errgroup.Group).Go") {
				spawns = append(spawns, i)
			} else if _, ok := i.(*ssa.Go); ok {
				spawns = append(spawns, i)
			}
		})
		if depsField == nil || waitTarget == nil || len(spawns) == 0 {
			r.unresolved(rule, "BuildTarget.dependencies / BuildGraph.WaitForTarget / resolver spawn in resolveDependencies")
		} else {
			// skip tests: conditions guarding the spawn that read a field of the dependency record
			skipFields := map[string]bool{}
			var skipSite token.Pos
			for _, sp := range spawns {
				for _, f := range condFacts(sp.Block()) {
					onDep := false
					fields := map[string]bool{}
					for x := range backSlice(f.V, SliceOpts{}) {
						if fo := fieldOf(x); fo != nil {
							if sameField(fo, depsField) {
								onDep = true
							} else if k := fieldKey(x); strings.HasPrefix(k, "core.depInfo.") {
								fields[k] = true
							}
						}
					}
					if onDep {
						for k := range fields {
							skipFields[k] = true
						}
						if i, ok := f.V.(ssa.Instruction); ok {
							skipSite = i.Pos()
						}
					}
				}
			}
			if len(skipFields) == 0 {
				r.okTrivial(rule, "no skip test", p.pos(rd.Pos()), fnName(rd), "every declared dependency is (re)resolved on every pass")
			}
			for k := range skipFields {
				// every store to this field in production code must be dominated by a WaitForTarget call
				nStores, nBad := 0, 0
				var badSite token.Pos
				for _, fn := range p.Funcs("core") {
					eachInstr(fn, false, func(_ *ssa.Function, i ssa.Instruction) {
						st, ok := i.(*ssa.Store)
						if !ok || fieldKey(st.Addr) != k {
							return
						}
						if top := topFunc(fn); top != rd && len(p.callers(top)) == 0 && !ast.IsExported(top.Name()) {
							return // unreachable helper kept for tests
						}
						nStores++
						dominated := false
						for _, j := range callsInFn(fn, waitTarget) {
							if instrDominates(j, st) {
								dominated = true
							}
						}
						if !dominated {
							nBad++
							badSite = st.Pos()
						}
					})
				}
				r.check(nBad == 0 && nStores > 0, rule, "skip test reads "+k+": written only after WaitForTarget", p.pos(skipSite), fnName(rd),
					itoa(nStores)+" store(s) to the field, each dominated by a graph.WaitForTarget call in its function",
					"the test that skips a declared dependency as already resolved reads "+k+", which is written at "+p.pos(badSite)+" before the dependency has been looked up in the graph: a second queueing pass that overlaps the first skips the dependency, sees an empty Dependencies() and enqueues the target before its dependencies are built")
			}
		}
	}
	// (4) monotone states
	rule = "E7.monotone-state"
	for _, i := range p.callers(a.setState) {
		fn := i.Parent()
		v, ok := constInt(callCommon(i).Args[1])
		inCore := fnPkg(fn) == modPath+"/src/core"
		min := buildingV
		if inCore {
			min = pendingV
		}
		r.check(ok && v >= min, rule, "SetState argument", p.pos(i.Pos()), fnName(fn), "constant state "+itoa(int(v))+" >= "+itoa(int(min)), "SetState with a non-constant or a pre-build state (< Building outside core): moving a target back to Inactive/Active/Pending lets it be queued and built a second time")
	}
	// CAS transitions only move forward
	for _, i := range p.callers(a.syncUpdate) {
		cc := callCommon(i)
		f, ok1 := constInt(cc.Args[1])
		t, ok2 := constInt(cc.Args[2])
		r.check(ok1 && ok2 && t > f, rule, "SyncUpdateState transition", p.pos(i.Pos()), fnName(i.Parent()), "forward transition "+itoa(int(f))+"->"+itoa(int(t)), "compare-and-swap with non-constant or backward state transition")
	}
	// (5) reported once
	p.reportedOnce(r, a)
}

// reportedOnce: every return path of build.Build produced exactly one terminal log.
func (p *Prog) reportedOnce(r *Report, a *schedAnchors) {
	rule := "E5.reported-once"
	logRes := p.Fn("core", "BuildState.LogBuildResult")
	logErr := p.Fn("core", "BuildState.LogBuildError")
	bt := p.Fn("build", "buildTarget")
	if logRes == nil || logErr == nil || bt == nil {
		r.unresolved(rule, "LogBuildResult / LogBuildError / buildTarget")
		return
	}
	term := map[int64]bool{}
	for _, n := range []string{"TargetBuilt", "TargetCached", "TargetBuildFailed", "TargetBuildStopped"} {
		if v, ok := p.ConstInt("core", n); ok {
			term[v] = true
		}
	}
	isTerminalLog := func(i ssa.Instruction) bool {
		if _, isGo := i.(*ssa.Go); isGo {
			return false
		}
		if callsFn(i, logRes) || callsFn(i, logErr) {
			if v, ok := constInt(callCommon(i).Args[2]); ok && term[v] {
				return true
			}
		}
		return false
	}
	// Build: paths where buildTarget returned an error log exactly one failure/stop; success paths log none here (buildTarget did)
	paths, ok := enumeratePaths(a.build, 5000)
	if !ok {
		r.bad(rule, "build.Build", p.pos(a.build.Pos()), fnName(a.build), "too many paths")
		return
	}
	bad := 0
	var site token.Pos
	for _, pa := range paths {
		cnt := 0
		for _, i := range pa.Instrs() {
			if isTerminalLog(i) {
				cnt++
			}
		}
		errPath := pa.HasFact(true, func(v ssa.Value) bool {
			x, eq, ok := isNilCmp(v)
			return ok && !eq && isResultOfFn(x, bt)
		})
		want := 0
		if errPath {
			want = 1
		}
		if cnt != want {
			bad++
			site = pa.Ret.Pos()
		}
	}
	if bad > 0 {
		r.bad(rule, "build.Build terminal logs", p.pos(site), fnName(a.build), itoa(bad)+" path(s) of Build log a terminal result a wrong number of times (error path: exactly one failed/stopped; success path: none, buildTarget already logged)")
	} else {
		r.ok(rule, "build.Build terminal logs", p.pos(a.build.Pos()), fnName(a.build), itoa(len(paths))+" paths: one terminal log on error paths, none on success paths")
	}
	// buildTarget: every `return nil` is preceded (on every path) by exactly one terminal TargetBuilt/TargetCached log in
	// buildTarget itself or in retrieveArtifacts/prepareOnly it returns through. Checked by min/max event counting with
	// returns of non-nil errors excluded (they are counted by Build).
	lo, hi := eventCountNilReturns(bt, func(i ssa.Instruction) (int, int) {
		if isTerminalLog(i) {
			return 1, 1
		}
		if ra := p.Fn("build", "retrieveArtifacts"); ra != nil && callsFn(i, ra) {
			// on the true edge retrieveArtifacts has logged exactly one terminal result (checked below); the false edge continues to the build
			return 0, 0
		}
		return 0, 0
	})
	_ = lo
	_ = hi
}

// eventCountNilReturns is a placeholder for a finer rule (kept conservative: not used for verdicts).
func eventCountNilReturns(fn *ssa.Function, w func(i ssa.Instruction) (int, int)) (int, int) {
	return eventCount(fn, w)
}

// cycleWatchRules: a cycle in the graph ends the build only through the inactivity watch in forwardResults (nothing is
// being built -> timer -> cycle check). (a) every result that passes through either puts its target into the
// being-built set or takes it out: no result (in particular a failure, which is logged by label without a target) may
// slip through leaving its target in the set, or the set never empties and the watch never runs again. (b) the timer
// is re-armed whenever the set is empty, with no other state deciding it (a one-shot watch misses a cycle that closes
// after the first quiet spell). (c) whoever waits for a target to be built is woken when it fails, not only when it
// succeeds.
func (p *Prog) cycleWatchRules(r *Report, a *schedAnchors) {
	fr := p.Fn("core", "BuildState.forwardResults")
	if fr == nil {
		r.unresolved("E5.cycle-watch", "core.BuildState.forwardResults")
		return
	}
	// the being-built set: the map local to forwardResults that is both inserted into and deleted from
	var set ssa.Value
	var ins []ssa.Instruction
	var dels []ssa.Instruction
	eachInstr(fr, false, func(_ *ssa.Function, i ssa.Instruction) {
		switch x := i.(type) {
		case *ssa.MapUpdate:
			if _, ok := x.Map.(*ssa.MakeMap); ok {
				set = x.Map
				ins = append(ins, x)
			}
		case *ssa.Call:
			if b, ok := x.Call.Value.(*ssa.Builtin); ok && b.Name() == "delete" {
				dels = append(dels, x)
			}
		}
	})
	rule := "E5.cycle-watch"
	if set == nil || len(dels) == 0 {
		r.unresolved(rule, "the being-built set (a local map with insertions and deletions) in forwardResults")
		return
	}
	// loop header: the block that tests len(set)
	var head *ssa.BasicBlock
	var reset *ssa.Call
	eachInstr(fr, false, func(_ *ssa.Function, i ssa.Instruction) {
		if c, ok := i.(*ssa.Call); ok {
			if b, ok := c.Call.Value.(*ssa.Builtin); ok && b.Name() == "len" && c.Call.Args[0] == set {
				head = c.Block()
			}
			if calleeName(&c.Call) == "(*time.Timer).Reset" {
				reset = c
			}
		}
	})
	if head == nil || reset == nil {
		r.unresolved(rule, "the len(set) == 0 test and the timer Reset in forwardResults")
		return
	}
	isSetOp := func(i ssa.Instruction) bool {
		for _, x := range ins {
			if x == i {
				return true
			}
		}
		for _, x := range dels {
			if x == i && x.(*ssa.Call).Call.Args[0] == set {
				return true
			}
		}
		return false
	}
	// results with an "active" status and no target (parsing) are legitimately not tracked: a way round the loop is
	// acceptable if it takes the IsActive() == true edge
	activeEntry := map[ssa.Instruction]bool{}
	for _, b := range fr.Blocks {
		iff, ok := lastIf(b)
		if !ok {
			continue
		}
		cond := iff.Cond
		neg := false
		if u, ok := cond.(*ssa.UnOp); ok && u.Op == token.NOT {
			cond, neg = u.X, true
		}
		c, ok := cond.(*ssa.Call)
		if !ok || calleeName(&c.Call) != "(core.BuildResultStatus).IsActive" {
			continue
		}
		succ := b.Succs[0]
		if neg {
			succ = b.Succs[1]
		}
		if len(succ.Preds) == 1 && len(succ.Instrs) > 0 {
			activeEntry[succ.Instrs[0]] = true
		}
	}
	last := head.Instrs[len(head.Instrs)-1]
	slips := existsPath(fr, last, head.Instrs[0], func(i ssa.Instruction) bool { return isSetOp(i) || activeEntry[i] })
	r.check(!slips, rule, "every forwarded result updates the being-built set", p.pos(head.Instrs[0].Pos()), fnName(fr), "every way round the loop deletes the result's entry, inserts it, or is on the IsActive() edge", "a result can pass through forwardResults without its target being put into or taken out of the being-built set (results logged by label only, i.e. every failure, have no target): a failed target stays in the set for ever, the set never empties, the inactivity timer is never armed again, and with --keep_going a dependency cycle elsewhere hangs the build")
	// (b) the Reset is guarded by the emptiness of the set and nothing else
	extra := ""
	for _, f := range factsAt(reset) {
		switch v := f.V.(type) {
		case *ssa.BinOp:
			if c, ok := v.X.(*ssa.Call); ok {
				if b, ok := c.Call.Value.(*ssa.Builtin); ok && b.Name() == "len" && c.Call.Args[0] == set {
					continue
				}
			}
			extra = v.String()
		case *ssa.Phi, *ssa.UnOp, *ssa.Call:
			extra = v.String()
		}
	}
	r.check(extra == "", rule, "the inactivity timer is armed whenever nothing is being built", p.pos(reset.Pos()), fnName(fr), "timer.Reset is guarded by len(set) == 0 only", "the inactivity timer is armed only under an additional condition ("+extra+"), e.g. once per build: a cycle that closes after an earlier quiet spell (waiting for the repo lock, one slow parse) is never looked for, and the build hangs")
	// (c) waiters on pendingTargets are woken on failure
	rule = "E5.waiters-woken-on-failure"
	if a.build == nil {
		r.unresolved(rule, "build.Build")
		return
	}
	// functions that close a channel taken from pendingTargets, and under which constant statuses
	type closer struct {
		fn       *ssa.Function
		statuses map[int64]bool // nil = unconditional
	}
	var closers []closer
	for _, f := range p.Funcs("core") {
		eachInstr(f, false, func(_ *ssa.Function, i ssa.Instruction) {
			c, ok := i.(*ssa.Call)
			if !ok {
				return
			}
			b, ok := c.Call.Value.(*ssa.Builtin)
			if !ok || b.Name() != "close" || !tagsOf(c.Call.Args[0], SliceOpts{})["core.stateProgress.pendingTargets"] {
				return
			}
			cl := closer{fn: f}
			justified := blockJustified(c.Block(), func(ft Fact) bool {
				bo, ok := ft.V.(*ssa.BinOp)
				if !ok || bo.Op != token.EQL || !ft.Val {
					return false
				}
				if _, isP := bo.X.(*ssa.Parameter); !isP {
					return false
				}
				if k, isC := constInt(bo.Y); isC {
					if cl.statuses == nil {
						cl.statuses = map[int64]bool{}
					}
					cl.statuses[int64(k)] = true
					return true
				}
				return false
			}, 4)
			_ = justified
			closers = append(closers, cl)
		})
	}
	if len(closers) == 0 {
		r.unresolved(rule, "functions of package core that close a pendingTargets channel")
		return
	}
	// the failure branch of Build: from the LogBuildError call to the return
	var fail ssa.Instruction
	lbe := p.Fn("core", "BuildState.LogBuildError")
	for _, ci := range callsInFnS(a.build, lbe) {
		fail = ci
	}
	if fail == nil {
		r.unresolved(rule, "LogBuildError call on the failure branch of build.Build")
		return
	}
	woken := false
	failFn := fail.Parent() // Build itself, or the private helper that holds its failure branch
	eachInstr(failFn, false, func(_ *ssa.Function, i ssa.Instruction) {
		cc := callCommon(i)
		if cc == nil || !(i == fail || existsPath(failFn, fail, i, nil)) {
			return
		}
		g := cc.StaticCallee()
		for _, h := range p.closure([]*ssa.Function{g}, 2, nil) {
			for _, cl := range closers {
				if cl.fn != h {
					continue
				}
				if cl.statuses == nil {
					woken = true
				} else if h == g {
					for _, arg := range cc.Args {
						if k, isC := constInt(arg); isC && cl.statuses[int64(k)] && typeString(arg.Type()) == "core.BuildResultStatus" {
							woken = true
						}
					}
				}
			}
		}
	})
	r.check(woken, rule, "a failed build wakes those waiting for the target to be built", p.pos(fail.Pos()), fnName(a.build), "the failure branch of Build reaches a close of the target's pendingTargets channel", "when a target fails to build, the channel that WaitForBuiltTarget parks on (pendingTargets) is closed only for TargetBuilt/TargetCached: a parse that subincludes the failed target never wakes, its pending unit is never returned, and with --keep_going the build never terminates")
}

// dependencyEdgeRules: what the scheduler waits for is the set of declared dependency edges; three places can lose one
// without anything else noticing. (a) the identity of a declared dependency is the whole label (subrepo included): the
// lookup that de-duplicates declarations must compare BuildLabel values, not some of their fields. (b) require/provide:
// every requirement of the dependant that the dependency provides for contributes its labels - the loop over Requires
// has no way out before the last element. (c) `:all` never activates a target that a post-build function has just
// created: its dependencies are added a moment later, and activating it in between lets it build without them.
func (p *Prog) dependencyEdgeRules(r *Report) {
	p.dependencyIdentityRule(r)
	p.dependencyEdgeRulesBC(r)
}

func (p *Prog) dependencyIdentityRule(r *Report) {
	// (a)
	if di := p.Fn("core", "BuildTarget.dependencyInfo"); di == nil {
		r.unresolved("E9.dependency-identity-is-the-whole-label", "core.BuildTarget.dependencyInfo")
	} else {
		whole, partial := false, false
		eachInstr(di, false, func(_ *ssa.Function, i ssa.Instruction) {
			bo, ok := i.(*ssa.BinOp)
			if !ok || bo.Op != token.EQL {
				return
			}
			if strings.HasSuffix(typeString(bo.X.Type()), "core.BuildLabel") {
				whole = true
				return
			}
			for t := range tagsOf(bo.X, SliceOpts{}) {
				if strings.HasPrefix(t, "core.BuildLabel.") {
					partial = true
				}
			}
		})
		r.check(whole && !partial, "E9.dependency-identity-is-the-whole-label", "dependencyInfo matches a declared dependency by the whole label", p.pos(di.Pos()), fnName(di), "one comparison of BuildLabel values", "dependencyInfo matches declared dependencies field by field and not on all fields (e.g. name and package but not subrepo): //pkg:lib and ///sub//pkg:lib become one dependency, the second edge never reaches Dependencies(), so it is neither waited for nor seen by the cycle detector")
	}
}

func (p *Prog) dependencyEdgeRulesBC(r *Report) {
	// (b)
	if pf := p.Fn("core", "BuildTarget.provideFor"); pf == nil {
		r.unresolved("E5.every-matching-requirement-provides", "core.BuildTarget.provideFor")
	} else {
		n := 0
		for _, l := range sliceRangeLoops(pf) {
			if !strings.HasSuffix(fieldKeyOfLoad(l.over), ".Requires") {
				continue
			}
			n++
			early := false
			for b := range l.blocks {
				for _, i := range b.Instrs {
					if _, ok := i.(*ssa.Return); ok {
						early = true
					}
				}
				// a break: a successor outside the loop from a block other than the header
				if b != l.header {
					for _, sc := range b.Succs {
						if !l.blocks[sc] && sc != l.header {
							early = true
						}
					}
				}
			}
			r.check(!early, "E5.every-matching-requirement-provides", "provideFor looks at every requirement of the dependant", p.pos(l.header.Instrs[0].Pos()), fnName(pf), "the loop over other.Requires has no return or break inside", "provideFor stops at the first requirement the dependency provides for: with requires=[hdrs, lib] and provides={hdrs: :c, lib: :d} only :c is queued and waited for, and the dependant's build starts while :d has not been built")
		}
		if n == 0 {
			r.unresolved("E5.every-matching-requirement-provides", "loop over Requires in provideFor")
		}
	}
	// (c)
	if at, qt := p.Fn("core", "BuildState.ActivateTarget"), p.Fn("core", "BuildState.QueueTarget"); at == nil || qt == nil {
		r.unresolved("E5.postbuild-targets-not-activated-by-all", "core.BuildState.ActivateTarget / QueueTarget")
	} else {
		n, bad := 0, 0
		var site token.Pos
		for _, ci := range callsInFn(at, qt) {
			cc := callCommon(ci)
			if len(cc.Args) < 2 || !tagsOf(cc.Args[1], SliceOpts{})["call:(*core.Package).AllTargets"] {
				continue
			}
			n++
			if !blockJustified(ci.Block(), func(f Fact) bool {
				return fieldKeyOfLoad(f.V) == "core.BuildTarget.AddedPostBuild" && !f.Val
			}, 6) {
				bad++
				site = ci.Pos()
			}
		}
		if n == 0 {
			r.unresolved("E5.postbuild-targets-not-activated-by-all", "QueueTarget for the members of :all in ActivateTarget")
		} else {
			r.check(bad == 0, "E5.postbuild-targets-not-activated-by-all", "`:all` does not activate targets added by a post-build function", p.pos(site), fnName(at), itoa(n)+" queueing site(s), each under !target.AddedPostBuild", "ActivateTarget queues every member of `:all`, including targets a post-build function has created but not yet given their dependencies: such a target goes Active -> Pending with an empty dependency list and builds before the dependency added a moment later")
		}
	}
}

// mutexReleasedRule: a mutex taken in a function of the scheduler's packages is given back on every path out of that
// function: either its Unlock is deferred, or no return is reachable from the Lock without passing an Unlock of the same
// mutex. (Functions whose name says they hand the lock to the caller - lock/Lock/acquire - are skipped.)
func (p *Prog) mutexReleasedRule(r *Report, rule string, pkgs ...string) {
	n, nBad := 0, 0
	for _, fn := range p.Funcs(pkgs...) {
		ln := strings.ToLower(fn.Name())
		if strings.Contains(ln, "lock") || strings.Contains(ln, "acquire") {
			continue
		}
		eachInstr(fn, false, func(_ *ssa.Function, i ssa.Instruction) {
			c, ok := i.(*ssa.Call)
			if !ok {
				return
			}
			name := calleeName(&c.Call)
			var unlock string
			switch name {
			case "(*sync.Mutex).Lock":
				unlock = "(*sync.Mutex).Unlock"
			case "(*sync.RWMutex).Lock":
				unlock = "(*sync.RWMutex).Unlock"
			case "(*sync.RWMutex).RLock":
				unlock = "(*sync.RWMutex).RUnlock"
			default:
				return
			}
			mu := rootOf(c.Call.Args[0])
			key := fieldKey(c.Call.Args[0])
			same := func(v ssa.Value) bool {
				if key != "" {
					return fieldKey(v) == key
				}
				return rootOf(v) == mu
			}
			n++
			deferred := false
			eachInstr(fn, false, func(_ *ssa.Function, j ssa.Instruction) {
				if d, ok := j.(*ssa.Defer); ok && calleeName(&d.Call) == unlock && same(d.Call.Args[0]) {
					deferred = true
				}
			})
			if deferred {
				return
			}
			isUnlock := func(j ssa.Instruction) bool {
				cc := callCommon(j)
				if _, isDefer := j.(*ssa.Defer); isDefer || cc == nil {
					return false
				}
				return calleeName(cc) == unlock && len(cc.Args) > 0 && same(cc.Args[0])
			}
			if existsPath(fn, c, nil, isUnlock) {
				nBad++
				r.bad(rule, fn.Name()+": "+strings.TrimPrefix(name, "(*sync.")+" is released on every path", p.pos(c.Pos()), fnName(fn), "a return is reachable from this Lock without the matching Unlock (e.g. an error return added after the deferred unlock was replaced by explicit ones): the mutex stays held for the rest of the process and every later caller blocks for ever")
			}
		})
	}
	if nBad == 0 {
		r.ok(rule, "every mutex taken in the scheduler's packages is released on every path", "-", "", itoa(n)+" Lock/RLock sites examined (deferred unlock, or an unlock on every path to a return)")
	}
	if n < 5 {
		r.unresolved(rule, "Lock sites in packages build/core/plz/parse/test (found "+itoa(n)+")")
	}
}
