package main

import (
	"go/token"
	"go/types"
	"strings"

	"golang.org/x/tools/go/ssa"
)

// E4 maporder: effects inside a `range` over a map must not depend on the
// iteration order.

type orderFinding struct {
	fn     *ssa.Function
	site   token.Pos
	mapStr string
	kind   string // what the body does
	ok     bool
	detail string
}

var sortCallees = map[string]bool{
	"sort.Strings": true, "sort.Sort": true, "sort.Slice": true, "sort.SliceStable": true, "sort.Stable": true, "sort.Ints": true,
	"slices.Sort": true, "slices.SortFunc": true, "slices.SortStableFunc": true,
}

// rootOf: the storage a map/slice value comes from (alloc, parameter, free variable, field address, call).
func rootOf(v ssa.Value) ssa.Value {
	for d := 0; d < 12; d++ {
		switch x := v.(type) {
		case *ssa.UnOp:
			if x.Op == token.MUL {
				v = x.X
				continue
			}
			return v
		case *ssa.ChangeType:
			v = x.X
		case *ssa.MakeInterface:
			v = x.X
		case *ssa.Phi:
			// a loop-carried slice: follow the first non-self edge
			for _, e := range x.Edges {
				if e != v {
					if c, ok := e.(*ssa.Call); ok {
						if b, ok := c.Call.Value.(*ssa.Builtin); ok && b.Name() == "append" {
							continue
						}
					}
					return rootOf(e)
				}
			}
			return v
		case *ssa.FreeVar:
			if b := freeVarBinding(x); b != nil {
				v = b
				continue
			}
			return v
		default:
			return v
		}
	}
	return v
}

// iteratorOrderFindings: (a) maps.Keys / maps.Values / maps.All collected or ranged without a sort;
// (b) a slice captured by a closure that is started as a goroutine (go / errgroup.Go) and appended to
// there: its element order is goroutine completion order unless it is sorted afterwards.
func (p *Prog) iteratorOrderFindings(fn *ssa.Function) []orderFinding {
	var out []orderFinding
	eachInstr(fn, false, func(_ *ssa.Function, i ssa.Instruction) {
		c, ok := i.(*ssa.Call)
		if !ok {
			return
		}
		switch calleeName(&c.Call) {
		case "maps.Keys", "maps.Values", "maps.All":
			sorted := false
			if refs := c.Referrers(); refs != nil {
				for _, u := range *refs {
					if uc, ok := u.(*ssa.Call); ok {
						switch calleeName(&uc.Call) {
						case "slices.Sorted", "slices.SortedFunc", "slices.SortedStableFunc":
							sorted = true
						case "slices.Collect", "slices.AppendSeq":
							// sorted afterwards in this function?
							eachInstr(fn, false, func(_ *ssa.Function, j ssa.Instruction) {
								if sc, ok := j.(*ssa.Call); ok && sortCallees[calleeName(&sc.Call)] && len(sc.Call.Args) > 0 && derivesFromValue(sc.Call.Args[0], uc) {
									sorted = true
								}
							})
						}
					}
				}
			}
			out = append(out, orderFinding{fn: fn, site: c.Pos(), mapStr: "iterator " + calleeName(&c.Call), kind: "collected in map iteration order", ok: sorted,
				detail: map[bool]string{true: "passed to slices.Sorted / sorted after collecting", false: "the elements of " + calleeName(&c.Call) + "(...) are collected in map iteration order and never sorted: the resulting list (and everything hashed or expanded from it) differs from call to call"}[sorted]})
		}
	})
	// (b)
	for _, g := range fn.AnonFuncs {
		started := false
		eachInstr(fn, false, func(_ *ssa.Function, i ssa.Instruction) {
			switch x := i.(type) {
			case *ssa.Go:
				if resolveCalleeDeep(&x.Call) == g {
					started = true
				}
			case *ssa.Call:
				if strings.HasSuffix(calleeName(&x.Call), "errgroup.Group).Go") {
					for _, a := range x.Call.Args {
						if closureOfArg(a) == g {
							started = true
						}
					}
				}
			}
		})
		if !started {
			continue
		}
		eachInstr(g, false, func(_ *ssa.Function, i ssa.Instruction) {
			st, ok := i.(*ssa.Store)
			if !ok {
				return
			}
			fv, ok := st.Addr.(*ssa.FreeVar)
			if !ok {
				return
			}
			ac, ok := st.Val.(*ssa.Call)
			if !ok {
				return
			}
			if b, ok := ac.Call.Value.(*ssa.Builtin); !ok || b.Name() != "append" {
				return
			}
			// sorted in the parent afterwards?
			bind := freeVarBinding(fv)
			sorted := false
			eachInstr(fn, false, func(_ *ssa.Function, j ssa.Instruction) {
				if sc, ok := j.(*ssa.Call); ok && sortCallees[calleeName(&sc.Call)] && len(sc.Call.Args) > 0 && bind != nil && derivesFromValue(sc.Call.Args[0], bind) {
					sorted = true
				}
			})
			out = append(out, orderFinding{fn: g, site: st.Pos(), mapStr: "goroutine results", kind: "appended in completion order", ok: sorted,
				detail: map[bool]string{true: "the shared slice is sorted after the goroutines finished", false: "goroutines started from " + fn.Name() + " append to a shared slice: its element order is the order in which they happen to finish (parse timing, -p), and it is never sorted"}[sorted]})
		})
	}
	return out
}

func (p *Prog) mapOrderFindings(fn *ssa.Function) []orderFinding {
	out := p.iteratorOrderFindings(fn)
	loops := loopBlocks(fn)
	for _, b := range fn.Blocks {
		for _, in := range b.Instrs {
			rg, ok := in.(*ssa.Range)
			if !ok {
				continue
			}
			if _, isMap := rg.X.Type().Underlying().(*types.Map); !isMap {
				continue
			}
			// header = block of the Next using this range
			var next *ssa.Next
			if refs := rg.Referrers(); refs != nil {
				for _, rf := range *refs {
					if n, ok := rf.(*ssa.Next); ok {
						next = n
					}
				}
			}
			if next == nil {
				continue
			}
			body := loops[next.Block()]
			inBody := map[*ssa.BasicBlock]bool{}
			for _, x := range body {
				inBody[x] = true
			}
			mapStr := "map"
			for k := range p.fieldsOf(rg.X, 0) {
				mapStr = k
			}
			// instructions of the body, including closures created in the body
			type bi struct {
				i  ssa.Instruction
				fn *ssa.Function
			}
			var instrs []bi
			for _, x := range body {
				for _, i := range x.Instrs {
					instrs = append(instrs, bi{i, fn})
					if mc, ok := i.(*ssa.MakeClosure); ok {
						for _, cf := range withAnon(mc.Fn.(*ssa.Function)) {
							eachInstr(cf, false, func(_ *ssa.Function, j ssa.Instruction) { instrs = append(instrs, bi{j, cf}) })
						}
					}
				}
			}
			add := func(pos token.Pos, kind string, ok bool, detail string) {
				if !pos.IsValid() {
					pos = rg.Pos()
				}
				out = append(out, orderFinding{fn, pos, mapStr, kind, ok, detail})
			}
			nEffects := 0
			// map updates: which maps are written, with which keys
			type upd struct {
				mu   *ssa.MapUpdate
				root ssa.Value
			}
			var upds []upd
			for _, x := range instrs {
				if mu, ok := x.i.(*ssa.MapUpdate); ok {
					upds = append(upds, upd{mu, rootOf(mu.Map)})
				}
			}
			for _, x := range instrs {
				switch i := x.i.(type) {
				case *ssa.Lookup:
					if _, isMap := i.X.Type().Underlying().(*types.Map); !isMap {
						continue
					}
					rt := rootOf(i.X)
					for _, u := range upds {
						if u.root != rt {
							continue
						}
						// reading the map that the loop also writes: order-insensitive only if it reads the very key it writes (dedupe/accumulate per key)
						if i.Index == u.mu.Key && x.fn == fn {
							continue
						}
						nEffects++
						add(i.Pos(), "reads a map that the same loop writes", false, "the loop body both writes "+rootName(rt)+" and reads other entries of it: the value computed for one key depends on whether another key was processed before it, i.e. on Go's randomised map iteration order")
					}
				case *ssa.Send:
					nEffects++
					add(i.Pos(), "channel send in map order", false, "items are sent on a channel in map iteration order")
				case *ssa.Call:
					if a, ok := hashWriteArg(i); ok {
						_ = a
						nEffects++
						add(i.Pos(), "hash/stream write in map order", false, "data is written to a hash or stream inside a range over a map: the byte stream depends on Go's randomised iteration order")
						continue
					}
					n := calleeName(&i.Call)
					if strings.HasPrefix(n, "(*strings.Builder).Write") || strings.HasPrefix(n, "(*bytes.Buffer).Write") || n == "fmt.Fprintf" || n == "fmt.Fprint" || n == "fmt.Fprintln" || n == "fmt.Printf" || n == "fmt.Println" {
						nEffects++
						add(i.Pos(), "formatted/stream write in map order", false, "output is produced inside a range over a map in iteration order")
						continue
					}
					if bi, ok := i.Call.Value.(*ssa.Builtin); ok && bi.Name() == "append" {
						// appended element depends on the loop variables?
						dep := false
						for _, a := range i.Call.Args[1:] {
							for y := range backSlice(a, SliceOpts{}) {
								if y == ssa.Value(next) {
									dep = true
								}
							}
						}
						if !dep {
							continue
						}
						nEffects++
						// sorted afterwards?
						sorted := false
						for _, g := range withAnon(topFunc(fn)) {
							eachInstr(g, false, func(_ *ssa.Function, j ssa.Instruction) {
								c, ok := j.(*ssa.Call)
								if !ok || !sortCallees[calleeName(&c.Call)] || len(c.Call.Args) == 0 {
									return
								}
								for y := range backSlice(c.Call.Args[0], SliceOpts{}) {
									if y == ssa.Value(i) {
										sorted = true
									}
								}
							})
						}
						// the sort must be on every path from the append to a return that hands the slice out
						var skipRet *ssa.Return
						if sorted && x.fn == fn {
							isSort := func(j ssa.Instruction) bool {
								c, ok := j.(*ssa.Call)
								if !ok || !sortCallees[calleeName(&c.Call)] || len(c.Call.Args) == 0 {
									return false
								}
								for y := range backSlice(c.Call.Args[0], SliceOpts{}) {
									if y == ssa.Value(i) {
										return true
									}
								}
								return false
							}
							for _, ret := range returnsOf(fn) {
								carries := false
								for _, rv := range ret.Results {
									for y := range backSlice(unspill(rv), SliceOpts{}) {
										if y == ssa.Value(i) {
											carries = true
										}
									}
								}
								if carries && existsPath(fn, i, ret, isSort) {
									skipRet = ret
								}
							}
						}
						if skipRet != nil {
							add(i.Pos(), "append, sort skipped on some path", false, "a slice is built by appending in map iteration order and is returned (at "+p.pos(skipRet.Pos())+") on a path that does not sort it: its element order differs from run to run")
						} else if sorted {
							add(i.Pos(), "append then sort", true, "the slice built in map order is sorted before use")
						} else {
							add(i.Pos(), "append without sort", false, "a slice is built by appending in map iteration order and never sorted: its element order differs from run to run")
						}
						continue
					}
					// helper that writes its arguments to a hash/stream passed to it
					if g := i.Call.StaticCallee(); g != nil && x.fn == fn {
						if hp := p.hashHelperParams(g, 0); len(hp) > 0 {
							dep := false
							for k := range hp {
								if k < len(i.Call.Args) {
									for y := range backSlice(i.Call.Args[k], SliceOpts{}) {
										if y == ssa.Value(next) {
											dep = true
										}
									}
								}
							}
							if dep {
								nEffects++
								add(i.Pos(), "hash/stream write in map order", false, "data derived from the loop variables is written to a hash through "+g.Name()+" inside a range over a map: the byte stream depends on Go's randomised iteration order")
								continue
							}
						}
					}
					// call of a function-typed parameter (yield)
					if prm, ok := i.Call.Value.(*ssa.Parameter); ok {
						if _, isSig := prm.Type().Underlying().(*types.Signature); isSig {
							nEffects++
							add(i.Pos(), "yield in map order", false, "values are yielded to the caller in map iteration order")
						}
					}
				case *ssa.BinOp:
					if i.Op == token.ADD {
						if bt, ok := i.Type().Underlying().(*types.Basic); ok && bt.Info()&types.IsString != 0 {
							// string accumulation through a header phi
							for _, op := range []ssa.Value{i.X, i.Y} {
								if phi, ok := op.(*ssa.Phi); ok && phi.Block() == next.Block() {
									nEffects++
									add(i.Pos(), "string accumulation in map order", false, "a string is built by concatenation in map iteration order")
								}
							}
						}
					}
				}
			}
			if nEffects == 0 {
				add(rg.Pos(), "order-insensitive body", true, "the body only writes per-key entries, reduces commutatively or tests membership")
			}
		}
	}
	return out
}

func rootName(v ssa.Value) string {
	if v == nil {
		return "a map"
	}
	if k := fieldKey(v); k != "" {
		return k
	}
	if n := v.Name(); n != "" {
		return "`" + n + "`"
	}
	return "a map"
}

// runMapOrder applies E4 to the closure of roots.
func (p *Prog) runMapOrder(r *Report, rule string, roots []*ssa.Function, depth int, keep func(*ssa.Function) bool) int {
	funcs := p.closure(roots, depth, keep)
	seen := map[*ssa.Function]bool{}
	n := 0
	cnt := map[string]int{}
	for _, f := range funcs {
		for _, g := range anonOf(f) {
			if seen[g] {
				continue
			}
			seen[g] = true
			for _, of := range p.mapOrderFindings(g) {
				n++
				key := rule + "|" + fnName(of.fn) + "|" + of.mapStr + "|" + of.kind
				cnt[key]++
				if cnt[key] > 1 {
					key += "#" + itoa(cnt[key])
				}
				st := "discharged"
				if !of.ok {
					st = "violated"
				}
				r.add(Obligation{Rule: rule, Instance: "range over " + of.mapStr + ": " + of.kind, Site: p.pos(of.site), Func: fnName(of.fn), Status: st, Detail: of.detail, Key: key, Path: true})
			}
		}
	}
	r.Stats[rule+"_functions"] = len(seen)
	return n
}

func inRepoPkgs(pkgs ...string) func(*ssa.Function) bool {
	return func(f *ssa.Function) bool {
		pk := fnPkg(f)
		for _, s := range pkgs {
			if pk == modPath+"/src/"+s {
				return true
			}
		}
		return false
	}
}
