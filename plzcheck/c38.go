package main

import (
	"go/token"
	"strings"

	"golang.org/x/tools/go/ssa"
)

func init() {
	register("C38", []string{"./src/format/..."}, checkC38)
}

func checkC38(p *Prog, r *Report) {
	r.Explanation = "Only the part of `plz fmt` that this repository owns is decided: the rewrite that merges consecutive subinclude() statements, and the write-back. What the third-party formatter (bazelbuild/buildtools) prints, and whether the BUILD-language parser reads it back identically, is a translation-validation question over programs and is NOT decided. Clauses: (1) simplify merges statement i+1 into statement i only when subinclude() recognised both (non-nil facts), i.e. both are calls of the identifier `subinclude` whose arguments are all plain string literals (no keyword arguments, no expressions); (2) order is preserved: the merged argument list is the first statement's list followed by the second's (later subincludes override earlier ones, so the order is meaning); (3) exactly the merged statement is deleted (slices.Delete(stmts, i+1, i+2)) and the scan runs from the end towards the start, so no statement is skipped after a deletion; (4) subinclude() returns a call only under X being an identifier named \"subinclude\" and every argument being a *build.StringExpr; (5) the file is rewritten only when the formatted bytes differ, and only with rewrite requested, and parse errors abort before anything is written."
	r.NotCovered = []string{"the output of buildtools' build.Format", "whether asp accepts and evaluates the formatted text identically (f-strings, raw strings, annotations, unions)", "idempotence of the third-party formatter", "comments attached to a merged statement"}
	simp := p.Fn("format", "simplify")
	sub := p.Fn("format", "subinclude")
	fmtFn := p.Fn("format", "format")
	if simp == nil || sub == nil || fmtFn == nil {
		r.unresolved("E5.merge-only-recognised-subincludes", "format.simplify / subinclude / format")
		return
	}
	// the merge: append(call.List, next.List...) stored into call.List
	var app *ssa.Call
	eachInstr(simp, false, func(_ *ssa.Function, i ssa.Instruction) {
		c, ok := i.(*ssa.Call)
		if !ok {
			return
		}
		if b, ok := c.Call.Value.(*ssa.Builtin); ok && b.Name() == "append" && strings.HasSuffix(typeString(c.Type()), "build.Expr") {
			if tagsOf(c.Call.Args[0], SliceOpts{})["github.com/please-build/buildtools/build.CallExpr.List"] {
				app = c
			}
		}
	})
	rule := "E5.merge-only-recognised-subincludes"
	if app == nil {
		r.okTrivial(rule, "no merging rewrite", p.pos(simp.Pos()), fnName(simp), "simplify does not merge argument lists any more")
	} else {
		var calls []*ssa.Call
		for _, ci := range callsInFn(simp, sub) {
			if c, ok := ci.(*ssa.Call); ok {
				calls = append(calls, c)
			}
		}
		nonNil := 0
		for _, c := range calls {
			if k, isNil := errKnown(factsAt(app), []ssa.Value{c}); k && !isNil {
				nonNil++
			}
		}
		r.check(len(calls) >= 2 && nonNil >= 2, rule, "both statements were recognised as plain subinclude calls", p.pos(app.Pos()), fnName(simp), "the merge is on the non-nil edge of subinclude() for both statements", "two statements are merged without both having been recognised by subinclude(): an arbitrary call (or a subinclude with keyword arguments) is folded into the previous statement")
		// indices: first = Stmt[i], second = Stmt[i+1]
		idxOf := func(c *ssa.Call) (ssa.Value, int64, bool) {
			for x := range backSlice(c.Call.Args[0], SliceOpts{}) {
				if ia, ok := x.(*ssa.IndexAddr); ok {
					if bo, ok := ia.Index.(*ssa.BinOp); ok && bo.Op == token.ADD {
						if k, ok := constInt(bo.Y); ok {
							return bo.X, k, true
						}
					}
					return ia.Index, 0, true
				}
			}
			return nil, 0, false
		}
		rule = "E7.merge-preserves-order"
		var first, second *ssa.Call
		var base ssa.Value
		for _, c := range calls {
			b, off, ok := idxOf(c)
			if !ok {
				continue
			}
			if off == 0 {
				first, base = c, b
			}
		}
		for _, c := range calls {
			b, off, ok := idxOf(c)
			if ok && off == 1 && b == base {
				second = c
			}
		}
		okOrder := first != nil && second != nil && derivesFromValue(app.Call.Args[0], first) && !derivesFromValue(app.Call.Args[0], second) && derivesFromValue(app.Call.Args[1], second) && !derivesFromValue(app.Call.Args[1], first)
		r.check(okOrder, rule, "merged list = arguments of statement i, then those of statement i+1", p.pos(app.Pos()), fnName(simp), "append(stmt[i].List, stmt[i+1].List...)", "the merged subinclude lists its arguments in another order than the statements had (or merges non-adjacent statements): a later subinclude no longer overrides an earlier one in the same way")
		// stored back into the first
		stored := false
		eachInstr(simp, false, func(_ *ssa.Function, i ssa.Instruction) {
			if st, ok := i.(*ssa.Store); ok && st.Val == ssa.Value(app) && first != nil && derivesFromValue(st.Addr, first) {
				stored = true
			}
		})
		r.check(stored, rule, "the merged list replaces the first statement's list", p.pos(app.Pos()), fnName(simp), "stored into stmt[i].List", "the merged argument list is not stored into the first statement")
		rule = "E5.delete-exactly-the-merged-statement"
		delOK, backwards := false, false
		eachInstr(simp, false, func(_ *ssa.Function, i ssa.Instruction) {
			c, ok := i.(*ssa.Call)
			if !ok || !isCallTo(c, "slices.Delete") {
				return
			}
			lo, okl := c.Call.Args[1].(*ssa.BinOp)
			hi, okh := c.Call.Args[2].(*ssa.BinOp)
			if okl && okh && lo.Op == token.ADD && hi.Op == token.ADD && lo.X == base && hi.X == base {
				a, _ := constInt(lo.Y)
				b, _ := constInt(hi.Y)
				if a == 1 && b == 2 && instrDominates(app, c) {
					delOK = true
				}
			}
		})
		if phi, ok := base.(*ssa.Phi); ok {
			for _, e := range phi.Edges {
				if bo, ok := e.(*ssa.BinOp); ok && bo.Op == token.SUB && bo.X == ssa.Value(phi) {
					backwards = true
				}
			}
		}
		r.check(delOK, rule, "slices.Delete(stmts, i+1, i+2) after the merge", p.pos(simp.Pos()), fnName(simp), "exactly statement i+1 is removed, after its arguments were appended", "the statement removed after a merge is not exactly the one whose arguments were appended (or it is removed before): a statement is lost or duplicated")
		r.check(backwards, rule, "the scan runs from the end towards the start", p.pos(simp.Pos()), fnName(simp), "the index decreases, so a deletion never shifts an unexamined statement", "statements are deleted while scanning forwards: the statement that slides into place is skipped, so runs of three or more subincludes are merged only partly and a second `plz fmt` changes the file again")
	}
	// (4)
	rule = "E5.subinclude-recognition"
	{
		n, bad := 0, 0
		for _, rc := range returnCases(sub, 0) {
			if isNilConst(rc.Vals[0]) {
				continue
			}
			n++
			name, isIdent := false, false
			for _, f := range rc.Facts {
				if bo, ok := f.V.(*ssa.BinOp); ok && bo.Op == token.EQL && f.Val {
					if s, ok := constString(bo.Y); ok && s == "subinclude" {
						name = true
					}
				}
				if e, ok := f.V.(*ssa.Extract); ok && f.Val && e.Index == 1 {
					if ta, ok := e.Tuple.(*ssa.TypeAssert); ok && strings.HasSuffix(typeString(ta.AssertedType), "build.Ident") {
						isIdent = true
					}
				}
			}
			if !name || !isIdent {
				bad++
			}
		}
		r.check(n > 0 && bad == 0, rule, "a call is recognised only as the identifier `subinclude`", p.pos(sub.Pos()), fnName(sub), "non-nil only under X.(*build.Ident) with Name == \"subinclude\"", "subinclude() can recognise a call to something else (another name, a method such as x.subinclude) as a subinclude")
		// every argument must be a string literal: a nil return exists under a failed StringExpr assertion inside a loop over call.List
		strict := false
		for _, rc := range returnCases(sub, 0) {
			if !isNilConst(rc.Vals[0]) {
				continue
			}
			for _, f := range rc.Facts {
				if e, ok := f.V.(*ssa.Extract); ok && !f.Val && e.Index == 1 {
					if ta, ok := e.Tuple.(*ssa.TypeAssert); ok && strings.HasSuffix(typeString(ta.AssertedType), "build.StringExpr") {
						strict = true
					}
				}
			}
		}
		every := false
		for _, l := range sliceRangeLoops(sub) {
			if tagsOf(l.over, SliceOpts{})["github.com/please-build/buildtools/build.CallExpr.List"] {
				every = !l.iterationSkips(func(i ssa.Instruction) bool {
					ta, ok := i.(*ssa.TypeAssert)
					return ok && strings.HasSuffix(typeString(ta.AssertedType), "build.StringExpr")
				})
			}
		}
		r.check(strict && every, rule, "every argument must be a plain string literal", p.pos(sub.Pos()), fnName(sub), "each argument is asserted to *build.StringExpr and a failure returns nil", "a subinclude with a keyword argument or a computed argument is treated as mergeable: merging changes which arguments the keyword applies to")
	}
	// (5)
	rule = "E5.write-only-when-changed"
	{
		var wf *ssa.Call
		eachInstr(fmtFn, false, func(_ *ssa.Function, i ssa.Instruction) {
			if c, ok := i.(*ssa.Call); ok && isCallTo(c, "fs.WriteFile", "os.WriteFile", "os.Create", "os.OpenFile") {
				wf = c
			}
		})
		if wf == nil {
			r.unresolved(rule, "the call in format.format that writes the formatted file")
		} else {
			diff := false
			for _, f := range factsAt(wf) {
				if c, ok := f.V.(*ssa.Call); ok && isCallTo(c, "bytes.Equal") && !f.Val {
					diff = true
				}
			}
			rw := false
			for _, f := range factsAt(wf) {
				if prm, ok := f.V.(*ssa.Parameter); ok && prm.Name() == "rewrite" && f.Val {
					rw = true
				}
			}
			r.check(rw, rule, "nothing is written without --write", p.pos(wf.Pos()), fnName(fmtFn), "fs.WriteFile is on the rewrite == true edge", "the file is rewritten although the caller asked only for a report")
			parsed := false
			eachInstr(fmtFn, false, func(_ *ssa.Function, i ssa.Instruction) {
				if c, ok := i.(*ssa.Call); ok && strings.HasSuffix(calleeName(&c.Call), "build.ParseBuild") && instrDominates(c, wf) {
					if k, isNil := errKnown(factsAt(wf), resultsOf(c, 1)); k && isNil {
						parsed = true
					}
				}
			})
			r.check(diff && parsed, rule, "rewrite only for a parsed file whose formatted bytes differ", p.pos(wf.Pos()), fnName(fmtFn), "fs.WriteFile is on the bytes.Equal(before, after) == false edge, after a successful parse", "the file can be rewritten although formatting changed nothing, or although it failed to parse")
		}
	}
}
