package main

import (
	"go/token"
	"strings"

	"golang.org/x/tools/go/ssa"
)

func init() {
	register("C38", []string{"./src/format/...", "./src/parse/asp/..."}, checkC38)
}

func checkC38(p *Prog, r *Report) {
	r.Explanation = "Only the part of `plz fmt` that this repository owns is decided: the rewrite that merges consecutive subinclude() statements, and the write-back. What the third-party formatter (bazelbuild/buildtools) prints, and whether the BUILD-language parser reads it back identically, is a translation-validation question over programs and is NOT decided. Clauses: (1) simplify merges statement i+1 into statement i only when subinclude() recognised both (non-nil facts), i.e. both are calls of the identifier `subinclude` whose arguments are all plain string literals (no keyword arguments, no expressions); (2) order is preserved: the merged argument list is the first statement's list followed by the second's (later subincludes override earlier ones, so the order is meaning); (3) exactly the merged statement is deleted (slices.Delete(stmts, i+1, i+2)) and the scan runs from the end towards the start, so no statement is skipped after a deletion; (4) subinclude() returns a call only under X being an identifier named \"subinclude\" and every argument being a *build.StringExpr; (5) the file is rewritten only when the formatted bytes differ, and only with rewrite requested, and parse errors abort before anything is written."
	r.NotCovered = []string{"the output of buildtools' build.Format", "whether asp accepts and evaluates the formatted text identically (f-strings, raw strings, annotations, unions)", "idempotence of the third-party formatter", "comments attached to a merged statement"}
	simp := p.Fn("format", "simplify")
	sub := p.Fn("format", "subinclude")
	fmtFn := p.Fn("format", "format")
	if simp == nil || sub == nil || fmtFn == nil {
		r.unresolved("E5.merge-only-recognised-subincludes", "format.simplify / subinclude / format")
		return
	}
	// the merge: append(call.List, next.List...) stored into call.List
	var app *ssa.Call
	eachInstr(simp, false, func(_ *ssa.Function, i ssa.Instruction) {
		c, ok := i.(*ssa.Call)
		if !ok {
			return
		}
		if b, ok := c.Call.Value.(*ssa.Builtin); ok && b.Name() == "append" && strings.HasSuffix(typeString(c.Type()), "build.Expr") {
			if tagsOf(c.Call.Args[0], SliceOpts{})["github.com/please-build/buildtools/build.CallExpr.List"] {
				app = c
			}
		}
	})
	rule := "E5.merge-only-recognised-subincludes"
	if app == nil {
		r.okTrivial(rule, "no merging rewrite", p.pos(simp.Pos()), fnName(simp), "simplify does not merge argument lists any more")
	} else {
		var calls []*ssa.Call
		for _, ci := range callsInFn(simp, sub) {
			if c, ok := ci.(*ssa.Call); ok {
				calls = append(calls, c)
			}
		}
		nonNil := 0
		for _, c := range calls {
			if k, isNil := errKnown(factsAt(app), []ssa.Value{c}); k && !isNil {
				nonNil++
			}
		}
		forward := len(calls) > 0 && !p.indexedStatements(calls)
		if !forward {
			r.check(len(calls) >= 2 && nonNil >= 2, rule, "both statements were recognised as plain subinclude calls", p.pos(app.Pos()), fnName(simp), "the merge is on the non-nil edge of subinclude() for both statements", "two statements are merged without both having been recognised by subinclude(): an arbitrary call (or a subinclude with keyword arguments) is folded into the previous statement")
		}
		// indices: first = Stmt[i], second = Stmt[i+1]
		idxOf := func(c *ssa.Call) (ssa.Value, int64, bool) {
			for x := range backSlice(c.Call.Args[0], SliceOpts{}) {
				if ia, ok := x.(*ssa.IndexAddr); ok {
					if bo, ok := ia.Index.(*ssa.BinOp); ok && bo.Op == token.ADD {
						if k, ok := constInt(bo.Y); ok {
							return bo.X, k, true
						}
					}
					return ia.Index, 0, true
				}
			}
			return nil, 0, false
		}
		rule = "E7.merge-preserves-order"
		var first, second *ssa.Call
		var base ssa.Value
		for _, c := range calls {
			b, off, ok := idxOf(c)
			if !ok {
				continue
			}
			if off == 0 {
				first, base = c, b
			}
		}
		for _, c := range calls {
			b, off, ok := idxOf(c)
			if ok && off == 1 && b == base {
				second = c
			}
		}
		if first == nil && second == nil && !p.indexedStatements(calls) {
			// not the stmt[i] / stmt[i+1] shape: try the single forward pass with a run head
			p.c38ForwardForm(r, simp, sub, app)
			goto recognition
		}
		okOrder := first != nil && second != nil && derivesFromValue(app.Call.Args[0], first) && !derivesFromValue(app.Call.Args[0], second) && derivesFromValue(app.Call.Args[1], second) && !derivesFromValue(app.Call.Args[1], first)
		r.check(okOrder, rule, "merged list = arguments of statement i, then those of statement i+1", p.pos(app.Pos()), fnName(simp), "append(stmt[i].List, stmt[i+1].List...)", "the merged subinclude lists its arguments in another order than the statements had (or merges non-adjacent statements): a later subinclude no longer overrides an earlier one in the same way")
		// stored back into the first
		stored := false
		eachInstr(simp, false, func(_ *ssa.Function, i ssa.Instruction) {
			if st, ok := i.(*ssa.Store); ok && st.Val == ssa.Value(app) && first != nil && derivesFromValue(st.Addr, first) {
				stored = true
			}
		})
		r.check(stored, rule, "the merged list replaces the first statement's list", p.pos(app.Pos()), fnName(simp), "stored into stmt[i].List", "the merged argument list is not stored into the first statement")
		rule = "E5.delete-exactly-the-merged-statement"
		delOK, backwards := false, false
		eachInstr(simp, false, func(_ *ssa.Function, i ssa.Instruction) {
			c, ok := i.(*ssa.Call)
			if !ok || !isCallTo(c, "slices.Delete") {
				return
			}
			lo, okl := c.Call.Args[1].(*ssa.BinOp)
			hi, okh := c.Call.Args[2].(*ssa.BinOp)
			if okl && okh && lo.Op == token.ADD && hi.Op == token.ADD && lo.X == base && hi.X == base {
				a, _ := constInt(lo.Y)
				b, _ := constInt(hi.Y)
				if a == 1 && b == 2 && instrDominates(app, c) {
					delOK = true
				}
			}
		})
		if phi, ok := base.(*ssa.Phi); ok {
			for _, e := range phi.Edges {
				if bo, ok := e.(*ssa.BinOp); ok && bo.Op == token.SUB && bo.X == ssa.Value(phi) {
					backwards = true
				}
			}
		}
		r.check(delOK, rule, "slices.Delete(stmts, i+1, i+2) after the merge", p.pos(simp.Pos()), fnName(simp), "exactly statement i+1 is removed, after its arguments were appended", "the statement removed after a merge is not exactly the one whose arguments were appended (or it is removed before): a statement is lost or duplicated")
		r.check(backwards, rule, "the scan runs from the end towards the start", p.pos(simp.Pos()), fnName(simp), "the index decreases, so a deletion never shifts an unexamined statement", "statements are deleted while scanning forwards: the statement that slides into place is skipped, so runs of three or more subincludes are merged only partly and a second `plz fmt` changes the file again")
	}
	// merging consecutive subincludes is only meaning-preserving while subinclude(a, b) is the same as subinclude(a) followed
	// by subinclude(b): the builtin installs each included file's globals as it goes (SetAll merges CONFIG overlays; copying
	// all files into one dict first keeps only the last file's CONFIG)
	if sb := p.Fn("parse/asp", "subinclude"); sb == nil {
		r.unresolved("E5.multi-arg-subinclude-is-sequential", "asp.subinclude")
	} else {
		n, bad := 0, 0
		for _, l := range sliceRangeLoops(sb) {
			hasInc := false
			for b := range l.blocks {
				for _, i := range b.Instrs {
					if cc := callCommon(i); cc != nil && strings.HasSuffix(calleeName(cc), "interpreter).Subinclude") {
						hasInc = true
					}
				}
			}
			if !hasInc {
				continue
			}
			// innermost loop that contains the Subinclude call
			inner := true
			for _, l2 := range sliceRangeLoops(sb) {
				if l2.header != l.header && l.blocks[l2.header] {
					for b := range l2.blocks {
						for _, i := range b.Instrs {
							if cc := callCommon(i); cc != nil && strings.HasSuffix(calleeName(cc), "interpreter).Subinclude") {
								inner = false
							}
						}
					}
				}
			}
			if !inner {
				continue
			}
			n++
			if l.iterationSkips(func(i ssa.Instruction) bool {
				cc := callCommon(i)
				return cc != nil && strings.HasSuffix(calleeName(cc), "scope).SetAll")
			}) {
				bad++
			}
		}
		if n == 0 {
			r.unresolved("E5.multi-arg-subinclude-is-sequential", "the loop in asp.subinclude that loads each file")
		} else {
			r.check(bad == 0, "E5.multi-arg-subinclude-is-sequential", "subinclude installs each file's globals before loading the next", p.pos(sb.Pos()), fnName(sb), "every iteration that loads a file passes scope.SetAll", "subinclude() collects the globals of all its arguments first and installs them once: each file's CONFIG changes arrive as one `CONFIG` entry, so only the last file's survive - and `plz fmt` rewrites consecutive subinclude statements into exactly that multi-argument form")
		}
	}
recognition:
	// (4)
	rule = "E5.subinclude-recognition"
	{
		n, bad := 0, 0
		for _, rc := range returnCases(sub, 0) {
			if isNilConst(rc.Vals[0]) {
				continue
			}
			n++
			name, isIdent := false, false
			for _, f := range rc.Facts {
				if bo, ok := f.V.(*ssa.BinOp); ok && bo.Op == token.EQL && f.Val {
					if s, ok := constString(bo.Y); ok && s == "subinclude" {
						name = true
					}
				}
				if e, ok := f.V.(*ssa.Extract); ok && f.Val && e.Index == 1 {
					if ta, ok := e.Tuple.(*ssa.TypeAssert); ok && strings.HasSuffix(typeString(ta.AssertedType), "build.Ident") {
						isIdent = true
					}
				}
			}
			if !name || !isIdent {
				bad++
			}
		}
		r.check(n > 0 && bad == 0, rule, "a call is recognised only as the identifier `subinclude`", p.pos(sub.Pos()), fnName(sub), "non-nil only under X.(*build.Ident) with Name == \"subinclude\"", "subinclude() can recognise a call to something else (another name, a method such as x.subinclude) as a subinclude")
		// every argument must be a string literal: a nil return exists under a failed StringExpr assertion inside a loop over call.List
		strict := false
		for _, rc := range returnCases(sub, 0) {
			if !isNilConst(rc.Vals[0]) {
				continue
			}
			for _, f := range rc.Facts {
				if e, ok := f.V.(*ssa.Extract); ok && !f.Val && e.Index == 1 {
					if ta, ok := e.Tuple.(*ssa.TypeAssert); ok && strings.HasSuffix(typeString(ta.AssertedType), "build.StringExpr") {
						strict = true
					}
				}
			}
		}
		every := false
		for _, l := range sliceRangeLoops(sub) {
			if tagsOf(l.over, SliceOpts{})["github.com/please-build/buildtools/build.CallExpr.List"] {
				every = !l.iterationSkips(func(i ssa.Instruction) bool {
					ta, ok := i.(*ssa.TypeAssert)
					return ok && strings.HasSuffix(typeString(ta.AssertedType), "build.StringExpr")
				})
			}
		}
		r.check(strict && every, rule, "every argument must be a plain string literal", p.pos(sub.Pos()), fnName(sub), "each argument is asserted to *build.StringExpr and a failure returns nil", "a subinclude with a keyword argument or a computed argument is treated as mergeable: merging changes which arguments the keyword applies to")
	}
	// (5)
	rule = "E5.write-only-when-changed"
	{
		var wf *ssa.Call
		eachInstr(fmtFn, false, func(_ *ssa.Function, i ssa.Instruction) {
			if c, ok := i.(*ssa.Call); ok && isCallTo(c, "fs.WriteFile", "os.WriteFile", "os.Create", "os.OpenFile") {
				wf = c
			}
		})
		if wf == nil {
			r.unresolved(rule, "the call in format.format that writes the formatted file")
		} else {
			diff := false
			for _, f := range factsAt(wf) {
				if c, ok := f.V.(*ssa.Call); ok && isCallTo(c, "bytes.Equal") && !f.Val {
					diff = true
				}
			}
			rw := false
			for _, f := range factsAt(wf) {
				if prm, ok := f.V.(*ssa.Parameter); ok && prm.Name() == "rewrite" && f.Val {
					rw = true
				}
			}
			r.check(rw, rule, "nothing is written without --write", p.pos(wf.Pos()), fnName(fmtFn), "fs.WriteFile is on the rewrite == true edge", "the file is rewritten although the caller asked only for a report")
			parsed := false
			eachInstr(fmtFn, false, func(_ *ssa.Function, i ssa.Instruction) {
				if c, ok := i.(*ssa.Call); ok && strings.HasSuffix(calleeName(&c.Call), "build.ParseBuild") && instrDominates(c, wf) {
					if k, isNil := errKnown(factsAt(wf), resultsOf(c, 1)); k && isNil {
						parsed = true
					}
				}
			})
			r.check(diff && parsed, rule, "rewrite only for a parsed file whose formatted bytes differ", p.pos(wf.Pos()), fnName(fmtFn), "fs.WriteFile is on the bytes.Equal(before, after) == false edge, after a successful parse", "the file can be rewritten although formatting changed nothing, or although it failed to parse")
		}
	}
}

// c38ForwardForm: simplify written as one forward pass over f.Stmt that keeps the head of the current run of
// subincludes in a loop-carried variable and builds a new statement list. Clauses: the merge appends the current
// statement's arguments behind the head's; on every way round the loop that does not merge, the head becomes the
// current statement's subinclude() result (nil for anything else), so only adjacent statements are merged; every
// statement that is not merged is kept, and a merged one is not.
func (p *Prog) c38ForwardForm(r *Report, simp, sub *ssa.Function, app *ssa.Call) {
	ruleO, ruleD := "E7.merge-preserves-order", "E5.delete-exactly-the-merged-statement"
	var loop *rloop
	for _, l := range sliceRangeLoops(simp) {
		l := l
		if tagsOf(l.over, SliceOpts{})["github.com/please-build/buildtools/build.File.Stmt"] && l.blocks[app.Block()] {
			loop = &l
		}
	}
	var head *ssa.Phi
	if loop != nil {
		for x := range backSlice(app.Call.Args[0], SliceOpts{}) {
			if ph, ok := x.(*ssa.Phi); ok && ph.Block() == loop.header && strings.HasSuffix(typeString(ph.Type()), "build.CallExpr") {
				head = ph
			}
		}
	}
	var cur *ssa.Call
	if loop != nil {
		for _, ci := range callsInFn(simp, sub) {
			if c, ok := ci.(*ssa.Call); ok && loop.blocks[c.Block()] && derivesFromValue(app.Call.Args[1], c) {
				cur = c
			}
		}
	}
	if loop == nil || head == nil || cur == nil {
		r.info(ruleO, "merge shape not recognised", p.pos(simp.Pos()), fnName(simp), "simplify merges argument lists neither as stmt[i]/stmt[i+1] nor as a forward pass with a run head: order and adjacency of the merge are not decided for this implementation")
		r.okTrivial(ruleO, "not applicable to this implementation", p.pos(simp.Pos()), fnName(simp), "unrecognised merge shape")
		return
	}
	shallowBase := func(v ssa.Value) ssa.Value {
		for d := 0; d < 6; d++ {
			switch x := v.(type) {
			case *ssa.UnOp:
				v = x.X
			case *ssa.FieldAddr:
				v = x.X
			case *ssa.Slice:
				v = x.X
			default:
				return v
			}
		}
		return v
	}
	// both operands of the merge are recognised subincludes: the current statement by its non-nil fact, the head by its
	// non-nil fact (and, below, by only ever holding subinclude() results)
	{
		curOK, headOK := false, false
		if k, isNil := errKnown(factsAt(app), []ssa.Value{cur}); k && !isNil {
			curOK = true
		}
		if k, isNil := errKnown(factsAt(app), []ssa.Value{head}); k && !isNil {
			headOK = true
		}
		r.check(curOK && headOK, "E5.merge-only-recognised-subincludes", "both statements were recognised as plain subinclude calls", p.pos(app.Pos()), fnName(simp), "the merge is on the non-nil edge of subinclude() for the current statement and of the run head", "two statements are merged without both having been recognised by subinclude()")
	}
	r.check(shallowBase(app.Call.Args[0]) == ssa.Value(head) && shallowBase(app.Call.Args[1]) == ssa.Value(cur), ruleO, "merged list = arguments of the run head, then those of the current statement", p.pos(app.Pos()), fnName(simp), "append(head.List, current.List...)", "the merged subinclude lists the current statement's arguments before the earlier ones")
	// the head after a non-merging iteration is the current statement's subinclude() result
	var resolve func(v ssa.Value, pred *ssa.BasicBlock, depth int) bool
	resolve = func(v ssa.Value, pred *ssa.BasicBlock, depth int) bool {
		if depth > 6 {
			return false
		}
		switch x := v.(type) {
		case *ssa.Const:
			return x.Value == nil
		case *ssa.Call:
			return x == cur
		case *ssa.Phi:
			if x == head {
				// unchanged head: only on a path that merged
				return len(pred.Instrs) > 0 && instrDominates(app, pred.Instrs[len(pred.Instrs)-1])
			}
			for k, e := range x.Edges {
				if !resolve(e, x.Block().Preds[k], depth+1) {
					return false
				}
			}
			return true
		}
		return false
	}
	adjacent := true
	for k, e := range head.Edges {
		pred := loop.header.Preds[k]
		if !loop.blocks[pred] {
			continue // loop entry
		}
		if !resolve(e, pred, 0) {
			adjacent = false
		}
	}
	r.check(adjacent, ruleO, "only adjacent statements are merged", p.pos(simp.Pos()), fnName(simp), "after every iteration that does not merge, the run head is the current statement's subinclude() result (nil for any other statement)", "the head of a run of subincludes survives a statement that is not a subinclude (an assignment, def, if, for, a comment): a later subinclude is merged into an earlier one across that statement and is evaluated before it")
	// kept / dropped statements
	isKeep := func(i ssa.Instruction) bool {
		c, ok := i.(*ssa.Call)
		if !ok {
			return false
		}
		b, ok := c.Call.Value.(*ssa.Builtin)
		return ok && b.Name() == "append" && c != app && strings.HasSuffix(typeString(c.Type()), "build.Expr")
	}
	skips := loop.iterationSkips(func(i ssa.Instruction) bool { return isKeep(i) || i == ssa.Instruction(app) })
	both := false
	eachInstr(simp, false, func(_ *ssa.Function, i ssa.Instruction) {
		if isKeep(i) && loop.blocks[i.Block()] && (instrDominates(app, i) || existsPath(simp, app, i, func(j ssa.Instruction) bool { return j.Block() == loop.header })) {
			both = true
		}
	})
	r.check(!skips && !both, ruleD, "every statement is either merged or kept, never both", p.pos(simp.Pos()), fnName(simp), "each iteration passes the merge or the append to the new statement list, and the append is not reachable after the merge within an iteration", "a statement can be dropped without having been merged, or is kept although its arguments were merged into the run head")
}

// indexedStatements: does any subinclude() call take an element of a slice addressed by an explicit index expression
// (as opposed to a range value)? Then simplify is in the index form and the i / i+1 clauses apply.
func (p *Prog) indexedStatements(calls []*ssa.Call) bool {
	for _, c := range calls {
		for x := range backSlice(c.Call.Args[0], SliceOpts{}) {
			if ia, ok := x.(*ssa.IndexAddr); ok {
				if ph, ok := ia.Index.(*ssa.BinOp); ok {
					if cm := ph.Referrers(); cm != nil {
						// the rangeindex increment feeds the loop test; an explicit index does not have the #rangeindex comment
						if phi, ok := ph.X.(*ssa.Phi); ok && phi.Comment == "rangeindex" {
							continue
						}
					}
					return true
				}
				if _, ok := ia.Index.(*ssa.Phi); ok {
					return true
				}
				return true
			}
		}
	}
	return false
}
