package main

import (
	"go/constant"
	"go/token"
	"go/types"
	"strings"

	"golang.org/x/tools/go/ssa"
)

// ---------------------------------------------------------------- callees

func callCommon(i ssa.Instruction) *ssa.CallCommon {
	if c, ok := i.(ssa.CallInstruction); ok {
		return c.Common()
	}
	return nil
}

// calleeFunc resolves the static callee (function, method, or closure literal).
func calleeFunc(cc *ssa.CallCommon) *ssa.Function {
	if cc == nil {
		return nil
	}
	return cc.StaticCallee()
}

// calleeOrigin is the static callee with generic instantiations mapped back
// to their generic origin.
func calleeOrigin(cc *ssa.CallCommon) *ssa.Function {
	fn := calleeFunc(cc)
	if fn != nil && fn.Origin() != nil {
		return fn.Origin()
	}
	return fn
}

// callsFn: instruction i is a call/go/defer whose static callee is one of fns.
func callsFn(i ssa.Instruction, fns ...*ssa.Function) bool {
	cc := callCommon(i)
	if cc == nil {
		return false
	}
	c := calleeOrigin(cc)
	if c == nil {
		return false
	}
	for _, f := range fns {
		if f != nil && c == f {
			return true
		}
	}
	return false
}

func shorten(s string) string {
	s = strings.ReplaceAll(s, modPath+"/src/", "")
	s = strings.ReplaceAll(s, modPath+"/", "")
	return s
}

// calleeName is a resolved, spelling-independent-of-call-site name:
// "os.Getenv", "(*core.BuildTarget).SetState", "(io.Writer).Write" for
// interface calls, "builtin.close", or the closure's name.
func calleeName(cc *ssa.CallCommon) string {
	if cc == nil {
		return ""
	}
	if cc.IsInvoke() {
		return shorten(cc.Method.FullName())
	}
	switch v := cc.Value.(type) {
	case *ssa.Builtin:
		return "builtin." + v.Name()
	}
	if fn := cc.StaticCallee(); fn != nil {
		if fn.Origin() != nil {
			fn = fn.Origin()
		}
		if o := fn.Object(); o != nil {
			if f, ok := o.(*types.Func); ok {
				return shorten(f.FullName())
			}
		}
		return shorten(fn.String())
	}
	return "dynamic"
}

func isCallTo(i ssa.Instruction, names ...string) bool {
	cc := callCommon(i)
	if cc == nil {
		return false
	}
	n := calleeName(cc)
	for _, want := range names {
		if n == want {
			return true
		}
	}
	return false
}

// eachInstr visits the instructions of fn (and, if anon, of its nested closures).
func eachInstr(fn *ssa.Function, anon bool, f func(in *ssa.Function, i ssa.Instruction)) {
	if fn == nil {
		return
	}
	for _, b := range fn.Blocks {
		for _, i := range b.Instrs {
			f(fn, i)
		}
	}
	if anon {
		for _, a := range fn.AnonFuncs {
			eachInstrAnon(a, f)
		}
		for _, g := range satellitesOf(fn) {
			eachInstrAnon(g, f)
		}
	}
}

// eachInstrS visits fn's own instructions and those of its satellites (private helpers that exist only for fn):
// not closures, which may run later or elsewhere.
func eachInstrS(fn *ssa.Function, f func(in *ssa.Function, i ssa.Instruction)) {
	eachInstr(fn, false, f)
	for _, g := range satellitesOf(fn) {
		for _, b := range g.Blocks {
			for _, i := range b.Instrs {
				f(g, i)
			}
		}
	}
}

// callsInFnS: callsInFn over fn and its satellites.
func callsInFnS(fn *ssa.Function, target *ssa.Function) []ssa.Instruction {
	var out []ssa.Instruction
	eachInstrS(fn, func(_ *ssa.Function, i ssa.Instruction) {
		if callsFn(i, target) {
			out = append(out, i)
		}
	})
	return out
}

// eachInstrAnon visits fn and its nested closures (no satellites: the caller already has the whole region).
func eachInstrAnon(fn *ssa.Function, f func(in *ssa.Function, i ssa.Instruction)) {
	for _, b := range fn.Blocks {
		for _, i := range b.Instrs {
			f(fn, i)
		}
	}
	for _, a := range fn.AnonFuncs {
		eachInstrAnon(a, f)
	}
}

// callsIn returns the call-like instructions (call, go, defer) of fn whose
// callee name matches one of names (all if names empty).
func callsIn(fn *ssa.Function, anon bool, names ...string) []ssa.Instruction {
	var out []ssa.Instruction
	eachInstr(fn, anon, func(_ *ssa.Function, i ssa.Instruction) {
		if cc := callCommon(i); cc != nil {
			if len(names) == 0 || isCallTo(i, names...) {
				out = append(out, i)
			}
		}
	})
	return out
}

// closure returns the functions reachable from roots through static calls and
// closure creation, limited to repository functions accepted by keep, to depth.
func (p *Prog) closure(roots []*ssa.Function, depth int, keep func(*ssa.Function) bool) []*ssa.Function {
	// remaining depth with which each function was expanded: a function first reached with its depth
	// budget exhausted must be expanded again when it is reached (or given as a root) with more budget
	seen := map[*ssa.Function]int{}
	var out []*ssa.Function
	var walk func(f *ssa.Function, d int)
	walk = func(f *ssa.Function, d int) {
		if f == nil || f.Blocks == nil {
			return
		}
		if prev, ok := seen[f]; ok && prev >= d {
			return
		}
		if keep != nil && !keep(f) {
			return
		}
		if _, ok := seen[f]; !ok {
			out = append(out, f)
		}
		seen[f] = d
		if d == 0 {
			return
		}
		for _, b := range f.Blocks {
			for _, i := range b.Instrs {
				if cc := callCommon(i); cc != nil {
					if g := cc.StaticCallee(); g != nil {
						if isSatelliteOf(g, f) {
							walk(g, d) // a private helper of f is part of f: extracting it must not use up the depth budget
						} else {
							walk(g, d-1)
						}
					} else if cc.IsInvoke() {
						for _, g := range p.implementations(cc) {
							walk(g, d-1)
						}
					}
					for _, a := range cc.Args {
						if mc, ok := a.(*ssa.MakeClosure); ok {
							walk(mc.Fn.(*ssa.Function), d-1)
						} else if g, ok := a.(*ssa.Function); ok {
							walk(g, d-1)
						}
					}
				}
				if mc, ok := i.(*ssa.MakeClosure); ok {
					walk(mc.Fn.(*ssa.Function), d)
				}
			}
		}
	}
	for _, r := range roots {
		walk(r, depth)
	}
	return out
}

// implementations resolves an interface method call to the repository's
// concrete methods implementing that interface (CHA restricted to repo types).
func (p *Prog) implementations(cc *ssa.CallCommon) []*ssa.Function {
	if !cc.IsInvoke() {
		return nil
	}
	iface, ok := cc.Value.Type().Underlying().(*types.Interface)
	if !ok {
		return nil
	}
	var out []*ssa.Function
	for _, pk := range p.Pkgs {
		sc := pk.Types.Scope()
		for _, n := range sc.Names() {
			tn, ok := sc.Lookup(n).(*types.TypeName)
			if !ok || tn.IsAlias() {
				continue
			}
			named, ok := tn.Type().(*types.Named)
			if !ok || named.TypeParams().Len() > 0 {
				continue
			}
			if _, isI := named.Underlying().(*types.Interface); isI {
				continue
			}
			for _, t := range []types.Type{named, types.NewPointer(named)} {
				if types.Implements(t, iface) {
					ms := p.SSA.MethodSets.MethodSet(t)
					if sel := ms.Lookup(cc.Method.Pkg(), cc.Method.Name()); sel != nil {
						if fn := p.SSA.MethodValue(sel); fn != nil {
							if fn.Synthetic != "" {
								if o, ok := sel.Obj().(*types.Func); ok {
									if d := p.SSA.FuncValue(o); d != nil {
										fn = d
									}
								}
							}
							out = append(out, fn)
						}
					}
					break
				}
			}
		}
	}
	return out
}

// ---------------------------------------------------------------- CFG

func instrIndex(i ssa.Instruction) int {
	for k, x := range i.Block().Instrs {
		if x == i {
			return k
		}
	}
	return -1
}

// instrDominates: every path from entry to b passes through a.
func instrDominates(a, b ssa.Instruction) bool {
	if a.Parent() != b.Parent() {
		return false
	}
	if a.Block() == b.Block() {
		return instrIndex(a) < instrIndex(b)
	}
	return a.Block().Dominates(b.Block())
}

// reachableBlocks from entry with one edge removed (from -> from.Succs[succ]).
func reachableWithoutEdge(fn *ssa.Function, from *ssa.BasicBlock, succ int) map[*ssa.BasicBlock]bool {
	seen := map[*ssa.BasicBlock]bool{}
	var st []*ssa.BasicBlock
	if len(fn.Blocks) == 0 {
		return seen
	}
	st = append(st, fn.Blocks[0])
	seen[fn.Blocks[0]] = true
	for len(st) > 0 {
		b := st[len(st)-1]
		st = st[:len(st)-1]
		for k, s := range b.Succs {
			if b == from && k == succ {
				// a block can list the same successor twice (if c {} with empty arms)
				continue
			}
			if !seen[s] {
				seen[s] = true
				st = append(st, s)
			}
		}
	}
	return seen
}

// Fact: at some program point, value V (an If condition) is known to be Val.
type Fact struct {
	V   ssa.Value
	Val bool
}

type factCache struct {
	fn     *ssa.Function
	ifs    []*ssa.If
	reach  map[[2]int]map[*ssa.BasicBlock]bool // (block index, succ) -> reachable without that edge
	live   map[*ssa.BasicBlock]bool
	recovr *ssa.BasicBlock
}

var factCaches = map[*ssa.Function]*factCache{}

func factsFor(fn *ssa.Function) *factCache {
	if fc := factCaches[fn]; fc != nil {
		return fc
	}
	fc := &factCache{fn: fn, reach: map[[2]int]map[*ssa.BasicBlock]bool{}}
	for _, b := range fn.Blocks {
		if len(b.Instrs) == 0 {
			continue
		}
		if iff, ok := b.Instrs[len(b.Instrs)-1].(*ssa.If); ok {
			fc.ifs = append(fc.ifs, iff)
		}
	}
	factCaches[fn] = fc
	return fc
}

func (fc *factCache) edgeDominates(from *ssa.BasicBlock, succ int, target *ssa.BasicBlock) bool {
	k := [2]int{from.Index, succ}
	r := fc.reach[k]
	if r == nil {
		r = reachableWithoutEdge(fc.fn, from, succ)
		fc.reach[k] = r
	}
	return !r[target]
}

// condFacts returns the branch conditions known on entry to block b: for each
// `if c` whose true (false) edge dominates b, (c, true) ((c,false)). Negations
// are unwrapped, so facts are always about the un-negated value.
func condFacts(b *ssa.BasicBlock) []Fact {
	fn := b.Parent()
	fc := factsFor(fn)
	if fc.live == nil {
		fc.live = reachableWithoutEdge(fn, nil, -1)
	}
	if !fc.live[b] {
		return nil // e.g. the synthetic recover block: not reachable from entry, every "fact" would hold vacuously
	}
	var out []Fact
	for _, iff := range fc.ifs {
		ib := iff.Block()
		if len(ib.Succs) != 2 || ib.Succs[0] == ib.Succs[1] {
			continue
		}
		for k := 0; k < 2; k++ {
			if fc.edgeDominates(ib, k, b) {
				out = append(out, normFact(iff.Cond, k == 0))
			}
		}
	}
	return append(expandFacts(out), contextFacts(fn)...)
}

var contextMemo = map[*ssa.Function][]Fact{}
var contextBusy = map[*ssa.Function]bool{}

// contextFacts: what is known at every call of a private helper holds throughout the helper (facts are about the
// callers' values). An extracted piece of a function keeps the guards it was written under.
func contextFacts(fn *ssa.Function) []Fact {
	if fn.Parent() != nil {
		return nil
	}
	if r, ok := contextMemo[fn]; ok {
		return r
	}
	sites := privateCallSites(fn)
	if len(sites) == 0 || contextBusy[fn] || len(contextBusy) >= 2 {
		return nil
	}
	contextBusy[fn] = true
	defer delete(contextBusy, fn)
	var common []Fact
	for k, s := range sites {
		fs := condFacts(s.Block())
		if k == 0 {
			common = append(common, fs...)
			continue
		}
		var keep []Fact
		for _, c := range common {
			for _, f := range fs {
				if f == c {
					keep = append(keep, c)
					break
				}
			}
		}
		common = keep
	}
	contextMemo[fn] = common
	return common
}

// edgeFacts: facts known when control flows along pred -> b (includes facts of pred).
func edgeFacts(pred, b *ssa.BasicBlock) []Fact {
	out := condFacts(pred)
	if len(pred.Instrs) > 0 {
		if iff, ok := pred.Instrs[len(pred.Instrs)-1].(*ssa.If); ok && len(pred.Succs) == 2 && pred.Succs[0] != pred.Succs[1] {
			if pred.Succs[0] == b {
				out = append(out, expandFacts([]Fact{normFact(iff.Cond, true)})...)
			} else if pred.Succs[1] == b {
				out = append(out, expandFacts([]Fact{normFact(iff.Cond, false)})...)
			}
		}
	}
	return out
}

func normFact(v ssa.Value, val bool) Fact {
	for {
		if u, ok := v.(*ssa.UnOp); ok && u.Op == token.NOT {
			v = u.X
			val = !val
			continue
		}
		break
	}
	return Fact{v, val}
}

// isNilCmp recognises `x == nil` / `x != nil`; returns x and whether the op is EQL.
func isNilCmp(v ssa.Value) (x ssa.Value, eq bool, ok bool) {
	b, isB := v.(*ssa.BinOp)
	if !isB || (b.Op != token.EQL && b.Op != token.NEQ) {
		return nil, false, false
	}
	if isNilConst(b.Y) {
		return b.X, b.Op == token.EQL, true
	}
	if isNilConst(b.X) {
		return b.Y, b.Op == token.EQL, true
	}
	return nil, false, false
}

func isNilConst(v ssa.Value) bool {
	c, ok := v.(*ssa.Const)
	return ok && c.Value == nil
}

func constBool(v ssa.Value) (bool, bool) {
	c, ok := v.(*ssa.Const)
	if !ok || c.Value == nil || c.Value.Kind() != constant.Bool {
		return false, false
	}
	return constant.BoolVal(c.Value), true
}

func constString(v ssa.Value) (string, bool) {
	c, ok := v.(*ssa.Const)
	if !ok || c.Value == nil || c.Value.Kind() != constant.String {
		return "", false
	}
	return constant.StringVal(c.Value), true
}

func constInt(v ssa.Value) (int64, bool) {
	c, ok := v.(*ssa.Const)
	if !ok || c.Value == nil || c.Value.Kind() != constant.Int {
		return 0, false
	}
	n, ok := constant.Int64Val(c.Value)
	return n, ok
}

// existsPath reports whether control can flow from just after `from` (or from
// function entry if from == nil) to `to` (or to any normal return if to == nil)
// without executing an instruction in avoid. Panic exits are not returns.
func existsPath(fn *ssa.Function, from ssa.Instruction, to ssa.Instruction, avoid func(ssa.Instruction) bool) bool {
	type start struct {
		b   *ssa.BasicBlock
		idx int
	}
	if len(fn.Blocks) == 0 {
		return false
	}
	avoid = withCallSummaries(fn, avoid)
	s := start{fn.Blocks[0], 0}
	if from != nil {
		s = start{from.Block(), instrIndex(from) + 1}
	}
	seen := map[*ssa.BasicBlock]bool{}
	// scan returns true if target hit; pushes successors if the block end is reached.
	var st []*ssa.BasicBlock
	scan := func(b *ssa.BasicBlock, idx int) bool {
		for k := idx; k < len(b.Instrs); k++ {
			in := b.Instrs[k]
			if to != nil && in == to {
				return true
			}
			if avoid != nil && avoid(in) {
				return false
			}
			if to == nil {
				if _, ok := in.(*ssa.Return); ok {
					return true
				}
			}
		}
		for k, sc := range b.Succs {
			if len(b.Succs) == 2 && len(b.Instrs) > 0 {
				// a branch on a constant follows only the live edge
				if iff, ok := b.Instrs[len(b.Instrs)-1].(*ssa.If); ok {
					if cb, isC := constBool(iff.Cond); isC && cb != (k == 0) {
						continue
					}
				}
			}
			if !seen[sc] {
				seen[sc] = true
				st = append(st, sc)
			}
		}
		return false
	}
	if scan(s.b, s.idx) {
		return true
	}
	for len(st) > 0 {
		b := st[len(st)-1]
		st = st[:len(st)-1]
		if scan(b, 0) {
			return true
		}
	}
	return false
}

// ---------------------------------------------------------------- value flow

// storesTo returns the values stored through address a (a local Alloc, also
// when captured by closures), looking at all referrers.
func storesTo(a ssa.Value) []ssa.Value {
	var out []ssa.Value
	seen := map[ssa.Value]bool{}
	var walk func(addr ssa.Value)
	walk = func(addr ssa.Value) {
		if addr == nil || seen[addr] {
			return
		}
		seen[addr] = true
		refs := addr.Referrers()
		if refs == nil {
			return
		}
		for _, r := range *refs {
			switch r := r.(type) {
			case *ssa.Store:
				if r.Addr == addr {
					out = append(out, r.Val)
				}
			case *ssa.MakeClosure:
				fn := r.Fn.(*ssa.Function)
				for k, bnd := range r.Bindings {
					if bnd == addr && k < len(fn.FreeVars) {
						walk(fn.FreeVars[k])
					}
				}
			}
		}
	}
	walk(a)
	return out
}

// freeVarBinding resolves a FreeVar to the value bound in the parent's MakeClosure.
func freeVarBinding(fv *ssa.FreeVar) ssa.Value {
	fn := fv.Parent()
	par := fn.Parent()
	if par == nil {
		return nil
	}
	idx := -1
	for k, f := range fn.FreeVars {
		if f == fv {
			idx = k
		}
	}
	if idx < 0 {
		return nil
	}
	var found ssa.Value
	eachInstr(par, false, func(_ *ssa.Function, i ssa.Instruction) {
		if mc, ok := i.(*ssa.MakeClosure); ok && mc.Fn == fn && idx < len(mc.Bindings) {
			found = mc.Bindings[idx]
		}
	})
	return found
}

// SliceOpts tune backSlice.
type SliceOpts struct {
	Interproc  int                                 // follow static callees' return values to this depth
	Prog       *Prog                               // needed for interface resolution when Interproc > 0
	StopAtCall func(c *ssa.Call) bool              // do not look through this call's arguments
	Visit      func(v ssa.Value, in *ssa.Function) // called for every value in the slice
	// ArgsOf controls whether the arguments of a call contribute to its result
	// (default: yes — conservative for "derived from" questions).
	NoCallArgs bool
	// NoLookupIndex: do not treat the index of a map/string lookup as contributing to its result.
	NoLookupIndex bool
}

// backSlice computes the set of values that v is data-derived from.
func backSlice(v ssa.Value, o SliceOpts) map[ssa.Value]bool {
	seen := map[ssa.Value]bool{}
	type frame struct{ call *ssa.Call }
	var walk func(v ssa.Value, stack []*ssa.Call, depth int)
	walk = func(v ssa.Value, stack []*ssa.Call, depth int) {
		if v == nil || seen[v] {
			return
		}
		seen[v] = true
		if o.Visit != nil {
			var in *ssa.Function
			if i, ok := v.(ssa.Instruction); ok {
				in = i.Parent()
			} else if p, ok := v.(*ssa.Parameter); ok {
				in = p.Parent()
			}
			o.Visit(v, in)
		}
		switch x := v.(type) {
		case *ssa.Const, *ssa.Global, *ssa.Function, *ssa.Builtin:
		case *ssa.Parameter:
			if len(stack) == 0 && x.Parent().Parent() != nil {
				// parameter of a local closure: (a) a range-over-func body / callback passed to a
				// call: it receives what the callee yields, i.e. it derives from the called
				// iterator value and its operands; (b) a closure called locally: the arguments at
				// its call sites in the enclosing function and its other closures.
				fn := x.Parent()
				pidx := -1
				for k, prm := range fn.Params {
					if prm == x {
						pidx = k
					}
				}
				for _, g := range withAnon(topFunc(fn)) {
					eachInstr(g, false, func(_ *ssa.Function, i ssa.Instruction) {
						cc := callCommon(i)
						if cc == nil {
							return
						}
						for _, a := range cc.Args {
							if mc, ok := a.(*ssa.MakeClosure); ok && mc.Fn == fn {
								walk(cc.Value, nil, depth+1)
								for _, b := range cc.Args {
									if b != a {
										walk(b, nil, depth+1)
									}
								}
							}
						}
						if resolveCalleeDeep(cc) == fn && cc.StaticCallee() == nil || (cc.StaticCallee() == fn) {
							if pidx >= 0 && pidx < len(cc.Args) {
								walk(cc.Args[pidx], nil, depth+1)
							}
						}
					})
				}
			}
			// parameter of a private helper reached from inside it: what every caller passes (an extracted piece of a
			// function reads the same values through its parameters)
			if len(stack) == 0 && x.Parent().Parent() == nil && depth < 40 {
				fn := x.Parent()
				if sites := privateCallSites(fn); len(sites) > 0 && len(sites) <= 4 {
					for k, prm := range fn.Params {
						if prm != x {
							continue
						}
						for _, st := range sites {
							if cc := callCommon(st); cc != nil && k < len(cc.Args) {
								walk(cc.Args[k], nil, depth+20)
							}
						}
					}
				}
			}
			// map back to the argument at the call on the stack, if we came from there
			if len(stack) > 0 {
				c := stack[len(stack)-1]
				if callee := c.Call.StaticCallee(); callee == x.Parent() {
					for k, prm := range callee.Params {
						if prm == x {
							args := c.Call.Args
							if k < len(args) {
								walk(args[k], stack[:len(stack)-1], depth+1)
							}
						}
					}
				} else if c.Call.IsInvoke() {
					// receiver is Params[0]
					for k, prm := range x.Parent().Params {
						if prm == x {
							if k == 0 {
								walk(c.Call.Value, stack[:len(stack)-1], depth+1)
							} else if k-1 < len(c.Call.Args) {
								walk(c.Call.Args[k-1], stack[:len(stack)-1], depth+1)
							}
						}
					}
				}
			}
		case *ssa.FreeVar:
			if b := freeVarBinding(x); b != nil {
				walk(b, stack, depth)
			}
		case *ssa.Alloc:
			for _, s := range storesTo(x) {
				walk(s, stack, depth)
			}
			// stores through element/field addresses of this alloc
			if refs := x.Referrers(); refs != nil {
				for _, r := range *refs {
					switch r := r.(type) {
					case *ssa.IndexAddr:
						for _, s := range storesTo(r) {
							walk(s, stack, depth)
						}
					case *ssa.FieldAddr:
						for _, s := range storesTo(r) {
							walk(s, stack, depth)
						}
					}
				}
			}
		case *ssa.Phi:
			for _, e := range x.Edges {
				walk(e, stack, depth)
			}
		case *ssa.UnOp:
			walk(x.X, stack, depth)
		case *ssa.BinOp:
			walk(x.X, stack, depth)
			walk(x.Y, stack, depth)
		case *ssa.FieldAddr:
			walk(x.X, stack, depth)
		case *ssa.Field:
			walk(x.X, stack, depth)
		case *ssa.IndexAddr:
			walk(x.X, stack, depth)
			// element stores into the same backing value
			if a, ok := x.X.(*ssa.Alloc); ok {
				walk(a, stack, depth)
			}
		case *ssa.Index:
			walk(x.X, stack, depth)
		case *ssa.Lookup:
			walk(x.X, stack, depth)
			if !o.NoLookupIndex {
				walk(x.Index, stack, depth)
			}
		case *ssa.Slice:
			walk(x.X, stack, depth)
		case *ssa.Convert:
			walk(x.X, stack, depth)
		case *ssa.ChangeType:
			walk(x.X, stack, depth)
		case *ssa.ChangeInterface:
			walk(x.X, stack, depth)
		case *ssa.MakeInterface:
			walk(x.X, stack, depth)
		case *ssa.SliceToArrayPointer:
			walk(x.X, stack, depth)
		case *ssa.MultiConvert:
			walk(x.X, stack, depth)
		case *ssa.TypeAssert:
			walk(x.X, stack, depth)
		case *ssa.Extract:
			walk(x.Tuple, stack, depth)
		case *ssa.Next:
			walk(x.Iter, stack, depth)
		case *ssa.Range:
			walk(x.X, stack, depth)
		case *ssa.Select:
			for _, st := range x.States {
				walk(st.Chan, stack, depth)
			}
		case *ssa.MakeClosure:
			for _, b := range x.Bindings {
				walk(b, stack, depth)
			}
		case *ssa.MakeSlice, *ssa.MakeMap, *ssa.MakeChan:
			// element stores are reached through IndexAddr/MapUpdate referrers
			if refs := x.(ssa.Value).Referrers(); refs != nil {
				for _, r := range *refs {
					switch r := r.(type) {
					case *ssa.MapUpdate:
						if r.Map == v {
							walk(r.Key, stack, depth)
							walk(r.Value, stack, depth)
						}
					case *ssa.IndexAddr:
						for _, s := range storesTo(r) {
							walk(s, stack, depth)
						}
					}
				}
			}
		case *ssa.Call:
			if o.StopAtCall != nil && o.StopAtCall(x) {
				return
			}
			followed := false
			if o.Interproc > 0 && len(stack) < o.Interproc {
				var callees []*ssa.Function
				if g := x.Call.StaticCallee(); g != nil && g.Blocks != nil {
					callees = []*ssa.Function{g}
				} else if x.Call.IsInvoke() && o.Prog != nil {
					callees = o.Prog.implementations(&x.Call)
				}
				for _, g := range callees {
					if g.Blocks == nil {
						continue
					}
					followed = true
					ns := append(append([]*ssa.Call{}, stack...), x)
					for _, b := range g.Blocks {
						for _, in := range b.Instrs {
							if ret, ok := in.(*ssa.Return); ok {
								for _, rv := range ret.Results {
									walk(rv, ns, depth+1)
								}
							}
						}
					}
				}
			}
			if !followed && !o.NoCallArgs {
				if x.Call.IsInvoke() {
					walk(x.Call.Value, stack, depth)
				} else {
					walk(x.Call.Value, stack, depth)
				}
				for _, a := range x.Call.Args {
					walk(a, stack, depth)
				}
			}
		}
	}
	walk(v, nil, 0)
	return seen
}

// derivedFromCall: is v data-derived from the result of a call to one of names?
func derivedFromCall(v ssa.Value, o SliceOpts, names ...string) bool {
	for x := range backSlice(v, o) {
		if c, ok := x.(*ssa.Call); ok && isCallTo(c, names...) {
			return true
		}
	}
	return false
}

// fieldOf returns the struct field accessed by a FieldAddr/Field value.
func fieldOf(v ssa.Value) *types.Var {
	switch x := v.(type) {
	case *ssa.FieldAddr:
		t := x.X.Type().Underlying()
		if pt, ok := t.(*types.Pointer); ok {
			if st, ok := pt.Elem().Underlying().(*types.Struct); ok {
				return st.Field(x.Field)
			}
		}
	case *ssa.Field:
		if st, ok := x.X.Type().Underlying().(*types.Struct); ok {
			return st.Field(x.Field)
		}
	}
	return nil
}

// fieldOwner names the struct type declaring field f ("core.BuildTarget").
func fieldKey(v ssa.Value) string {
	var recv types.Type
	var idx int
	switch x := v.(type) {
	case *ssa.FieldAddr:
		recv = x.X.Type()
		idx = x.Field
	case *ssa.Field:
		recv = x.X.Type()
		idx = x.Field
	default:
		return ""
	}
	if pt, ok := recv.Underlying().(*types.Pointer); ok {
		recv = pt.Elem()
	}
	st, ok := recv.Underlying().(*types.Struct)
	if !ok {
		return ""
	}
	name := "struct"
	if n, ok := recv.(*types.Named); ok {
		name = n.Obj().Name()
		if n.Obj().Pkg() != nil {
			name = shorten(n.Obj().Pkg().Path()) + "." + name
		}
	}
	return name + "." + st.Field(idx).Name()
}

// unspill undoes go/ssa's spilling of results in functions that have defers:
// `*t0 = v; rundefers; t7 = *t0; return t7` — the load of a result local is
// replaced by the value last stored to it in the same block. (A deferred closure
// that assigns a named result could change it; such functions keep the load.)
func unspill(v ssa.Value) ssa.Value {
	u, ok := v.(*ssa.UnOp)
	if !ok || u.Op != token.MUL {
		return v
	}
	a, ok := u.X.(*ssa.Alloc)
	if !ok {
		return v
	}
	// the load must be the one feeding a return after `rundefers` (a named result that a
	// deferred closure captures is still spilled this way; the closure's own assignments
	// happen on the recover path and are not part of the return statement's value)
	afterDefers := false
	for k := instrIndex(u) - 1; k >= 0; k-- {
		if _, ok := u.Block().Instrs[k].(*ssa.RunDefers); ok {
			afterDefers = true
			break
		}
		if _, ok := u.Block().Instrs[k].(*ssa.UnOp); !ok {
			break
		}
	}
	if !afterDefers {
		return v
	}
	b := u.Block()
	idx := instrIndex(u)
	for k := idx - 1; k >= 0; k-- {
		if st, ok := b.Instrs[k].(*ssa.Store); ok && st.Addr == a {
			return st.Val
		}
	}
	return v
}

// returnsOf lists the Return instructions of fn.
func returnsOf(fn *ssa.Function) []*ssa.Return {
	var out []*ssa.Return
	for _, b := range fn.Blocks {
		if b == fn.Recover {
			continue // synthetic return taken only after a recovered panic
		}
		for _, i := range b.Instrs {
			if r, ok := i.(*ssa.Return); ok {
				out = append(out, r)
			}
		}
	}
	return out
}

// RetCase is one way a function can return: the concrete result values once
// phis over constants are expanded, and the branch facts known on that way.
type RetCase struct {
	Ret   *ssa.Return
	Vals  []ssa.Value
	Facts []Fact
	Site  token.Pos
}

// returnCases expands result idx of every return through phis (to depth 3),
// attaching the facts known on each incoming edge.
func returnCases(fn *ssa.Function, idx int) []RetCase {
	var out []RetCase
	for _, ret := range returnsOf(fn) {
		if idx >= len(ret.Results) {
			continue
		}
		base := condFacts(ret.Block())
		var expand func(v ssa.Value, facts []Fact, depth int, seen map[*ssa.Phi]bool)
		expand = func(v ssa.Value, facts []Fact, depth int, seen map[*ssa.Phi]bool) {
			if phi, ok := v.(*ssa.Phi); ok && depth < 4 && !seen[phi] {
				seen[phi] = true
				for k, e := range phi.Edges {
					pred := phi.Block().Preds[k]
					f2 := append(append([]Fact{}, facts...), edgeFacts(pred, phi.Block())...)
					expand(e, f2, depth+1, seen)
				}
				delete(seen, phi)
				return
			}
			vals := append([]ssa.Value{}, ret.Results...)
			vals[idx] = v
			out = append(out, RetCase{Ret: ret, Vals: vals, Facts: facts, Site: ret.Pos()})
		}
		expand(unspill(ret.Results[idx]), base, 0, map[*ssa.Phi]bool{})
	}
	return out
}

// hasFact: is there a fact about a value satisfying pred with the given truth?
func hasFact(facts []Fact, val bool, pred func(ssa.Value) bool) bool {
	for _, f := range facts {
		if f.Val == val && pred(f.V) {
			return true
		}
	}
	return false
}

// unwrapCallResult: v is (an Extract of) a call to one of names.
func isResultOf(v ssa.Value, names ...string) bool {
	switch x := v.(type) {
	case *ssa.Call:
		return isCallTo(x, names...)
	case *ssa.Extract:
		if c, ok := x.Tuple.(*ssa.Call); ok {
			return isCallTo(c, names...)
		}
	}
	return false
}

func typeString(t types.Type) string { return shorten(t.String()) }
