package main

import (
	"go/token"
	"go/types"
	"strings"

	"golang.org/x/tools/go/ssa"
)

func init() {
	register("C28", []string{"./src/remote/...", "./src/core/..."}, checkC28)
}

const pbDir = "github.com/bazelbuild/remote-apis/build/bazel/remote/execution/v2.Directory."

func checkC28(p *Prog, r *Report) {
	r.Explanation = "Structural clauses of canonical remote digests. (1) canonical before digest: in dirBuilder.walk the call that serialises/digests the Directory (uploadinfo.EntryFromProto) is dominated, for each of Files, Directories and Symlinks, by a sort of that field's slice whose comparator orders by Name, and by a de-duplication loop that keeps an element only when its Name differs from the last kept one; child digests are computed before the parent is serialised. (2) the only place package remote serialises a Directory it built itself is that walk (who-may-call on EntryFromProto / digestMessage with a locally built Directory). (3) delete-while-iterating lint: no slices.Delete at the induction index of a loop that then advances the index anyway (the element that slides into place is never examined). (4) E4 map-order rule over the closure of buildCommand, buildEnv, targetPlatformProperties, uploadInputDir: every range over a map ends in a sort before its data escapes. (5) environment variables of the Command are sorted by name."
	r.NotCovered = []string{"which duplicate survives de-duplication", "server behaviour", "the Tree protos received from the server (digested as received)"}
	walk := p.Fn("remote", "dirBuilder.walk")
	if walk == nil {
		r.unresolved("E5.canonical-before-digest", "remote.dirBuilder.walk")
		return
	}
	rule := "E5.canonical-before-digest"
	var ser *ssa.Call
	eachInstr(walk, false, func(_ *ssa.Function, i ssa.Instruction) {
		if c, ok := i.(*ssa.Call); ok && (strings.HasSuffix(calleeName(&c.Call), "uploadinfo.EntryFromProto") || strings.HasSuffix(calleeName(&c.Call), ".digestMessage") || strings.HasSuffix(calleeName(&c.Call), "proto.Marshal")) {
			ser = c
		}
	})
	if ser == nil {
		r.unresolved(rule, "serialisation of the Directory in dirBuilder.walk")
		return
	}
	for _, field := range []string{"Files", "Directories", "Symlinks"} {
		key := pbDir + field
		// sort of this field's slice
		var srt *ssa.Call
		byName := false
		eachInstr(walk, false, func(_ *ssa.Function, i ssa.Instruction) {
			c, ok := i.(*ssa.Call)
			if !ok || !isCallTo(c, "sort.Slice", "sort.SliceStable", "slices.SortFunc", "slices.SortStableFunc", "sort.Sort", "sort.Stable") {
				return
			}
			if !tagsOf(c.Call.Args[0], SliceOpts{})[key] {
				return
			}
			srt = c
			// comparator orders by Name
			if len(c.Call.Args) > 1 {
				if g := closureOfArg(c.Call.Args[1]); g != nil {
					eachInstr(g, false, func(_ *ssa.Function, j ssa.Instruction) {
						if bo, ok := j.(*ssa.BinOp); ok && (bo.Op == token.LSS || bo.Op == token.GTR) {
							for t := range tagsOf(bo.X, SliceOpts{}) {
								if strings.HasSuffix(t, "Node.Name") {
									byName = true
								}
							}
						}
						if cc, ok := j.(*ssa.Call); ok && isCallTo(cc, "strings.Compare", "cmp.Compare") {
							for t := range tagsOf(cc.Call.Args[0], SliceOpts{}) {
								if strings.HasSuffix(t, "Node.Name") {
									byName = true
								}
							}
						}
					})
				}
			}
		})
		okk := srt != nil && byName && instrDominates(srt, ser)
		r.check(okk, rule, field+" sorted by name before the Directory is serialised", p.pos(ser.Pos()), fnName(walk), "a sort of dir."+field+" by Name dominates the serialisation", "dir."+field+" is serialised without having been sorted by name in walk (e.g. relying on insertion order elsewhere): nodes appended directly by other code stay unsorted, so the input-root digest depends on declaration order and the Directory is not canonical")
		// de-duplication: an append into this field guarded by Name != last-kept
		dedup := false
		eachInstr(walk, false, func(_ *ssa.Function, i ssa.Instruction) {
			st, ok := i.(*ssa.Store)
			if !ok || fieldKey(st.Addr) != key {
				return
			}
			c, ok := st.Val.(*ssa.Call)
			if !ok {
				return
			}
			if b, ok := c.Call.Value.(*ssa.Builtin); !ok || b.Name() != "append" {
				return
			}
			for _, f := range factsAt(st) {
				if bo, ok := f.V.(*ssa.BinOp); ok && ((bo.Op == token.NEQ && f.Val) || (bo.Op == token.EQL && !f.Val)) {
					isName := false
					for t := range tagsOf(bo.X, SliceOpts{}) {
						if strings.HasSuffix(t, "Node.Name") {
							isName = true
						}
					}
					// the other operand must be loop-carried state updated with the kept element's name
					if phi, ok := bo.Y.(*ssa.Phi); ok && isName {
						for _, e := range phi.Edges {
							for t := range tagsOf(e, SliceOpts{}) {
								if strings.HasSuffix(t, "Node.Name") {
									dedup = true
								}
							}
						}
					}
				}
			}
			if srt != nil && !instrDominates(srt, st) {
				dedup = false
			}
		})
		r.check(dedup, rule, field+" de-duplicated against the last kept name", p.pos(ser.Pos()), fnName(walk), "an element is appended only when its Name differs from the name of the last kept element (after sorting)", "duplicates in dir."+field+" are not removed by comparing each element with the last kept one after sorting: a node declared three times (or more) can survive twice, which is not a canonical Directory and changes the digest")
	}
	// children first
	{
		rec := false
		for _, ci := range callsInFn(walk, walk) {
			if instrDominates(ci, ser) || existsPath(walk, ci, ser, nil) {
				rec = true
			}
		}
		r.check(rec, rule, "child digests are computed before the parent is serialised", p.pos(walk.Pos()), fnName(walk), "recursive walk precedes the serialisation", "a directory is serialised before its children's digests are filled in")
	}
	// the root directory is canonicalised like every other: Build walks "." before it returns the root
	if bld := p.Fn("remote", "dirBuilder.Build"); bld == nil {
		r.unresolved(rule, "remote.dirBuilder.Build")
	} else {
		okRoot := true
		nRet := 0
		for _, ret := range returnsOf(bld) {
			nRet++
			dom := false
			for _, ci := range callsInFn(bld, walk) {
				cc := callCommon(ci)
				for _, a := range cc.Args {
					if s, isC := constString(a); isC && s == "." && instrDominates(ci, ret) {
						dom = true
					}
				}
			}
			if !dom {
				okRoot = false
			}
		}
		r.check(okRoot && nRet > 0, rule, "the root directory goes through the canonicalising walk", p.pos(bld.Pos()), fnName(bld), "walk(\".\") dominates every return of Build", "dirBuilder.Build returns the root Directory without walking it: files and symlinks that sit directly in the repository root stay in declaration order and keep their duplicates, so the input-root digest depends on input order and the root is not a canonical Directory")
	}
	// what goes into the input root does not depend on declaration order: every declared input path is walked, and every
	// run-time dependency that the traversal reaches as a run-time dependency is yielded (the traversal's visited set also
	// holds targets that were only passed through as data and never yielded)
	if ui := p.Fn("remote", "Client.uploadInput"); ui == nil {
		r.unresolved("E5.every-input-walked", "remote.Client.uploadInput")
	} else {
		n := 0
		for _, l := range sliceRangeLoops(ui) {
			if !tagsOf(l.over, SliceOpts{})["call:(core.BuildInput).Paths"] && !strings.Contains(typeString(l.over.Type()), "string") {
				continue
			}
			hasWalk := false
			for b := range l.blocks {
				for _, i := range b.Instrs {
					if isCallTo(i, "fs.Walk", "fs.WalkMode") {
						hasWalk = true
					}
				}
			}
			if !hasWalk {
				continue
			}
			n++
			skips := l.iterationSkips(func(i ssa.Instruction) bool { return isCallTo(i, "fs.Walk", "fs.WalkMode") })
			r.check(!skips, "E5.every-input-walked", "every path of an input is walked into the input root", p.pos(l.header.Instrs[0].Pos()), fnName(ui), "no iteration over the input's paths skips the walk", "uploadInput skips an input path under some condition (e.g. when a directory of that name already exists in the builder, which is the case as soon as anything was placed beneath it): a directory source declared after a file inside it is left out, so the input-root digest depends on the order of declaration")
		}
		if n == 0 {
			r.unresolved("E5.every-input-walked", "the loop over input paths in uploadInput")
		}
	}
	if it := p.Fn("core", "BuildTarget.IterAllRuntimeDependencies"); it == nil {
		r.unresolved("E5.every-input-walked", "core.BuildTarget.IterAllRuntimeDependencies")
	} else {
		// in the loop over runtimeDependencies, the yield call is not preceded by a test of the visited set
		bad := false
		nY := 0
		for _, g := range withAnon(it) {
			for _, l := range sliceRangeLoops(g) {
				if fieldKeyOfLoad(l.over) != "core.BuildTarget.runtimeDependencies" {
					continue
				}
				eachInstr(g, false, func(_ *ssa.Function, i ssa.Instruction) {
					c, ok := i.(*ssa.Call)
					if !ok || !l.blocks[c.Block()] {
						return
					}
					if _, isPrm := c.Call.Value.(*ssa.Parameter); !isPrm {
						return
					}
					nY++
					for _, f := range factsAt(c) {
						if lk, ok := f.V.(*ssa.Lookup); ok {
							if _, isMap := lk.X.Type().Underlying().(*types.Map); isMap && l.blocks[lk.Block()] {
								bad = true
							}
						}
					}
				})
			}
		}
		if nY == 0 {
			r.unresolved("E5.every-input-walked", "the yield of run-time dependencies in IterAllRuntimeDependencies")
		} else {
			r.check(!bad, "E5.every-input-walked", "a run-time dependency is yielded whether or not the traversal has passed through it before", p.pos(it.Pos()), fnName(it), "the yield in the loop over runtimeDependencies is not guarded by the visited set", "IterAllRuntimeDependencies skips the yield for a target that is already in its visited set: that set also contains targets that were only traversed as somebody's data (and deliberately not yielded), so a target reached first as data and later as a run-time dependency is dropped, and the inputs uploaded for a test depend on the order of runtime_deps")
		}
	}
	// (2)
	rule = "E7.directory-digest-sites"
	{
		n := 0
		for _, fn := range p.Funcs("remote") {
			if topFunc(fn) == walk {
				continue
			}
			eachInstr(fn, false, func(_ *ssa.Function, i ssa.Instruction) {
				c, ok := i.(*ssa.Call)
				if !ok || !(strings.HasSuffix(calleeName(&c.Call), "uploadinfo.EntryFromProto")) {
					return
				}
				// a Directory allocated in this function (not received from the server / the builder)
				for x := range backSlice(c.Call.Args[0], SliceOpts{}) {
					if a, ok := x.(*ssa.Alloc); ok && strings.HasSuffix(typeString(a.Type()), "execution/v2.Directory") {
						n++
						r.bad(rule, "locally built Directory serialised outside dirBuilder.walk", p.pos(c.Pos()), fnName(fn), "a Directory assembled here is serialised without going through the sorting/de-duplicating walk")
					}
				}
			})
		}
		if n == 0 {
			r.ok(rule, "locally built Directories are serialised only by dirBuilder.walk", "-", "", "no other EntryFromProto on a Directory allocated in package remote")
		}
	}
	// (3)
	rule = "E9.delete-while-iterating"
	{
		n, bad := 0, 0
		for _, fn := range p.Funcs("remote") {
			eachInstr(fn, false, func(_ *ssa.Function, i ssa.Instruction) {
				c, ok := i.(*ssa.Call)
				if !ok || !isCallTo(c, "slices.Delete") || len(c.Call.Args) < 3 {
					return
				}
				n++
				phi, ok := c.Call.Args[1].(*ssa.Phi)
				if !ok {
					return
				}
				// the induction variable advances by +1 on an edge reachable from the delete without being reset
				for k, e := range phi.Edges {
					bo, ok := e.(*ssa.BinOp)
					if !ok || bo.Op != token.ADD || bo.X != ssa.Value(phi) {
						continue
					}
					pred := phi.Block().Preds[k]
					if len(pred.Instrs) > 0 && (c.Block() == pred || existsPath(fn, c, pred.Instrs[0], nil)) {
						bad++
						r.bad(rule, "slices.Delete at the loop index, index still advanced", p.pos(c.Pos()), fnName(fn), "after deleting element i the loop goes on with i+1: the element that moved into position i is never examined (e.g. a third duplicate survives de-duplication)")
					}
				}
			})
		}
		if bad == 0 {
			r.ok(rule, "no delete-at-index followed by an unconditional index advance", "-", "", itoa(n)+" slices.Delete call(s) in package remote examined")
		}
	}
	// (4)
	{
		var roots []*ssa.Function
		for _, n := range []string{"Client.buildCommand", "Client.buildEnv", "Client.targetPlatformProperties", "Client.uploadInputDir", "Client.buildAction", "Client.buildTestCommand", "Client.buildRunCommand"} {
			if f := p.Fn("remote", n); f != nil {
				roots = append(roots, f)
			}
		}
		if len(roots) < 4 {
			r.unresolved("E4.maporder", "remote command/action constructors")
		} else {
			inRemote := inRepoPkgs("remote")
			p.runMapOrder(r, "E4.maporder", roots, 3, func(f *ssa.Function) bool {
				// uploadLocalTarget builds the *set* of blobs to upload from a map; upload order is not part of any digest
				return inRemote(f) && topFunc(f).Name() != "uploadLocalTarget"
			})
			if ul := p.Fn("remote", "Client.uploadLocalTarget"); ul != nil {
				r.exempt("E4.maporder", "uploadLocalTarget: entries collected from a map", p.pos(ul.Pos()), fnName(ul), "the slice is the set of blobs handed to the uploader; its order reaches no digest or proto")
			}
		}
	}
	// (5)
	rule = "E5.env-sorted"
	{
		be := p.Fn("remote", "Client.buildEnv")
		if be == nil {
			r.unresolved(rule, "remote.Client.buildEnv")
		} else {
			okk := true
			n := 0
			for _, ret := range returnsOf(be) {
				n++
				sorted := false
				eachInstr(be, false, func(_ *ssa.Function, i ssa.Instruction) {
					if isCallTo(i, "slices.SortFunc", "sort.Slice", "sort.Sort", "slices.SortStableFunc") && instrDominates(i, ret) {
						sorted = true
					}
				})
				if !sorted {
					okk = false
				}
			}
			r.check(okk && n > 0, rule, "Command environment variables are sorted", p.pos(be.Pos()), fnName(be), "every return is dominated by a sort of the variables", "the Command's environment variables are returned in map order: the command digest differs between runs")
		}
	}
}
