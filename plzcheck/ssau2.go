package main

import (
	"go/token"
	"go/types"
	"sort"
	"strings"

	"golang.org/x/tools/go/ssa"
)

// resultOf returns result #idx of a call as it appears in SSA: the call value
// itself for single-result callees, otherwise the Extract instructions.
func resultsOf(c *ssa.Call, idx int) []ssa.Value {
	if c == nil {
		return nil
	}
	if tup, ok := c.Type().(*types.Tuple); ok {
		var out []ssa.Value
		if refs := c.Referrers(); refs != nil {
			for _, r := range *refs {
				if e, ok := r.(*ssa.Extract); ok && e.Index == idx && idx < tup.Len() {
					out = append(out, e)
				}
			}
		}
		return out
	}
	if idx == 0 {
		return []ssa.Value{c}
	}
	return nil
}

// errKnown looks for a fact about `e == nil` / `e != nil` where e is one of
// errs; returns (known, isNil).
func errKnown(facts []Fact, errs []ssa.Value) (bool, bool) {
	for _, f := range facts {
		x, eq, ok := isNilCmp(f.V)
		if !ok {
			continue
		}
		x = resolveLoad(x)
		for _, e := range errs {
			if x == e {
				return true, eq == f.Val
			}
		}
	}
	return false, false
}

// callFact looks for a fact about the boolean result of a call to one of fns.
func callFact(facts []Fact, val bool, fns ...*ssa.Function) *ssa.Call {
	for _, f := range facts {
		if f.Val != val {
			continue
		}
		if c, ok := f.V.(*ssa.Call); ok && callsFn(c, fns...) {
			return c
		}
	}
	return nil
}

// tagsOf collects line-free descriptions of what a value is derived from:
// struct fields read ("pkg.Type.Field") and callees ("call:pkg.Func").
func tagsOf(v ssa.Value, o SliceOpts) map[string]bool {
	out := map[string]bool{}
	for x := range backSlice(v, o) {
		if k := fieldKey(x); k != "" {
			out[k] = true
		}
		if c, ok := x.(*ssa.Call); ok {
			out["call:"+calleeName(&c.Call)] = true
		}
	}
	return out
}

func hasTag(t map[string]bool, names ...string) bool {
	for _, n := range names {
		if t[n] {
			return true
		}
	}
	return false
}

func tagList(t map[string]bool) string {
	var ks []string
	for k := range t {
		ks = append(ks, k)
	}
	sort.Strings(ks)
	return strings.Join(ks, ",")
}

// deepDerives: is v derived (through parameters of repository functions, to
// the given call depth) from a value satisfying pred? For a parameter every
// call site must satisfy it (all=true) or some (all=false).
func (p *Prog) deepDerives(v ssa.Value, pred func(ssa.Value) bool, depth int, o SliceOpts) bool {
	sl := backSlice(v, o)
	for x := range sl {
		if pred(x) {
			return true
		}
	}
	if depth == 0 {
		return false
	}
	for x := range sl {
		prm, ok := x.(*ssa.Parameter)
		if !ok || prm.Parent().Parent() != nil {
			continue
		}
		args := p.callSiteArgs(prm)
		if len(args) == 0 {
			continue
		}
		all := true
		for _, a := range args {
			if !p.deepDerives(a, pred, depth-1, o) {
				all = false
			}
		}
		if all {
			return true
		}
	}
	return false
}

// invokesOf lists interface method calls (invoke mode) named iface.method in fns.
func invokesOf(fns []*ssa.Function, ifaceMethod ...string) []ssa.Instruction {
	var out []ssa.Instruction
	for _, fn := range fns {
		eachInstr(fn, false, func(_ *ssa.Function, i ssa.Instruction) {
			cc := callCommon(i)
			if cc == nil || !cc.IsInvoke() {
				return
			}
			n := calleeName(cc)
			for _, w := range ifaceMethod {
				if n == w {
					out = append(out, i)
				}
			}
		})
	}
	return out
}

// dominatedByCall: some call to one of fns dominates i (same function).
func dominatedByCall(i ssa.Instruction, fns ...*ssa.Function) *ssa.Call {
	return dominatedByCallD(i, 0, fns...)
}

func dominatedByCallD(i ssa.Instruction, depth int, fns ...*ssa.Function) *ssa.Call {
	fn := i.Parent()
	var found *ssa.Call
	isTarget := func(j ssa.Instruction) bool { return callsFn(j, fns...) }
	eachInstr(fn, false, func(_ *ssa.Function, j ssa.Instruction) {
		c, ok := j.(*ssa.Call)
		if !ok || found != nil {
			return
		}
		if callsFn(c, fns...) && instrDominates(c, i) {
			found = c
			return
		}
		// a private helper of this function that makes the call on every path
		if g := c.Call.StaticCallee(); g != nil && g.Blocks != nil && depth < 2 && isSatelliteOf(g, topFunc(fn)) && instrDominates(c, i) && !existsPath(g, nil, nil, isTarget) {
			found = c
		}
	})
	if found != nil || depth >= 2 {
		return found
	}
	// i is in a private helper: the call dominates every place the helper is called from
	sites := privateCallSites(fn)
	for _, s := range sites {
		c := dominatedByCallD(s, depth+1, fns...)
		if c == nil {
			return nil
		}
		found = c
	}
	return found
}

// factsAt: branch facts known at an instruction.
func factsAt(i ssa.Instruction) []Fact { return condFacts(i.Block()) }

// isZeroValue: v is the zero value of its type (constant, or a load from a
// local that is never stored to).
func isZeroValue(v ssa.Value) bool {
	switch x := v.(type) {
	case *ssa.Const:
		if x.Value == nil {
			return true
		}
		if b, ok := constBool(x); ok {
			return !b
		}
		if n, ok := constInt(x); ok {
			return n == 0
		}
		if s, ok := constString(x); ok {
			return s == ""
		}
		return false
	case *ssa.UnOp:
		if x.Op == token.MUL {
			if a, ok := x.X.(*ssa.Alloc); ok {
				return len(storesTo(a)) == 0 && !hasFieldStores(a)
			}
		}
	}
	return false
}

func hasFieldStores(a *ssa.Alloc) bool {
	refs := a.Referrers()
	if refs == nil {
		return false
	}
	for _, r := range *refs {
		switch r := r.(type) {
		case *ssa.FieldAddr:
			if len(storesTo(r)) > 0 {
				return true
			}
		case *ssa.IndexAddr:
			if len(storesTo(r)) > 0 {
				return true
			}
		}
	}
	return false
}

// resolveLoad: a load of a local cell (also one captured by a deferred closure, e.g. a named
// result) is replaced by the value last stored to it, searching backwards in the block and up a
// chain of unique predecessors. Stores by closures only run at function exit (defer).
func resolveLoad(v ssa.Value) ssa.Value {
	u, ok := v.(*ssa.UnOp)
	if !ok || u.Op != token.MUL {
		return v
	}
	a, ok := u.X.(*ssa.Alloc)
	if !ok {
		return v
	}
	b := u.Block()
	idx := instrIndex(u)
	for hops := 0; hops < 16; hops++ {
		for k := idx - 1; k >= 0; k-- {
			if st, ok := b.Instrs[k].(*ssa.Store); ok && st.Addr == a {
				return st.Val
			}
		}
		if len(b.Preds) != 1 {
			return resolveLoadDom(u, a)
		}
		b = b.Preds[0]
		idx = len(b.Instrs)
	}
	return v
}

// resolveLoadDom: the load sits behind a join. If exactly one store to the cell in the enclosing function is the
// latest one that dominates the load, no other store of the function can run between the two, and no closure that
// captures the cell writes to it, the load yields that store's value.
func resolveLoadDom(u *ssa.UnOp, a *ssa.Alloc) ssa.Value {
	fn := u.Parent()
	var stores []*ssa.Store
	refs := a.Referrers()
	if refs == nil {
		return u
	}
	for _, rf := range *refs {
		switch x := rf.(type) {
		case *ssa.Store:
			if x.Addr == ssa.Value(a) {
				stores = append(stores, x)
			}
		case *ssa.MakeClosure:
			// a closure that captures the cell and stores into it could run at any call
			g := x.Fn.(*ssa.Function)
			for k, bnd := range x.Bindings {
				if bnd != ssa.Value(a) || k >= len(g.FreeVars) {
					continue
				}
				fv := g.FreeVars[k]
				if frefs := fv.Referrers(); frefs != nil {
					for _, fr := range *frefs {
						if st, ok := fr.(*ssa.Store); ok && st.Addr == ssa.Value(fv) {
							return u
						}
					}
				}
			}
		}
	}
	var latest *ssa.Store
	for _, st := range stores {
		if !instrDominates(st, u) {
			continue
		}
		if latest == nil || instrDominates(latest, st) {
			latest = st
		}
	}
	if latest == nil {
		return u
	}
	for _, st := range stores {
		if st == latest {
			continue
		}
		if existsPath(fn, latest, st, nil) && existsPath(fn, st, u, nil) {
			return u
		}
	}
	return latest.Val
}

// assumeField builds an assumption map: every branch in fn on a load of the named struct field takes val.
func assumeField(fn *ssa.Function, assume map[ssa.Value]bool, key string, val bool) map[ssa.Value]bool {
	if assume == nil {
		assume = map[ssa.Value]bool{}
	}
	eachInstr(fn, false, func(_ *ssa.Function, i ssa.Instruction) {
		if iff, ok := i.(*ssa.If); ok {
			f := normFact(iff.Cond, true)
			if fieldKeyOfLoad(f.V) == key {
				assume[f.V] = val
			}
		}
	})
	return assume
}

// rloop is a `for ... range slice` loop as lowered by go/ssa (rangeindex.loop).
type rloop struct {
	header *ssa.BasicBlock
	body   *ssa.BasicBlock
	over   ssa.Value // the slice whose len bounds the loop
	blocks map[*ssa.BasicBlock]bool
}

// sliceRangeLoops finds index-based range loops: header ends in `if i < len(x)`.
func sliceRangeLoops(fn *ssa.Function) []rloop {
	lb := loopBlocks(fn)
	var out []rloop
	for _, b := range fn.Blocks {
		iff, ok := lastIf(b)
		if !ok {
			continue
		}
		bo, ok := iff.Cond.(*ssa.BinOp)
		if !ok || bo.Op != token.LSS {
			continue
		}
		c, ok := bo.Y.(*ssa.Call)
		if !ok {
			continue
		}
		bi, ok := c.Call.Value.(*ssa.Builtin)
		if !ok || bi.Name() != "len" || len(c.Call.Args) != 1 {
			continue
		}
		body, isLoop := lb[b]
		if !isLoop || len(b.Succs) != 2 {
			continue
		}
		l := rloop{header: b, body: b.Succs[0], over: c.Call.Args[0], blocks: map[*ssa.BasicBlock]bool{}}
		for _, x := range body {
			l.blocks[x] = true
		}
		out = append(out, l)
	}
	return out
}

// iterationSkips: can one iteration of the loop (body entry -> back to the header) complete
// without executing an instruction satisfying must? Paths leaving the loop are ignored.
func (l rloop) iterationSkips(must func(ssa.Instruction) bool) bool {
	seen := map[*ssa.BasicBlock]bool{}
	st := []*ssa.BasicBlock{l.body}
	for len(st) > 0 {
		b := st[len(st)-1]
		st = st[:len(st)-1]
		if seen[b] {
			continue
		}
		seen[b] = true
		if b == l.header {
			return true
		}
		if !l.blocks[b] {
			continue
		}
		blocked := false
		for _, i := range b.Instrs {
			if must(i) {
				blocked = true
				break
			}
		}
		if blocked {
			continue
		}
		succs := b.Succs
		if iff, ok := lastIf(b); ok && len(succs) == 2 {
			if cb, isC := constBool(iff.Cond); isC {
				if cb {
					succs = succs[:1]
				} else {
					succs = succs[1:]
				}
			}
		}
		st = append(st, succs...)
	}
	return false
}

// iterationSkipsAssuming is iterationSkips with branch assumptions.
func (l rloop) iterationSkipsAssuming(must func(ssa.Instruction) bool, assume map[ssa.Value]bool) bool {
	seen := map[*ssa.BasicBlock]bool{}
	st := []*ssa.BasicBlock{l.body}
	for len(st) > 0 {
		b := st[len(st)-1]
		st = st[:len(st)-1]
		if seen[b] {
			continue
		}
		seen[b] = true
		if b == l.header {
			return true
		}
		if !l.blocks[b] {
			continue
		}
		blocked := false
		for _, i := range b.Instrs {
			if must(i) {
				blocked = true
				break
			}
		}
		if blocked {
			continue
		}
		succs := b.Succs
		if iff, ok := lastIf(b); ok && len(succs) == 2 {
			f := normFact(iff.Cond, true)
			if want, ok := assume[f.V]; ok {
				if want == f.Val {
					succs = succs[:1]
				} else {
					succs = succs[1:]
				}
			}
		}
		st = append(st, succs...)
	}
	return false
}

// blockJustified: a fact satisfying ok dominates b, or every edge into b carries one
// (recursively through predecessors). Used for `a || b`-style joins.
func blockJustified(b *ssa.BasicBlock, ok func(Fact) bool, depth int) bool {
	for _, f := range condFacts(b) {
		if ok(f) {
			return true
		}
	}
	if depth == 0 || len(b.Preds) == 0 {
		return false
	}
	for _, pr := range b.Preds {
		edgeOK := false
		for _, f := range edgeFacts(pr, b) {
			if ok(f) {
				edgeOK = true
			}
		}
		if !edgeOK && !blockJustified(pr, ok, depth-1) {
			return false
		}
	}
	return true
}

// closureOfArg unwraps conversions around a function literal passed as an argument.
func closureOfArg(v ssa.Value) *ssa.Function {
	for d := 0; d < 5; d++ {
		switch x := v.(type) {
		case *ssa.MakeClosure:
			return unboundMethod(x.Fn.(*ssa.Function))
		case *ssa.Function:
			return x
		case *ssa.ChangeType:
			v = x.X
		case *ssa.MakeInterface:
			v = x.X
		default:
			return nil
		}
	}
	return nil
}

// unboundMethod: for the synthetic wrapper of a method value (recv.method used as a function) the method itself
// (whose first parameter is then the receiver); any other function is returned as it is.
func unboundMethod(f *ssa.Function) *ssa.Function {
	if f != nil && strings.HasPrefix(f.Synthetic, "bound method wrapper") && theProg != nil {
		if m, ok := f.Object().(*types.Func); ok {
			if g := theProg.SSA.FuncValue(m); g != nil && g.Blocks != nil {
				return g
			}
		}
	}
	return f
}

// mapRangeLoops finds `for k, v := range m` loops over maps: header is the block holding the Next.
func mapRangeLoops(fn *ssa.Function) []rloop {
	lb := loopBlocks(fn)
	var out []rloop
	for _, b := range fn.Blocks {
		for _, in := range b.Instrs {
			nx, ok := in.(*ssa.Next)
			if !ok {
				continue
			}
			rg, ok := nx.Iter.(*ssa.Range)
			if !ok {
				continue
			}
			if _, isMap := rg.X.Type().Underlying().(*types.Map); !isMap {
				continue
			}
			body, isLoop := lb[b]
			if !isLoop || len(b.Succs) != 2 {
				continue
			}
			l := rloop{header: b, body: b.Succs[0], over: rg.X, blocks: map[*ssa.BasicBlock]bool{}}
			for _, x := range body {
				l.blocks[x] = true
			}
			out = append(out, l)
		}
	}
	return out
}
