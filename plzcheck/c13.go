package main

import (
	"go/token"
	"go/types"
	"strings"

	"golang.org/x/tools/go/ssa"
)

func init() {
	register("C13", []string{"./src/cache/...", "./src/fs/..."}, checkC13)
}

// isAbortCall: call that makes the consumer of an upload pipe fail instead of seeing a clean end of stream.
func isAbortCall(i ssa.Instruction) bool {
	cc := callCommon(i)
	if cc == nil {
		return false
	}
	switch calleeName(cc) {
	case "(*io.PipeWriter).CloseWithError", "(*io.PipeReader).CloseWithError":
		return true
	}
	// calling a context.CancelFunc (parameter, free variable or local)
	if cc.IsInvoke() {
		return false
	}
	if _, isB := cc.Value.(*ssa.Builtin); isB {
		return false
	}
	if cc.StaticCallee() == nil {
		t := cc.Value.Type()
		if n, ok := t.(*types.Named); ok && n.Obj().Name() == "CancelFunc" {
			return true
		}
		if n, ok := types.Unalias(t).(*types.Named); ok && n.Obj().Name() == "CancelFunc" {
			return true
		}
	}
	return false
}

func checkC13(p *Prog, r *Report) {
	r.Explanation = "(1) E9/E5 sibling writers: every function of package cache that builds a tar.Writer over a writer parameter (the upload pipe of the HTTP and command caches) must, on the error edge of the fs.Walk/storeFile result, reach an abort (CloseWithError on the pipe, or the command's context cancel) on every path to its return and must not reach another Walk (continue the loop); siblings are cross-checked: all writers abort. (2) E12 pair discipline: readTar, httpCache.retrieve and every (bool, error) function of the package never return (true, non-nil error) and return true only with a nil error; readTar returns true only on the io.EOF edge of tr.Next. (3) cmdCache.Retrieve returns the conjunction of the tar result and the command result, the command result is false on the cmd.Wait() error edge, and the pipe feeding readTar is never closed cleanly on its write side (a clean EOF would make a truncated stream look complete). (4) httpCache.retrieve returns false for every status other than 200."
	r.NotCovered = []string{"HTTP server semantics", "partial files left in plz-out after a failed retrieve (they are rebuilt)", "faults inside the kernel pipe"}
	// the store and the restore both rely on a read error inside a walked tree ending the walk
	p.walkSortedRule(r, "fs/E5.walk-sorted")
	p.deferredErrorNotClobbered(r, "E12.deferred-close-keeps-the-first-error", "cache", "fs")
	storeFile := p.Fn("cache", "storeFile")
	readTar := p.Fn("cache", "readTar")
	if storeFile == nil || readTar == nil {
		r.unresolved("E5.writer-aborts-on-error", "cache.storeFile / cache.readTar")
		return
	}
	// (1) writers
	rule := "E5.writer-aborts-on-error"
	nWriters := 0
	for _, fn := range p.Funcs("cache") {
		if fn.Parent() != nil {
			continue
		}
		// builds a tar.Writer and has a writer-typed parameter
		hasTar := false
		eachInstr(fn, false, func(_ *ssa.Function, i ssa.Instruction) {
			if isCallTo(i, "archive/tar.NewWriter") {
				hasTar = true
			}
		})
		var wprm *ssa.Parameter
		for _, prm := range fn.Params {
			switch typeString(prm.Type()) {
			case "io.WriteCloser", "*io.PipeWriter", "io.Writer":
				wprm = prm
			}
		}
		if !hasTar || wprm == nil {
			continue
		}
		// only upload writers: their caller passes an io.Pipe writer
		fromPipe := false
		for _, cs := range p.callers(fn) {
			cc := callCommon(cs)
			for _, a := range cc.Args {
				for x := range backSlice(a, SliceOpts{}) {
					if c, ok := x.(*ssa.Call); ok && isCallTo(c, "io.Pipe") {
						fromPipe = true
					}
				}
			}
		}
		if !fromPipe {
			continue
		}
		nWriters++
		// error edges of fs.Walk results (or of a helper of this package that returns the walk's error: storeTree(tw, root))
		var isWalkLike func(i ssa.Instruction) bool
		isWalkLike = func(i ssa.Instruction) bool {
			if isCallTo(i, "fs.Walk", "fs.WalkMode") || callsFn(i, storeFile) {
				return true
			}
			c, ok := i.(*ssa.Call)
			if !ok {
				return false
			}
			g := c.Call.StaticCallee()
			if g == nil || g.Blocks == nil || g == fn || g.Pkg != fn.Pkg || g.Signature.Results().Len() != 1 || typeString(g.Signature.Results().At(0).Type()) != "error" {
				return false
			}
			for _, ret := range returnsOf(g) {
				for x := range backSlice(unspill(ret.Results[0]), SliceOpts{NoCallArgs: true}) {
					if wc, ok := x.(*ssa.Call); ok && wc.Parent() == g && (isCallTo(wc, "fs.Walk", "fs.WalkMode") || callsFn(wc, storeFile)) {
						return true
					}
				}
			}
			return false
		}
		nEdges := 0
		for _, b := range fn.Blocks {
			iff, ok := lastIf(b)
			if !ok {
				continue
			}
			x, eq, ok := isNilCmp(iff.Cond)
			if !ok {
				continue
			}
			c, isCall := x.(*ssa.Call)
			if !isCall || !isWalkLike(c) {
				continue
			}
			nEdges++
			errSucc := b.Succs[0]
			if eq {
				errSucc = b.Succs[1]
			}
			first := errSucc.Instrs[0]
			noAbort := !isAbortCall(first) && existsPath(fn, first, nil, isAbortCall)
			if isAbortCall(first) {
				noAbort = false
			}
			r.check(!noAbort, rule, fn.Name()+": error edge reaches an abort before return", p.pos(iff.Pos()), fnName(fn),
				"every path from the walk/store error to return passes CloseWithError or the cancel function",
				"after an output could not be read the upload stream is ended normally: the cache receives a well-formed archive that lacks files and stores it, so a later retrieve is a hit with missing files")
			// when the abort is only a kill of the consuming command (a CancelFunc: the stream itself cannot carry the
			// error), whatever that command spawned still reads the stream to its end; the archive must then not be
			// terminated properly, and must be followed by bytes no tar reader accepts
			killOnly := false
			eachInstr(fn, false, func(_ *ssa.Function, j ssa.Instruction) {
				if isAbortCall(j) && !strings.Contains(calleeName(callCommon(j)), "CloseWithError") && (j == first || existsPath(fn, first, j, nil)) {
					killOnly = true
				}
			})
			if killOnly {
				isTarClose := func(j ssa.Instruction) bool {
					cc := callCommon(j)
					return cc != nil && calleeName(cc) == "(*archive/tar.Writer).Close"
				}
				terminated := false
				eachInstr(fn, false, func(_ *ssa.Function, j ssa.Instruction) {
					if !isTarClose(j) {
						return
					}
					if _, isDefer := j.(*ssa.Defer); isDefer {
						// a deferred Close runs on the error return as well (unless registered only after it, which a loop exit is not)
						if !existsPath(fn, first, j, nil) {
							terminated = true
						}
					} else if j == first || existsPath(fn, first, j, nil) {
						terminated = true
					}
				})
				poisoned := false
				eachInstr(fn, false, func(_ *ssa.Function, j ssa.Instruction) {
					cc := callCommon(j)
					if cc != nil && cc.IsInvoke() && cc.Method.Name() == "Write" && resolveParam(cc.Value) == wprm && (j == first || existsPath(fn, first, j, nil)) {
						poisoned = true
					}
				})
				r.check(!terminated && poisoned, rule, fn.Name()+": an aborted archive cannot be read back as complete", p.pos(iff.Pos()), fnName(fn),
					"on the error path the tar writer is not closed (no end-of-archive marker) and an invalidating block is written to the stream",
					"the upload is aborted only by killing the store command, and the archive is then terminated normally (tar.Writer.Close on the error path, or nothing written after the last whole entry): a process spawned by the store command (`mkdir -p d && cat > d/$CACHE_KEY`) outlives the kill, reads a well-formed archive that lacks outputs and stores it, and a later retrieve is a hit with missing files")
			}
			// and must not continue with further outputs
			continues := false
			eachInstr(fn, false, func(_ *ssa.Function, j ssa.Instruction) {
				if isWalkLike(j) {
					if j == first || existsPath(fn, first, j, nil) {
						continues = true
					}
				}
			})
			r.check(!continues, rule, fn.Name()+": error edge stops the upload", p.pos(iff.Pos()), fnName(fn),
				"no further walk is reachable after the error", "after a failed output the loop goes on with the next outputs: a later success overwrites the error and the incomplete archive is committed")
		}
		if nEdges == 0 {
			r.bad(rule, fn.Name()+": error edge", p.pos(fn.Pos()), fnName(fn), "the result of fs.Walk/storeFile is never tested in this upload writer: read errors are ignored and an incomplete archive is stored")
		}
	}
	if nWriters < 2 {
		r.unresolved(rule, "upload writer functions fed by io.Pipe in package cache (found "+itoa(nWriters)+")")
	}
	// (2) pair discipline
	rule = "E12.okerr"
	nPairs := 0
	for _, fn := range p.Funcs("cache") {
		res := fn.Signature.Results()
		if res.Len() != 2 || typeString(res.At(0).Type()) != "bool" || typeString(res.At(1).Type()) != "error" {
			continue
		}
		nPairs++
		bad := 0
		var site token.Pos
		for _, rc := range returnCases(fn, 0) {
			b, isC := constBool(rc.Vals[0])
			if !isC {
				continue // forwarded pair from a callee that is checked itself
			}
			if b && !isNilConst(rc.Vals[1]) {
				bad++
				site = rc.Site
			}
		}
		r.check(bad == 0, rule, fn.Name()+" never returns (true, err)", p.pos(fn.Pos()), fnName(fn), "every constant-true return carries a nil error", "returns (true, non-nil error): a retrieve that failed partway is reported as a hit (site "+p.pos(site)+")")
	}
	if nPairs < 2 {
		r.unresolved(rule, "(bool, error) functions in package cache")
	}
	{
		// readTar: true only on EOF of tr.Next
		okk, n := true, 0
		for _, rc := range returnCases(readTar, 0) {
			if b, isC := constBool(rc.Vals[0]); isC && b {
				n++
				eof := false
				for _, f := range rc.Facts {
					if bo, ok := f.V.(*ssa.BinOp); ok && bo.Op == token.EQL && f.Val {
						for _, op := range []ssa.Value{bo.X, bo.Y} {
							for x := range backSlice(op, SliceOpts{}) {
								if g, ok := x.(*ssa.Global); ok && g.Name() == "EOF" {
									eof = true
								}
							}
						}
					}
				}
				if !eof {
					okk = false
				}
			}
		}
		r.check(okk && n > 0, rule, "readTar reports success only at end of archive", p.pos(readTar.Pos()), fnName(readTar), "the only true return is on the err == io.EOF edge of tr.Next", "readTar can return true without having reached the end of the archive")
	}
	// (3) cmd cache retrieve
	rule = "E5.cmd-retrieve"
	if cr := p.Fn("cache", "cmdCache.Retrieve"); cr != nil {
		for _, rc := range returnCases(cr, 0) {
			v := rc.Vals[0]
			if b, isC := constBool(v); isC && !b {
				continue
			}
			// `tarOk && <-cmdResult` is a phi: the value on the edge plus the branch facts guarding it
			fromTar, fromCmd := false, false
			look := func(v ssa.Value) {
				for x := range backSlice(v, SliceOpts{}) {
					if isResultOfFn(x, readTar) {
						fromTar = true
					}
					if u, ok := x.(*ssa.UnOp); ok && u.Op == token.ARROW {
						fromCmd = true
					}
				}
			}
			look(v)
			for _, f := range rc.Facts {
				if f.Val {
					look(f.V)
				}
			}
			r.check(fromTar && fromCmd, rule, "result = tar result AND command result", p.pos(rc.Site), fnName(cr), "every non-false return requires readTar's result and the command's exit to be true", "cmdCache.Retrieve's result does not depend on both the tar reader and the retrieve command's exit status: a failed retrieve can be reported as a hit")
		}
		// command result false on Wait error; no clean close of the pipe writer
		for _, g := range withAnon(cr) {
			eachInstr(g, false, func(_ *ssa.Function, i ssa.Instruction) {
				if isCallTo(i, "(*io.PipeWriter).Close") {
					r.bad(rule, "pipe feeding readTar closed cleanly on the write side", p.pos(i.Pos()), fnName(g), "the write side of the pipe that readTar reads is closed with a plain Close(): a stream truncated at an entry boundary then ends in a clean EOF and is accepted as a complete archive (hit with missing files)")
				}
				if s, ok := i.(*ssa.Send); ok {
					// value sent: must be false on the Wait() error edge
					okk := false
					if phi, ok := s.X.(*ssa.Phi); ok {
						for k, e := range phi.Edges {
							if b, isC := constBool(e); isC && !b {
								for _, f := range edgeFacts(phi.Block().Preds[k], phi.Block()) {
									if x, eq, ok := isNilCmp(f.V); ok && eq != f.Val {
										if c, ok := x.(*ssa.Call); ok && isCallTo(c, "(*os/exec.Cmd).Wait") {
											okk = true
										}
									}
								}
							}
						}
					}
					r.check(okk, rule, "command failure => result false", p.pos(s.Pos()), fnName(g), "false is sent on the cmd.Wait() error edge", "the value reporting the retrieve command's outcome is not false on the cmd.Wait() error edge")
				}
			})
		}
		readerClosed := false
		for _, g := range withAnon(cr) {
			eachInstr(g, false, func(_ *ssa.Function, i ssa.Instruction) {
				if isCallTo(i, "(*io.PipeReader).Close", "(*io.PipeReader).CloseWithError", "(*io.PipeWriter).CloseWithError") {
					readerClosed = true
				}
			})
		}
		r.check(readerClosed, rule, "pipe is torn down (not cleanly ended) when the command exits", p.pos(cr.Pos()), fnName(cr), "reader Close / CloseWithError present", "the pipe is never torn down when the command exits: readTar can block forever or see a clean EOF")
	} else {
		r.unresolved(rule, "cache.cmdCache.Retrieve")
	}
	// (4) http retrieve: non-200 => false
	rule = "E5.http-retrieve-status"
	if hr := p.Fn("cache", "httpCache.retrieve"); hr != nil {
		okk := false
		for _, rc := range returnCases(hr, 0) {
			if b, isC := constBool(rc.Vals[0]); isC && !b {
				for _, f := range rc.Facts {
					if bo, ok := f.V.(*ssa.BinOp); ok {
						if c, ok := constInt(bo.Y); ok && c == 200 && ((bo.Op == token.NEQ && f.Val) || (bo.Op == token.EQL && !f.Val)) {
							okk = true
						}
					}
				}
			}
		}
		r.check(okk, rule, "status != 200 => miss", p.pos(hr.Pos()), fnName(hr), "returns false on the StatusCode != 200 edge", "httpCache.retrieve does not return false on the non-200 edge: an error page would be unpacked as an archive")
	} else {
		r.unresolved(rule, "cache.httpCache.retrieve")
	}
}

// deferredErrorNotClobbered: a deferred closure that assigns to the function's named error result (typically the error
// of Close) must do so only when no error is pending: otherwise the failure of the copy it follows is overwritten by
// Close's nil and the caller sees success.
func (p *Prog) deferredErrorNotClobbered(r *Report, rule string, pkgs ...string) {
	n, nBad := 0, 0
	for _, fn := range p.Funcs(pkgs...) {
		if fn.Parent() != nil {
			continue
		}
		eachInstr(fn, false, func(_ *ssa.Function, i ssa.Instruction) {
			d, ok := i.(*ssa.Defer)
			if !ok {
				return
			}
			g := resolveCalleeDeep(&d.Call)
			if g == nil || g.Parent() != fn {
				return
			}
			eachInstr(g, false, func(_ *ssa.Function, j ssa.Instruction) {
				st, ok := j.(*ssa.Store)
				if !ok {
					return
				}
				fv, ok := st.Addr.(*ssa.FreeVar)
				if !ok || typeString(fv.Type()) != "*error" {
					return
				}
				// is the captured cell a named result of fn?
				cell, _ := freeVarBinding(fv).(*ssa.Alloc)
				if cell == nil {
					return
				}
				isResult := false
				for _, ret := range returnsOf(fn) {
					for _, rv := range ret.Results {
						if u, ok := rv.(*ssa.UnOp); ok && u.X == ssa.Value(cell) {
							isResult = true
						}
					}
				}
				if !isResult {
					return
				}
				n++
				guarded := blockJustified(st.Block(), func(f Fact) bool {
					x, eq, ok := isNilCmp(f.V)
					if !ok {
						return false
					}
					u, isLoad := x.(*ssa.UnOp)
					return isLoad && u.X == ssa.Value(fv) && ((eq && f.Val) || (!eq && !f.Val))
				}, 4)
				if !guarded {
					// replacing one error by another error is harmless: the assigned value is known to be non-nil
					if k, isNil := errKnown(factsAt(st), []ssa.Value{st.Val}); k && !isNil {
						guarded = true
					}
				}
				if !guarded {
					nBad++
					r.bad(rule, fn.Name()+": the deferred assignment keeps an earlier error", p.pos(st.Pos()), fnName(fn), "a deferred closure assigns to the named error result without first checking that it is nil: the error of the operation before it (a failed write while restoring a file) is replaced by Close's nil, and the caller reports success - a retrieve is a hit although an output was not restored")
				}
			})
		})
	}
	if nBad == 0 {
		r.ok(rule, "no deferred closure overwrites a pending error", "-", "", itoa(n)+" deferred assignment(s) to a named error result in packages "+strings.Join(pkgs, ", ")+", each under err == nil or assigning a non-nil error")
	}
}
