// plzcheck decides structural necessary conditions of the properties in
// /verif/properties.jsonl on the current source of thought-machine/please.
// Nothing from the repository is executed.
package main

import (
	"flag"
	"fmt"
	"os"
	"runtime/debug"
	"sort"
	"strconv"
	"strings"
	"time"
)

type propCheck struct {
	id   string
	pkgs []string // package patterns needed (relative to repo root)
	run  func(p *Prog, r *Report)
	// goos lists extra GOOS values analysed in the thorough tier (build-tagged siblings)
	goos []string
}

var registry = map[string]*propCheck{}

func register(id string, pkgs []string, run func(p *Prog, r *Report), goos ...string) {
	registry[id] = &propCheck{id: id, pkgs: pkgs, run: run, goos: goos}
}

func main() {
	if len(os.Args) >= 3 && os.Args[1] == "--explain" {
		os.Exit(explain(os.Args[2]))
	}
	if len(os.Args) < 2 {
		fmt.Println("usage: plzcheck <Cxx|all|list> [--tier quick|thorough] [--repo DIR] [--verif DIR]")
		os.Exit(2)
	}
	prop := os.Args[1]
	fs := flag.NewFlagSet("plzcheck", flag.ExitOnError)
	tier := fs.String("tier", envOr("VERIF_TIER", "quick"), "quick|thorough")
	repo := fs.String("repo", "/repo", "repository root")
	verif := fs.String("verif", "/verif", "verif dir (known_findings.json, evidence/)")
	keysOnly := fs.Bool("keys", false, "print violated keys only (mutant self-test), write no evidence")
	fs.Parse(os.Args[2:])
	seed, _ := strconv.Atoi(envOr("VERIF_SEED", "0"))
	if *tier != "quick" && *tier != "thorough" {
		*tier = "quick"
	}
	if prop == "list" {
		var ids []string
		for id := range registry {
			ids = append(ids, id)
		}
		sort.Strings(ids)
		fmt.Println(strings.Join(ids, " "))
		return
	}
	if prop == "WARM" {
		if _, err := Load(*repo, "", []string{"./src/..."}); err != nil {
			fmt.Println("load failed:", err)
			os.Exit(1)
		}
		return
	}
	if prop == "all" {
		var ids []string
		for id := range registry {
			ids = append(ids, id)
		}
		sort.Strings(ids)
		rc := 0
		P, err := Load(*repo, "", []string{"./src/..."})
		if err != nil {
			fmt.Println("load failed:", err)
			os.Exit(1)
		}
		for _, id := range ids {
			if c := runOne(registry[id], P, *tier, *repo, *verif, seed, *keysOnly); c > rc {
				rc = c
			}
		}
		os.Exit(rc)
	}
	pc := registry[prop]
	if pc == nil {
		fmt.Printf("unknown property %q\n", prop)
		os.Exit(2)
	}
	os.Exit(runOne(pc, nil, *tier, *repo, *verif, seed, *keysOnly))
}

func envOr(k, d string) string {
	if v := os.Getenv(k); v != "" {
		return v
	}
	return d
}

func runOne(pc *propCheck, shared *Prog, tier, repo, verif string, seed int, keysOnly bool) (rc int) {
	t0 := time.Now()
	r := newReport(pc.id)
	stats := map[string]any{}
	gooses := []string{""}
	if tier == "thorough" {
		gooses = append(gooses, pc.goos...)
	}
	for _, goos := range gooses {
		P := shared
		if P == nil || goos != "" {
			var err error
			P, err = Load(repo, goos, pc.pkgs)
			if err != nil {
				r.add(Obligation{Rule: "load", Instance: strings.Join(pc.pkgs, " "), Site: "-", Status: "violated", Detail: "cannot load/type-check the repository: " + err.Error(), Key: "load|" + goos})
				continue
			}
		}
		r.goos = goos
		nblocks, ninstr := 0, 0
		for _, f := range P.allFuncs {
			nblocks += len(f.Blocks)
			for _, b := range f.Blocks {
				ninstr += len(b.Instrs)
			}
		}
		label := goos
		if label == "" {
			label = "host"
		}
		stats[label] = map[string]any{"packages": len(P.Pkgs), "functions": len(P.allFuncs), "blocks": nblocks, "instructions": ninstr, "load_s": P.LoadS}
		func() {
			defer func() {
				if e := recover(); e != nil {
					r.add(Obligation{Rule: "analyser", Instance: "panic", Site: "-", Status: "violated", Detail: fmt.Sprintf("analyser panic: %v\n%s", e, debug.Stack()), Key: "analyser|panic"})
				}
			}()
			pc.run(P, r)
		}()
	}
	if keysOnly {
		seen := map[string]bool{}
		// keys of recorded findings are not news: a mutant counts as detected only through another key
		if known, err := loadKnown(verif + "/known_findings.json"); err == nil {
			for _, k := range known {
				if k.Property == pc.id && k.Status == "known" {
					seen[k.Key] = true
				}
			}
		}
		for _, o := range r.Obs {
			if o.Status == "violated" && !seen[o.Key] {
				seen[o.Key] = true
				fmt.Printf("KEY %s\t%s\t%s\n", o.Key, o.Site, o.Detail)
			}
		}
		// floors
		cnt := map[string]int{}
		for _, o := range r.Obs {
			if o.Status != "info" {
				cnt[o.Rule]++
			}
		}
		for rule, n := range r.Floors {
			if cnt[rule] < n {
				fmt.Printf("KEY %s|VACUOUS\t-\t%d<%d\n", rule, cnt[rule], n)
			}
		}
		return 0
	}
	return r.finish(verif, tier, seed, time.Since(t0).Seconds(), stats)
}
