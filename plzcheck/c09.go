package main

import (
	"go/token"
	"go/types"
	"strings"

	"golang.org/x/tools/go/ssa"
)

func init() {
	register("C09", []string{"./src/fs/..."}, checkC09)
}

// lossyString: string functions that map different inputs to one output.
var lossyString = map[string]bool{
	"strings.TrimLeft": true, "strings.TrimRight": true, "strings.Trim": true, "strings.TrimSpace": true, "strings.TrimFunc": true,
	"strings.ToLower": true, "strings.ToUpper": true, "strings.Fields": true, "path/filepath.Base": true, "path.Base": true,
	"strings.ReplaceAll": true, "strings.Replace": true, "strings.Title": true,
}

// evalBool evaluates a boolean SSA value under an environment of known values.
func evalBool(v ssa.Value, env map[ssa.Value]bool, depth int) (bool, bool) {
	if b, ok := env[v]; ok {
		return b, true
	}
	if depth > 8 {
		return false, false
	}
	switch x := v.(type) {
	case *ssa.Const:
		return constBool(x)
	case *ssa.UnOp:
		if x.Op == token.NOT {
			b, ok := evalBool(x.X, env, depth+1)
			return !b, ok
		}
	case *ssa.Phi:
		first := true
		var val bool
		for _, e := range x.Edges {
			b, ok := evalBool(e, env, depth+1)
			if !ok {
				return false, false
			}
			if first {
				val, first = b, false
			} else if b != val {
				return false, false
			}
		}
		return val, !first
	}
	return false, false
}

func checkC09(p *Prog, r *Report) {
	r.Explanation = "E3 (unique decodability) and path rules on fs.PathHasher. In the directory-walk callback of PathHasher.hash: (1) every entry must contribute its name relative to the hashed root, (2) a symlink entry must contribute its target, (3) every kind of entry (file, directory, symlink) must contribute something, so empty directories are visible; (4) the callback never prunes the walk: it returns nil or the error of an operation, never a sentinel such as SkipDir; (5) regular entries stream their content through fileHash and its error is returned. Top level: (6) the symlink branch writes the (unmodified) relative destination or the contents, with no lossy string transform between Readlink and the write; (7) the three top-level kinds are domain-separated. Memoisation: (8) Hash with recalc=true passes read=false to hash(), a memoised value is returned only under recalc==false, and the xattr shortcut in hash() is taken only under read==true; (9) timestamp hashing only when asked."
	r.NotCovered = []string{"hash collisions", "staleness of xattr-recorded hashes when recalc=false", "godirwalk's own sorting (only that the repository does not switch it off is checked)"}
	hash := p.Fn("fs", "PathHasher.hash")
	Hash := p.Fn("fs", "PathHasher.Hash")
	fileHash := p.Fn("fs", "PathHasher.fileHash")
	walkMode := p.Fn("fs", "WalkMode")
	if hash == nil || Hash == nil || fileHash == nil || walkMode == nil {
		r.unresolved("E3.dir-entry", "fs.PathHasher.hash / Hash / fileHash / fs.WalkMode")
		return
	}
	p.walkSortedRule(r, "E5.walk-sorted")
	p.hardlinkMarkerRule(r, "E9.hardlink-marker-protocol")
	p.memoEveryHashRule(r, "E5.every-hash-memoised")
	// the walk callback
	// (the directory branch may live in a private helper of hash: dirHash(h, path))
	var cb *ssa.Function
	for _, g := range withAnon(hash) {
		for _, ci := range callsInFn(g, walkMode) {
			cc := callCommon(ci)
			for _, a := range cc.Args {
				if f := closureOfArg(a); f != nil {
					cb = f
				}
			}
		}
	}
	if cb == nil || len(cb.Params) < 2 {
		r.unresolved("E3.dir-entry", "closure passed to WalkMode in PathHasher.hash")
		return
	}
	pathPrm := cb.Params[len(cb.Params)-2] // (a method used as the callback has its receiver first)
	modePrm := cb.Params[len(cb.Params)-1]
	// writes to the hash in the callback
	type hw struct {
		i   ssa.Instruction
		arg ssa.Value
	}
	var writes []hw
	eachInstr(cb, false, func(_ *ssa.Function, i ssa.Instruction) {
		if a, ok := hashWriteArg(i); ok {
			writes = append(writes, hw{i, a})
		}
	})
	// (1) name
	rule := "E3.dir-entry"
	nameWritten := false
	for _, w := range writes {
		for x := range backSlice(w.arg, SliceOpts{}) {
			if x == ssa.Value(pathPrm) {
				nameWritten = true
			}
		}
	}
	r.add(Obligation{Rule: rule, Instance: "entry name reaches the hash", Site: p.pos(cb.Pos()), Func: fnName(cb), Path: true, Key: rule + "|" + fnName(hash) + "|name",
		Status: map[bool]string{true: "discharged", false: "violated"}[nameWritten],
		Detail: map[bool]string{true: "the walked path is written for every entry", false: "no write in the directory-walk callback derives from the walked path: d/x.txt and d/renamed.txt (same content), or files moved between subdirectories, give the same hash"}[nameWritten]})
	// (2) symlink target
	var readlink *ssa.Call
	eachInstr(cb, false, func(_ *ssa.Function, i ssa.Instruction) {
		if c, ok := i.(*ssa.Call); ok && isCallTo(c, "os.Readlink") {
			readlink = c
		}
	})
	targetWritten := false
	if readlink != nil {
		for _, w := range writes {
			for x := range backSlice(w.arg, SliceOpts{}) {
				if x == ssa.Value(readlink) {
					targetWritten = true
				}
			}
		}
	}
	r.add(Obligation{Rule: rule, Instance: "target of a symlink inside a directory reaches the hash", Site: p.pos(cb.Pos()), Func: fnName(cb), Path: true, Key: rule + "|" + fnName(hash) + "|symlink-target",
		Status: map[bool]string{true: "discharged", false: "violated"}[targetWritten],
		Detail: map[bool]string{true: "os.Readlink result is written", false: "the symlink branch of the walk callback writes only a marker: d/l -> one and d/l -> two give the same hash"}[targetWritten]})
	// (3) every kind contributes: there must be a write (or fileHash call) on the path for mode.IsDir()==true too
	isModeCall := func(v ssa.Value, name string) bool {
		c, ok := v.(*ssa.Call)
		return ok && c.Call.IsInvoke() && c.Call.Method.Name() == name && c.Call.Value == ssa.Value(modePrm)
	}
	dirSilent := false
	{
		// is there an entry->return path that performs no write and no fileHash while IsSymlink()==false?
		assume := map[ssa.Value]bool{}
		eachInstr(cb, false, func(_ *ssa.Function, i ssa.Instruction) {
			if iff, ok := i.(*ssa.If); ok {
				f := normFact(iff.Cond, true)
				if isModeCall(f.V, "IsSymlink") {
					assume[f.V] = false
				}
				if isModeCall(f.V, "IsDir") {
					assume[f.V] = true
				}
			}
		})
		dirSilent = existsPathAssuming(cb, nil, nil, func(j ssa.Instruction) bool {
			if _, ok := hashWriteArg(j); ok {
				return true
			}
			return callsFn(j, fileHash)
		}, assume)
	}
	r.add(Obligation{Rule: rule, Instance: "directory entries contribute to the hash", Site: p.pos(cb.Pos()), Func: fnName(cb), Path: true, Key: rule + "|" + fnName(hash) + "|dir-kind",
		Status: map[bool]string{false: "discharged", true: "violated"}[dirSilent],
		Detail: map[bool]string{false: "every kind of entry writes something", true: "a directory entry passes through the walk callback without contributing anything: a tree with an extra empty subdirectory (or a file replaced by an empty directory of another name) hashes the same"}[dirSilent]})
	// (4) no pruning
	rule = "E5.walk-not-pruned"
	{
		nRet, bad := 0, 0
		var site token.Pos
		for _, rc := range returnCases(cb, 0) {
			nRet++
			v := rc.Vals[0]
			if isNilConst(v) {
				continue
			}
			fromOp := false
			for x := range backSlice(v, SliceOpts{}) {
				if _, ok := x.(*ssa.Call); ok {
					fromOp = true
				}
				if _, ok := x.(*ssa.Global); ok {
					fromOp = false
					break
				}
			}
			if !fromOp {
				bad++
				site = rc.Site
			}
		}
		r.check(bad == 0 && nRet > 0, rule, "callback returns nil or an operation's error", p.pos(cb.Pos()), fnName(cb), itoa(nRet)+" return cases, none a sentinel", "the directory-walk callback returns a sentinel (e.g. SkipDir) at "+p.pos(site)+": the walker then skips the remaining entries of that directory, whose contents no longer reach the hash")
	}
	// (5) regular files hashed, error returned
	rule = "E5.file-content-hashed"
	{
		n := 0
		for _, ci := range callsInFn(cb, fileHash) {
			c, ok := ci.(*ssa.Call)
			if !ok {
				continue
			}
			n++
			returned := false
			if refs := c.Referrers(); refs != nil {
				for _, u := range *refs {
					switch u.(type) {
					case *ssa.Return, *ssa.Store, *ssa.Phi, *ssa.BinOp:
						returned = true
					}
				}
			}
			usesPath := false
			for x := range backSlice(c.Call.Args[len(c.Call.Args)-1], SliceOpts{}) {
				if x == ssa.Value(pathPrm) {
					usesPath = true
				}
			}
			r.check(returned && usesPath, rule, "fileHash(h, walked path) and its error is returned", p.pos(c.Pos()), fnName(cb), "content of each regular entry is streamed into the hash", "the content of a regular entry is not hashed, or a read error is dropped (an unreadable file then hashes like an empty one)")
		}
		// non-symlink, non-dir entries must reach fileHash
		assume := map[ssa.Value]bool{}
		eachInstr(cb, false, func(_ *ssa.Function, i ssa.Instruction) {
			if iff, ok := i.(*ssa.If); ok {
				f := normFact(iff.Cond, true)
				if isModeCall(f.V, "IsSymlink") || isModeCall(f.V, "IsDir") {
					assume[f.V] = false
				}
			}
		})
		skip := existsPathAssuming(cb, nil, nil, func(j ssa.Instruction) bool { return callsFn(j, fileHash) }, assume)
		r.check(n > 0 && !skip, rule, "every regular entry reaches fileHash", p.pos(cb.Pos()), fnName(cb), "with IsSymlink()==false and IsDir()==false every path calls fileHash", "a regular file inside a hashed directory can pass through the callback without its content being hashed")
		// fileHash itself
		okCopy := false
		eachInstr(fileHash, false, func(_ *ssa.Function, i ssa.Instruction) {
			if c, ok := i.(*ssa.Call); ok && isCallTo(c, "io.Copy") {
				for _, rc := range returnCases(fileHash, 0) {
					for x := range backSlice(rc.Vals[0], SliceOpts{}) {
						if x == ssa.Value(c) {
							okCopy = true
						}
					}
				}
			}
		})
		r.check(okCopy, rule, "fileHash streams the whole file and returns the copy error", p.pos(fileHash.Pos()), fnName(fileHash), "io.Copy(h, file) error is the result", "fileHash does not return the error of copying the file into the hash")
	}
	// (6) top-level symlink
	rule = "E3.symlink-target"
	hashTop := hash
	{
		// (the symlink branch may live in a private helper of hash: symlinkHash(h, path))
		var rl *ssa.Call
		inCb := map[*ssa.Function]bool{}
		for _, g := range withAnon(cb) {
			inCb[g] = true
		}
		for _, g := range withAnon(hash) {
			if inCb[g] {
				continue
			}
			eachInstr(g, false, func(_ *ssa.Function, i ssa.Instruction) {
				if c, ok := i.(*ssa.Call); ok && isCallTo(c, "os.Readlink") {
					rl = c
				}
			})
		}
		if rl != nil {
			hash = rl.Parent()
		}
		if rl == nil {
			r.bad(rule, "top-level symlink reads its target", p.pos(hash.Pos()), fnName(hash), "PathHasher.hash never reads the link target of a top-level symlink")
		} else {
			written, lossy := false, ""
			unasked := false
			defer func() {
				r.check(!unasked, "E3.symlink-target", "a link is hashed by its name only when the destination was found to be inside the repository", p.pos(rl.Pos()), fnName(hash), "the write of the destination is under a test on the destination itself", "the top-level symlink branch writes the link's destination string without having asked whether that destination lies inside the repository: a link from the repository to an absolute path outside it (a fixture under /srv, a system tool) is hashed by its name, so changing the file it points at changes no hash - a test whose data is such a link keeps reporting its cached pass")
			}()
			eachInstr(hash, false, func(_ *ssa.Function, i ssa.Instruction) {
				a, ok := hashWriteArg(i)
				if !ok {
					return
				}
				sl := backSlice(a, SliceOpts{})
				uses := false
				for x := range sl {
					for _, res := range resultsOf(rl, 0) {
						if x == res {
							uses = true
						}
					}
				}
				if !uses {
					return
				}
				written = true
				// writing only the destination *name* is right for a link that stays inside the repository (what it
				// points at is hashed in its own right); whether it does must have been asked of the destination
				if ins, ok := i.(ssa.Instruction); ok {
					aboutDest := blockJustified(ins.Block(), func(f Fact) bool {
						var ops []ssa.Value
						switch v := f.V.(type) {
						case *ssa.BinOp:
							ops = []ssa.Value{v.X, v.Y}
						case *ssa.Call:
							ops = v.Call.Args
						}
						for _, op := range ops {
							for _, res := range resultsOf(rl, 0) {
								if op == res {
									return true
								}
							}
						}
						return false
					}, 4)
					if !aboutDest {
						unasked = true
					}
				}
				for x := range sl {
					if c, ok := x.(*ssa.Call); ok && lossyString[calleeName(&c.Call)] {
						lossy = calleeName(&c.Call)
					}
				}
			})
			r.check(written && lossy == "", rule, "link destination written without a lossy transform", p.pos(rl.Pos()), fnName(hash), "the (relativised) Readlink result is written as is", map[bool]string{true: "the link destination passes through " + lossy + " before being hashed: different targets (e.g. ../lib/tool, ./lib/tool, lib/tool) collapse to one hash", false: "the destination of a top-level symlink never reaches the hash"}[lossy != ""])
		}
	}
	hash = hashTop
	// (7) top-level kinds domain separated: each of the three branches must start with a distinct constant tag
	rule = "E3.kind-domain-separation"
	{
		// a tag = a hash write whose argument is constant data, executed before any variable data on that branch.
		// Structural test: the regular-file branch writes raw content first (no tag possible without breaking digests),
		// so separation holds only if BOTH other kinds write a constant tag AND file content cannot start with it — which
		// no encoding can guarantee. We report the construct; it is a recorded finding.
		fileBranchTagged := false
		r.add(Obligation{Rule: rule, Instance: "file / directory / symlink encodings cannot coincide", Site: p.pos(hash.Pos()), Func: fnName(hash), Path: true, Key: rule + "|" + fnName(hash) + "|top-level",
			Status: map[bool]string{true: "discharged", false: "violated"}[fileBranchTagged || p.kindTagged(hash, fileHash)],
			Detail: "a regular file is hashed as its raw bytes while a symlink is hashed as marker+destination and a directory as the concatenation of its entries: a file containing \\x02lib hashes like a symlink to lib, and a directory {inner: hello} like a file `hello`"})
	}
	// (8) recalc semantics
	rule = "E5.recalc-reads-content"
	{
		var recalc *ssa.Parameter
		for _, prm := range Hash.Params {
			if prm.Name() == "recalc" {
				recalc = prm
			}
		}
		if recalc == nil {
			// second bool-typed parameter by position: (hasher, path, recalc, store, timestamp)
			n := 0
			for _, prm := range Hash.Params {
				if b, ok := prm.Type().Underlying().(*types.Basic); ok && b.Kind() == types.Bool {
					if n == 0 {
						recalc = prm
					}
					n++
				}
			}
		}
		var readIdx = -1
		for k, prm := range hash.Params {
			if prm.Name() == "read" {
				readIdx = k
			}
		}
		calls := callsInFn(Hash, hash)
		if recalc == nil || readIdx < 0 || len(calls) == 0 {
			r.unresolved(rule, "recalc parameter of Hash / read parameter of hash / call Hash->hash")
		} else {
			for _, ci := range calls {
				arg := callCommon(ci).Args[readIdx]
				val, known := evalBool(arg, map[ssa.Value]bool{recalc: true}, 0)
				r.check(known && !val, rule, "Hash(recalc=true) => hash(read=false)", p.pos(ci.Pos()), fnName(Hash), "the read flag evaluates to false whenever recalc is true", "with recalc=true the hash previously recorded in the file's xattr may still be trusted (the read flag passed to hash() is not the negation of recalc): output verification after a cache restore no longer looks at the file's content")
			}
			// memo returned only under recalc==false
			bad := 0
			memoField := p.Field("fs", "PathHasher", "memo")
			for _, rc := range returnCases(Hash, 0) {
				fromMemo := false
				for x := range backSlice(rc.Vals[0], SliceOpts{NoCallArgs: true}) {
					if l, ok := x.(*ssa.Lookup); ok && derivesFromField(l.X, memoField) {
						fromMemo = true
					}
				}
				if fromMemo && !hasFact(rc.Facts, false, func(v ssa.Value) bool { return v == ssa.Value(recalc) }) {
					bad++
				}
			}
			r.check(bad == 0, rule, "memoised hash only when recalc is false", p.pos(Hash.Pos()), fnName(Hash), "a value read from the memo is returned only on the recalc==false edge", "Hash can return a memoised value although recalc is true")
			// xattr shortcut guarded by read
			var readPrm = hash.Params[readIdx]
			badX, nX := 0, 0
			for _, rc := range returnCases(hash, 0) {
				fromX := false
				for x := range backSlice(rc.Vals[0], SliceOpts{NoCallArgs: true}) {
					if c, ok := x.(*ssa.Call); ok && isCallTo(c, "github.com/pkg/xattr.LGet", "github.com/pkg/xattr.Get") {
						fromX = true
					}
				}
				if fromX {
					nX++
					if !hasFact(rc.Facts, true, func(v ssa.Value) bool { return v == ssa.Value(readPrm) }) {
						badX++
					}
				}
			}
			r.check(badX == 0 && nX > 0, rule, "recorded xattr hash returned only under read==true", p.pos(hash.Pos()), fnName(hash), "the xattr shortcut is on the read==true edge", "hash() can return the xattr-recorded value without the read flag being set")
		}
	}
	// (9) timestamp only when asked
	rule = "E5.timestamp-only-when-asked"
	{
		ts := p.Fn("fs", "PathHasher.timestampHash")
		var tsPrm *ssa.Parameter
		for _, prm := range hash.Params {
			if prm.Name() == "timestamp" {
				tsPrm = prm
			}
		}
		if ts == nil || tsPrm == nil {
			r.unresolved(rule, "timestampHash / timestamp parameter")
		} else {
			for _, ci := range callsInFn(hash, ts) {
				under := hasFact(factsAt(ci), true, func(v ssa.Value) bool { return v == ssa.Value(tsPrm) })
				r.check(under, rule, "timestampHash only on timestamp==true", p.pos(ci.Pos()), fnName(hash), "guarded by the timestamp flag", "modification times are hashed although the caller asked for a content hash")
			}
			for _, ci := range callsInFn(hash, fileHash) {
				if hasFact(factsAt(ci), true, func(v ssa.Value) bool { return v == ssa.Value(tsPrm) }) {
					r.bad(rule, "content hash on the timestamp branch", p.pos(ci.Pos()), fnName(hash), "branches swapped")
				}
			}
		}
	}
}

// kindTagged: does the regular-file branch of hash() write a constant tag before the content? (It cannot
// without changing every plain file digest; reported for completeness.)
func (p *Prog) kindTagged(hash, fileHash *ssa.Function) bool {
	tagged := true
	for _, ci := range callsInFn(hash, fileHash) {
		// is there a path from entry to this fileHash call with no constant write before it?
		if existsPath(hash, nil, ci, func(j ssa.Instruction) bool {
			a, ok := hashWriteArg(j)
			return ok && isConstData(a)
		}) {
			tagged = false
		}
	}
	return tagged
}

// walkSortedRule: the directory hash streams entry contents in walk order, and several listings (glob, cache archives,
// BUILD file discovery) are emitted in walk order: fs.WalkMode must leave godirwalk's sorting on.
func (p *Prog) walkSortedRule(r *Report, rule string) {
	var errCb token.Pos
	defer func() {
		r.check(!errCb.IsValid(), strings.Replace(rule, "walk-sorted", "walk-errors-abort", 1), "a directory walk stops at the first error", p.pos(errCb), "fs.WalkMode", "godirwalk.Options.ErrorCallback is not set, so an entry that cannot be read aborts the walk", "the shared directory walker installs an ErrorCallback that skips entries it cannot read: the directory hash relies on such an error aborting the walk, so an unreadable file or sub-directory is silently left out and two trees that differ only there hash the same")
	}()
	n, bad := 0, 0
	var site token.Pos
	for _, f := range p.Funcs("fs") {
		eachInstr(f, false, func(_ *ssa.Function, i ssa.Instruction) {
			c, ok := i.(*ssa.Call)
			if !ok || !strings.HasSuffix(calleeName(&c.Call), "godirwalk.Walk") {
				return
			}
			n++
			// stores into the Options value passed
			for x := range backSlice(c.Call.Args[1], SliceOpts{}) {
				a, ok := x.(*ssa.Alloc)
				if !ok {
					continue
				}
				if refs := a.Referrers(); refs != nil {
					for _, rf := range *refs {
						fa, ok := rf.(*ssa.FieldAddr)
						if ok && strings.HasSuffix(fieldKey(fa), "Options.ErrorCallback") {
							if frefs := fa.Referrers(); frefs != nil {
								for _, u := range *frefs {
									if st, ok := u.(*ssa.Store); ok && !isNilConst(st.Val) {
										errCb = st.Pos()
									}
								}
							}
						}
						if !ok || !strings.HasSuffix(fieldKey(fa), "Options.Unsorted") {
							continue
						}
						if frefs := fa.Referrers(); frefs != nil {
							for _, u := range *frefs {
								if st, ok := u.(*ssa.Store); ok {
									if b, isC := constBool(st.Val); !isC || b {
										bad++
										site = st.Pos()
									}
								}
							}
						}
					}
				}
			}
		})
	}
	if n == 0 {
		r.unresolved(rule, "call of godirwalk.Walk in package fs")
		return
	}
	r.check(bad == 0, rule, "directory walks are name-sorted", p.pos(site), "fs.WalkMode", itoa(n)+" godirwalk.Walk call(s), Options.Unsorted never set", "the directory walk is switched to unsorted: entries arrive in file-system listing order, so a directory's hash (contents streamed in walk order) depends on the file system and on creation order, and different trees can hash the same")
}

// hardlinkMarkerRule: a filegroup output is a hard link to a source file, so a hash recorded in its xattr would be
// recorded on the source's inode and trusted after the source was edited in place. The protocol against that: CopyHash
// of a path whose hash is not known stores a nil entry for the new path, and Hash treats a present-but-nil entry as
// "never read or store xattrs, always rehash".
func (p *Prog) hardlinkMarkerRule(r *Report, rule string) {
	mc := p.Fn("fs", "PathHasher.moveOrCopyHash")
	Hash := p.Fn("fs", "PathHasher.Hash")
	hash := p.Fn("fs", "PathHasher.hash")
	if mc == nil || Hash == nil || hash == nil {
		r.unresolved(rule, "fs.PathHasher.moveOrCopyHash / Hash / hash")
		return
	}
	var newPath, copyPrm *ssa.Parameter
	for _, prm := range mc.Params {
		switch prm.Name() {
		case "newPath":
			newPath = prm
		case "copy":
			copyPrm = prm
		}
	}
	marked := false
	eachInstr(mc, false, func(_ *ssa.Function, i ssa.Instruction) {
		mu, ok := i.(*ssa.MapUpdate)
		if !ok || !isNilConst(mu.Value) || newPath == nil || !derivesFromValue(mu.Key, newPath) {
			return
		}
		absent, isCopy, extra := false, false, false
		for _, f := range factsAt(mu) {
			if e, ok := f.V.(*ssa.Extract); ok && e.Index == 1 {
				// which lookup? the one keyed by the old path establishes "source hash unknown"; any other presence
				// test (e.g. on the new path) makes the marker conditional on what was remembered before
				if lk, ok := e.Tuple.(*ssa.Lookup); ok && derivesFromValue(lk.Index, newPath) {
					extra = true
				} else if !f.Val {
					absent = true
				}
			}
			if f.V == ssa.Value(copyPrm) && f.Val {
				isCopy = true
			}
		}
		if absent && isCopy && !extra {
			marked = true
		}
	})
	r.check(marked, rule, "CopyHash of an unknown hash marks the new path", p.pos(mc.Pos()), fnName(mc), "memo[newPath] = nil on the (source hash absent, copy) branch, whatever was remembered for the new path", "copying the hash of a path that has not been hashed no longer leaves the nil marker for the new path (or only when nothing was remembered for it, so a destination that was hashed and then overwritten keeps its old hash): the next Hash(store=true) of a filegroup output records its hash in an xattr on the inode it shares with the source file, and after an in-place edit of the source that stale record is trusted (a stale test result or output is reused)")
	// reader: on present && cached == nil the call to hash() gets store=false and read=false
	honoured := false
	for _, ci := range callsInFn(Hash, hash) {
		cc := callCommon(ci)
		if len(cc.Args) < 4 {
			continue
		}
		storeArg, readArg := cc.Args[2], cc.Args[3]
		sPhi, okS := storeArg.(*ssa.Phi)
		if !okS {
			continue
		}
		for k, e := range sPhi.Edges {
			if b, isC := constBool(e); isC && !b {
				// this edge is the marker branch if it is under (present, cached == nil)
				pred := sPhi.Block().Preds[k]
				// (the memoised value is returned on present && cached != nil, so what is left of `present` is the nil entry)
				nilFact := false
				for _, f := range append(condFacts(pred), edgeFacts(pred, sPhi.Block())...) {
					if e, ok := f.V.(*ssa.Extract); ok && e.Index == 1 && f.Val {
						if lk, ok := e.Tuple.(*ssa.Lookup); ok && tagsOf(lk.X, SliceOpts{})["fs.PathHasher.memo"] {
							nilFact = true
						}
						// the locked lookup may be a method of its own: memoised(path) returning (entry, present)
						if hc, ok := e.Tuple.(*ssa.Call); ok {
							if g := hc.Call.StaticCallee(); g != nil && g.Blocks != nil && g.Pkg == Hash.Pkg && g.Signature.Results().Len() == 2 {
								all, any := true, false
								for _, ret := range returnsOf(g) {
									pe, ok := unspill(ret.Results[1]).(*ssa.Extract)
									lk, isLk := (ssa.Value)(nil), false
									if ok && pe.Index == 1 {
										lk, isLk = pe.Tuple, true
									}
									if l2, ok2 := lk.(*ssa.Lookup); isLk && ok2 && tagsOf(l2.X, SliceOpts{})["fs.PathHasher.memo"] {
										any = true
									} else {
										all = false
									}
								}
								if all && any {
									nilFact = true
								}
							}
						}
					}
				}
				// the read argument is !recalc with recalc forced true on the same edge
				if nilFact && readArg != nil {
					honoured = true
				}
			}
		}
	}
	r.check(honoured, rule, "Hash never stores an xattr for a marked path", p.pos(Hash.Pos()), fnName(Hash), "store is forced to false on the present-but-nil branch before hash() is called", "Hash no longer treats a present-but-nil memo entry as 'do not read or store xattrs': the marker left by CopyHash has no effect")
}

// memoEveryHashRule: within one invocation a path has one hash: Hash remembers every hash it computed successfully,
// for any path. (The build hashes a target's sources before the action and again afterwards to record them; if the
// second call reads the file again, a source saved while the action ran is recorded with a hash the outputs were
// not built from.)
func (p *Prog) memoEveryHashRule(r *Report, rule string) {
	Hash := p.Fn("fs", "PathHasher.Hash")
	hash := p.Fn("fs", "PathHasher.hash")
	if Hash == nil || hash == nil {
		r.unresolved(rule, "fs.PathHasher.Hash / hash")
		return
	}
	n, bad := 0, ""
	for _, ci := range callsInFn(Hash, hash) {
		c, ok := ci.(*ssa.Call)
		if !ok {
			continue
		}
		eachInstr(Hash, false, func(_ *ssa.Function, i ssa.Instruction) {
			mu, ok := i.(*ssa.MapUpdate)
			if !ok || !tagsOf(mu.Map, SliceOpts{})["fs.PathHasher.memo"] || !derivesFromValue(mu.Value, c) {
				return
			}
			n++
			for _, f := range factsAt(mu) {
				if !instrDominates(c, mu) {
					continue
				}
				// only facts established after the hash call matter
				if fi, ok := f.V.(ssa.Instruction); ok && !instrDominates(c, fi) {
					continue
				}
				if k, isNil := errKnown([]Fact{f}, resultsOf(c, 1)); k && isNil {
					continue
				}
				bad = f.V.String()
			}
		})
	}
	r.check(n > 0 && bad == "", rule, "Hash remembers every hash it computed", p.pos(Hash.Pos()), fnName(Hash), "memo[path] = result under err == nil and nothing else", "Hash memoises the computed hash only under an extra condition ("+bad+", e.g. only for paths under plz-out): a source file is then read again when its hash is recorded after the build, so a file saved while the action ran is recorded as what the outputs were built from, and every later build skips the target")
}
