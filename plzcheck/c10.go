package main

import (
	"go/types"
	"strings"

	"golang.org/x/tools/go/ssa"
)

func init() {
	register("C10", []string{"./src/..."}, checkC10, "darwin")
}

var envReaders = []string{"os.Getenv", "os.LookupEnv", "os.Environ", "os.ExpandEnv", "os/exec.LookPath"}

// envConstructors: functions of package core that return a core.BuildEnv.
func (p *Prog) envConstructors() []*ssa.Function {
	var out []*ssa.Function
	for _, f := range p.Funcs("core") {
		if f.Parent() != nil {
			continue
		}
		res := f.Signature.Results()
		for i := 0; i < res.Len(); i++ {
			if typeString(res.At(i).Type()) == "core.BuildEnv" {
				out = append(out, f)
			}
		}
	}
	return out
}

func checkC10(p *Prog, r *Report) {
	r.Explanation = "(1) E7 who-may-read-env: in the static call closure (depth 6, repository functions) of every function of package core that returns a core.BuildEnv (TargetEnvironment, BuildEnvironment, TestEnvironment, getBuildEnv, …) each call of os.Getenv/LookupEnv/Environ/ExpandEnv must read a variable whose name is data-derived from a pass_env / pass_unsafe_env list (BuildTarget.PassEnv/PassUnsafeEnv, config Build.PassEnv/PassUnsafeEnv); named exemptions: fs.ExpandHomePath (~ expansion) and TERM in ExecEnvironment (interactive `plz exec`, not a build action). (2) every listed variable that is set reaches the environment map on all paths (no `continue` that drops it). (3) exec env explicit: in package process no os.Environ() flows into exec.Cmd.Env, and ExecWithTimeout stores a value derived from its env parameter into cmd.Env before Start on every path; packages build and test spawn processes only through process.Executor. (4) hashing: pass_env names and values flow into the rule hash (E2); Configuration.Hash writes the keys and values of getBuildEnv(...) plus Lang and Nonce. (5) E4: no order-sensitive map iteration in the environment constructors."
	r.NotCovered = []string{"what bash / the sandbox tool themselves inherit", "variables read by tools invoked from the action", "remote execution platform properties"}
	roots := p.envConstructors()
	if len(roots) < 6 {
		r.unresolved("E7.who-may-read-env", "functions of package core returning core.BuildEnv (found "+itoa(len(roots))+")")
		return
	}
	keep := func(f *ssa.Function) bool { return strings.HasPrefix(fnPkg(f), modPath+"/src/") }
	funcs := p.closure(roots, 6, keep)
	// (1)
	rule := "E7.who-may-read-env"
	passFields := map[string]bool{"core.BuildTarget.PassEnv": true, "core.BuildTarget.PassUnsafeEnv": true, "struct.PassEnv": true, "struct.PassUnsafeEnv": true}
	nReads := 0
	seen := map[*ssa.Function]bool{}
	for _, f := range funcs {
		for _, g := range withAnon(f) {
			if seen[g] {
				continue
			}
			seen[g] = true
			eachInstr(g, false, func(_ *ssa.Function, i ssa.Instruction) {
				if !isCallTo(i, envReaders...) {
					return
				}
				nReads++
				cc := callCommon(i)
				top := topFunc(g)
				inst := calleeName(cc) + " in " + top.Name()
				if fnName(top) == "fs.ExpandHomePath" {
					r.exempt(rule, inst, p.pos(i.Pos()), fnName(g), "~ expansion of configured paths (HOME); documented, not part of the action's environment")
					return
				}
				if len(cc.Args) == 1 {
					if s, ok := constString(cc.Args[0]); ok && s == "TERM" && top.Name() == "ExecEnvironment" {
						r.exempt(rule, inst, p.pos(i.Pos()), fnName(g), "TERM for interactive `plz exec`; not a build or test action")
						return
					}
					from := false
					for k := range p.fieldsOf(cc.Args[0], 0) {
						if passFields[k] {
							from = true
						}
					}
					r.check(from, rule, inst, p.pos(i.Pos()), fnName(g), "variable name is an element of a pass_env / pass_unsafe_env list", "reads an invoking-shell variable whose name does not come from pass_env / pass_unsafe_env: the action's environment (and outputs) depend on the caller's shell without being hashed")
					return
				}
				r.bad(rule, inst, p.pos(i.Pos()), fnName(g), "the whole invoking environment is read while constructing an action environment")
			})
		}
	}
	r.Stats["env_constructors"] = len(roots)
	r.Stats["closure_functions"] = len(seen)
	r.floor(rule, 3)
	// (2) listed & set => stored
	rule = "E5.passenv-stored"
	nStored := 0
	for g := range seen {
		eachInstr(g, false, func(_ *ssa.Function, i ssa.Instruction) {
			c, ok := i.(*ssa.Call)
			if !ok || !isCallTo(c, "os.Getenv", "os.LookupEnv") {
				return
			}
			from := false
			for k := range p.fieldsOf(c.Call.Args[0], 0) {
				if passFields[k] {
					from = true
				}
			}
			if !from {
				return
			}
			nStored++
			// every path from the read to the end of the iteration / return passes a map update keyed by the same name,
			// except on the edge where LookupEnv reported "not set"
			isStore := func(j ssa.Instruction) bool {
				mu, ok := j.(*ssa.MapUpdate)
				return ok && mu.Key == c.Call.Args[0]
			}
			leak := false
			if isCallTo(c, "os.LookupEnv") {
				// start from the isSet==true successor
				for _, b := range g.Blocks {
					iff, ok := lastIf(b)
					if !ok {
						continue
					}
					if ex, ok := iff.Cond.(*ssa.Extract); ok && ex.Tuple == c && ex.Index == 1 {
						first := b.Succs[0].Instrs[0]
						if !isStore(first) && pathAvoidsWithinIteration(g, b.Succs[0], b, isStore) {
							leak = true
						}
					}
				}
			} else {
				if existsPath(g, c, nil, isStore) && pathAvoidsFrom(g, c, isStore) {
					leak = true
				}
			}
			// every element of the list is looked up: within the loop over the list, no path of an
			// iteration reaches the next iteration without executing this read
			loops := loopBlocks(g)
			var hdr *ssa.BasicBlock
			best := 1 << 30
			for h, body := range loops {
				for _, x := range body {
					if x == c.Block() && len(body) < best {
						hdr, best = h, len(body)
					}
				}
			}
			if hdr != nil {
				skipped := false
				isRead := func(j ssa.Instruction) bool { return j == ssa.Instruction(c) }
				for _, s := range hdr.Succs {
					inLoop := false
					for _, x := range loops[hdr] {
						if x == s {
							inLoop = true
						}
					}
					if !inLoop || s == hdr {
						continue
					}
					if len(s.Instrs) > 0 && !isRead(s.Instrs[0]) && pathAvoidsWithinIteration(g, s, c.Block(), isRead) {
						skipped = true
					}
				}
				r.check(!skipped, "E5.passenv-all-listed", "every listed variable is read", p.pos(c.Pos()), fnName(g), "no iteration over the pass_env list can skip the lookup", "an iteration over the pass_env list can skip the environment lookup for some names (e.g. a special-cased `continue`): that variable is passed to actions by another route but is missing from the hashed environment")
			}
			r.check(!leak, rule, "listed variable reaches the environment map", p.pos(c.Pos()), fnName(g), "every path after reading a set variable stores it under its own name", "a variable listed in pass_env and set in the shell can be dropped on some path (e.g. a `continue`): the action and the config hash disagree about it")
		})
	}
	if nStored < 2 {
		r.unresolved(rule, "reads of pass_env variables")
	}
	// (3) exec env explicit
	p.execEnvRule(r)
	// (4) hashing
	if rh, runtime := ruleHashAnchors(p, r, "E2.hashcover"); rh != nil {
		p.runHashCover(r, "E2.hashcover", rh, map[ssa.Value]bool{runtime: false}, []mustHash{{"pass_env", []string{"core.BuildTarget.PassEnv", "<os.Getenv>"}}, {"env", []string{"core.BuildTarget.Env", "keys:core.BuildTarget.Env"}}})
	}
	// a rule's pass_env reaches the target unfiltered: the names on BuildTarget.PassEnv are what the rule hash covers,
	// whatever the repository config passes as well (pass_unsafe_env values are deliberately in no hash)
	if ct := p.Fn("parse/asp", "createTarget"); ct == nil {
		r.unresolved("E5.passenv-carried-unfiltered", "asp.createTarget")
	} else {
		n, bad := 0, ""
		eachInstr(ct, false, func(_ *ssa.Function, i ssa.Instruction) {
			st, ok := i.(*ssa.Store)
			if !ok || fieldKey(st.Addr) != "core.BuildTarget.PassEnv" {
				return
			}
			n++
			cell, ok := st.Val.(*ssa.Alloc)
			if !ok {
				bad = "the stored pointer is not the address of the list just converted"
				return
			}
			for _, sv := range storesTo(cell) {
				c, ok := sv.(*ssa.Call)
				if !ok || c.Call.StaticCallee() == nil || c.Call.StaticCallee().Name() != "asStringList" {
					if ok {
						bad = calleeName(&c.Call)
					} else {
						bad = sv.String()
					}
				}
			}
		})
		if n == 0 {
			r.unresolved("E5.passenv-carried-unfiltered", "store to BuildTarget.PassEnv in createTarget")
		} else {
			r.check(bad == "", "E5.passenv-carried-unfiltered", "the rule's pass_env list is stored on the target as given", p.pos(ct.Pos()), fnName(ct), "target.PassEnv = &asStringList(pass_env) with nothing removed", "createTarget stores a filtered pass_env list ("+bad+"): a name the config also lists under passunsafeenv is then on no hashed list at all - not in the config hash (unsafe) and not in the rule hash (removed) - while the action still receives it, so changing its value rebuilds nothing")
		}
	}
	// the environment given to the action and the rule hash read a target's pass_env variables the same way
	{
		rl := "E9.passenv-reader-agreement"
		readers := func(fns []*ssa.Function) map[string]bool {
			out := map[string]bool{}
			for _, g := range fns {
				eachInstr(g, false, func(_ *ssa.Function, i ssa.Instruction) {
					c, ok := i.(*ssa.Call)
					if !ok || !isCallTo(c, "os.Getenv", "os.LookupEnv") {
						return
					}
					for k := range p.fieldsOf(c.Call.Args[0], 2) {
						if k == "core.BuildTarget.PassEnv" {
							out[calleeName(&c.Call)] = true
						}
					}
				})
			}
			return out
		}
		var envFns, hashFns []*ssa.Function
		if te := p.Fn("core", "TargetEnvironment"); te != nil {
			envFns = p.closure([]*ssa.Function{te}, 2, inRepoPkgs("core"))
		}
		if rh := p.Fn("build", "ruleHash"); rh != nil {
			hashFns = p.closure([]*ssa.Function{rh}, 2, inRepoPkgs("build"))
		}
		er, hr := readers(envFns), readers(hashFns)
		if len(er) == 0 || len(hr) == 0 {
			r.unresolved(rl, "reads of the target's pass_env variables in core.TargetEnvironment and build.ruleHash")
		} else {
			okk := !(er["os.LookupEnv"] && !hr["os.LookupEnv"])
			r.check(okk, rl, "unset and empty pass_env variables are told apart by both sides or by neither", "-", "core.TargetEnvironment / build.ruleHash", "environment side reads with "+strings.Join(sortedKeys(er), ",")+", hash side with "+strings.Join(sortedKeys(hr), ","), "the action's environment distinguishes an unset pass_env variable from an empty one (os.LookupEnv) while the rule hash does not (name + os.Getenv): unset -> set-but-empty changes what the action sees (${V-default}, `set -u`) without changing the hash, so nothing is rebuilt")
		}
	}
	rule = "E2.config-hash"
	if ch := p.Fn("core", "Configuration.Hash"); ch != nil {
		gbe := p.Fn("core", "Configuration.getBuildEnv")
		fromEnvKey, fromEnvVal, lang, nonce := false, false, false, false
		for _, s := range p.hashSinks(ch) {
			for _, a := range s.args {
				for x := range backSlice(a, SliceOpts{NoLookupIndex: true}) {
					if c, ok := x.(*ssa.Call); ok && callsFn(c, gbe) {
						if _, isLk := findLookup(a); isLk {
							fromEnvVal = true
						} else {
							fromEnvKey = true
						}
					}
					switch fieldKey(x) {
					case "struct.Lang":
						lang = true
					case "struct.Nonce":
						nonce = true
					}
				}
			}
		}
		r.check(fromEnvKey && fromEnvVal, rule, "config hash covers names and values of the configured build env", p.pos(ch.Pos()), fnName(ch), "keys and values of getBuildEnv(...) are written to the hash", "Configuration.Hash does not write both the names and the values of getBuildEnv(): changing a config-level pass_env variable would not trigger rebuilds")
		r.check(lang && nonce, rule, "config hash covers Lang and Nonce", p.pos(ch.Pos()), fnName(ch), "Build.Lang and Build.Nonce are written", "Build.Lang / Build.Nonce no longer reach the config hash")
		// what pass_unsafe_env lets in must not reach the config hash: includeUnsafe is false at the call, and so is
		// includePath while build.path can be filled from the caller's PATH (setBuildPath does that when PATH is passed)
		if gbe != nil {
			tainted := false
			if sbp := p.Fn("core", "setBuildPath"); sbp != nil {
				eachInstr(sbp, false, func(_ *ssa.Function, i ssa.Instruction) {
					if c, ok := i.(*ssa.Call); ok && c.Call.StaticCallee() != nil && c.Call.StaticCallee().Name() == "setDefault" {
						for _, a := range c.Call.Args {
							if tagsOf(a, SliceOpts{})["call:os.Getenv"] || tagsOf(a, SliceOpts{})["call:os.LookupEnv"] {
								tainted = true
							}
						}
					}
				})
			}
			nCalls := 0
			for _, ci := range callsInFn(ch, gbe) {
				cc := callCommon(ci)
				nCalls++
				bad := ""
				for k, prm := range gbe.Params {
					if k >= len(cc.Args) || !isBoolType(prm.Type()) {
						continue
					}
					v, isC := constBool(cc.Args[k])
					switch prm.Name() {
					case "includeUnsafe":
						if !isC || v {
							bad = "includeUnsafe"
						}
					case "includePath":
						if tainted && (!isC || v) {
							bad = "includePath"
						}
					}
				}
				r.check(bad == "", rule, "nothing passed under pass_unsafe_env reaches the config hash", p.pos(ci.Pos()), fnName(ch), "getBuildEnv is called with includeUnsafe=false (and includePath=false: build.path can come from the caller's PATH)", "Configuration.Hash calls getBuildEnv with "+bad+" set: a variable the user declared unsafe (its value must not affect hashes) flows into the config hash, e.g. PATH via build.path when `passunsafeenv = PATH`, and changing it rebuilds everything")
			}
			if nCalls == 0 {
				r.unresolved(rule, "getBuildEnv call in Configuration.Hash")
			}
		}
		// getBuildEnv is called so that pass_env is included: PassEnv reads are not under an `includeX` parameter
		if gbe != nil {
			okk := false
			// the call that adds the listed variables: of a local closure, or of a helper of this package
			eachInstr(gbe, true, func(_ *ssa.Function, ins ssa.Instruction) {
				cc := callCommon(ins)
				if cc == nil || topFunc(ins.Parent()) != gbe {
					return
				}
				callee := resolveCalleeDeep(cc)
				if callee == nil || callee.Blocks == nil || callee.Pkg != gbe.Pkg {
					return
				}
				for _, arg := range cc.Args {
					for k := range p.fieldsOf(arg, 0) {
						if k != "struct.PassEnv" {
							continue
						}
						uncond := true
						for _, f := range condFacts(ins.Block()) {
							if prm, isPrm := f.V.(*ssa.Parameter); isPrm && prm.Parent() == gbe {
								uncond = false
							}
						}
						if uncond {
							okk = true
						}
					}
				}
			})
			r.check(okk, rule, "config pass_env is always part of getBuildEnv", p.pos(gbe.Pos()), fnName(gbe), "Build.PassEnv is added unconditionally (not under includeUnsafe/includePath)", "Build.PassEnv is only added under a flag parameter: the hash (computed with flags off) would not see pass_env values")
		}
	} else {
		r.unresolved(rule, "core.Configuration.Hash")
	}
	// (5) E4
	n := p.runMapOrder(r, "E4.maporder", roots, 4, inRepoPkgs("core", "fs"))
	if n < 5 {
		r.unresolved("E4.maporder", "map ranges in the environment constructors (found "+itoa(n)+")")
	}
}

type closureCall struct {
	instr ssa.Instruction
	arg   ssa.Value
}

// callsOfLocalClosures lists (call, first argument) for calls of local closures in g.
func callsOfLocalClosures(g *ssa.Function) []closureCall {
	var out []closureCall
	eachInstr(g, false, func(_ *ssa.Function, i ssa.Instruction) {
		cc := callCommon(i)
		if cc == nil || len(cc.Args) == 0 {
			return
		}
		if tgt := resolveCalleeDeep(cc); tgt != nil && tgt.Parent() != nil {
			out = append(out, closureCall{i, cc.Args[0]})
		}
	})
	return out
}

func findLookup(v ssa.Value) (*ssa.Lookup, bool) {
	for x := range backSlice(v, SliceOpts{NoLookupIndex: true, StopAtCall: func(*ssa.Call) bool { return true }}) {
		if l, ok := x.(*ssa.Lookup); ok {
			if _, isMap := l.X.Type().Underlying().(*types.Map); isMap {
				return l, true
			}
		}
	}
	return nil, false
}

// pathAvoidsFrom: from instruction `from` to a return or a loop back edge without an avoid instruction.
func pathAvoidsFrom(fn *ssa.Function, from ssa.Instruction, avoid func(ssa.Instruction) bool) bool {
	b := from.Block()
	for k := instrIndex(from) + 1; k < len(b.Instrs); k++ {
		if avoid(b.Instrs[k]) {
			return false
		}
		if _, ok := b.Instrs[k].(*ssa.Return); ok {
			return true
		}
	}
	for _, s := range b.Succs {
		if s.Dominates(b) {
			return true
		}
		if pathAvoidsWithinIteration(fn, s, b, avoid) {
			return true
		}
	}
	return false
}

// execEnvRule: (3) of C10, shared with C30.
func (p *Prog) execEnvRule(r *Report) {
	rule := "E7.exec-env-explicit"
	ewt := p.Fn("process", "Executor.ExecWithTimeout")
	if ewt == nil {
		r.unresolved(rule, "process.Executor.ExecWithTimeout")
		return
	}
	// stores to exec.Cmd.Env anywhere in package process
	nStores, envParamStore := 0, false
	var envStore ssa.Instruction
	for _, f := range p.Funcs("process") {
		eachInstr(f, false, func(_ *ssa.Function, i ssa.Instruction) {
			st, ok := i.(*ssa.Store)
			if !ok {
				return
			}
			fa, ok := st.Addr.(*ssa.FieldAddr)
			if !ok || fieldKey(fa) != "os/exec.Cmd.Env" {
				return
			}
			nStores++
			leak := false
			for x := range backSlice(st.Val, SliceOpts{}) {
				if c, ok := x.(*ssa.Call); ok && isCallTo(c, "os.Environ") {
					leak = true
				}
			}
			r.check(!leak, rule, "exec.Cmd.Env assignment", p.pos(st.Pos()), fnName(f), "no os.Environ() in the assigned value", "the invoking process environment (os.Environ) flows into exec.Cmd.Env of an action")
			if f == ewt {
				for x := range backSlice(st.Val, SliceOpts{}) {
					if prm, ok := x.(*ssa.Parameter); ok && prm.Parent() == ewt && typeString(prm.Type()) == "[]string" {
						envParamStore = true
						envStore = st
					}
				}
			}
		})
	}
	okDom := false
	if envStore != nil {
		for _, i := range callsIn(ewt, false, "(*os/exec.Cmd).Start", "(*os/exec.Cmd).Run") {
			if instrDominates(envStore, i) {
				okDom = true
			} else {
				okDom = false
				break
			}
		}
	}
	r.check(envParamStore && okDom, rule, "ExecWithTimeout sets cmd.Env from its env parameter before Start", p.pos(ewt.Pos()), fnName(ewt), "store of a value derived from the env parameter dominates cmd.Start", "cmd.Env is not assigned from the env parameter on every path before the process starts: with a nil Env the child inherits plz's whole environment")
	if nStores == 0 {
		r.unresolved(rule, "stores to exec.Cmd.Env in package process")
	}
	// build and test packages do not spawn processes directly
	n := 0
	for _, f := range p.Funcs("build", "test") {
		eachInstr(f, false, func(_ *ssa.Function, i ssa.Instruction) {
			if isCallTo(i, "os/exec.Command", "os/exec.CommandContext", "os.StartProcess", "syscall.ForkExec") {
				n++
				r.bad("E7.exec-through-executor", calleeName(callCommon(i)), p.pos(i.Pos()), fnName(f), "packages build/test must run commands through process.Executor (explicit environment, process group, timeout); a direct exec.Command inherits the invoking environment")
			}
		})
	}
	if n == 0 {
		r.ok("E7.exec-through-executor", "no direct exec.Command in packages build and test", "-", "", "all process creation in build/test goes through process.Executor")
	}
}

func isBoolType(t types.Type) bool {
	b, ok := t.Underlying().(*types.Basic)
	return ok && b.Kind() == types.Bool
}
