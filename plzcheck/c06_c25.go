package main

import (
	"go/token"
	"go/types"
	"strings"

	"golang.org/x/tools/go/ssa"
)

func init() {
	register("C06", []string{"./src/core/...", "./src/cmap/..."}, checkC06)
	register("C25", []string{"./src/..."}, checkC25)
}

// capturedMaps: locals of outer that are maps and are used by the closure g.
func capturedMaps(outer, g *ssa.Function) []ssa.Value {
	var out []ssa.Value
	for _, fv := range g.FreeVars {
		b := freeVarBinding(fv)
		if b == nil {
			continue
		}
		t := fv.Type()
		if pt, ok := t.Underlying().(*types.Pointer); ok {
			t = pt.Elem()
		}
		if _, ok := t.Underlying().(*types.Map); ok {
			out = append(out, fv)
		}
	}
	return out
}

// mapOf: the captured variable (FreeVar) a map-typed value was loaded from.
func mapOf(v ssa.Value) ssa.Value {
	for d := 0; d < 6; d++ {
		switch x := v.(type) {
		case *ssa.UnOp:
			if x.Op == token.MUL {
				v = x.X
				continue
			}
			return v
		case *ssa.FreeVar, *ssa.Alloc, *ssa.MakeMap:
			return v
		default:
			return v
		}
	}
	return v
}

func checkC06(p *Prog, r *Report) {
	r.Explanation = "Conditional structural clauses of cycle detection. They apply to the implementation found by identity — cycleDetector.Check and the closure in it that calls itself — when it is a depth-first search with an on-stack set (a captured map that is inserted into before the recursion and whose membership test returns a non-nil cycle); if a future rewrite uses another algorithm the clauses are reported as not applicable (informational), not as violations. (1) completeness of roots: no iteration over graph.AllTargets() can finish without calling visit unless the target is already in the finished set. (2) on-stack discipline: the membership test on the on-stack set dominates the insertion; every return of visit with a nil cycle that happens after the insertion has removed the target from the on-stack set and added it to the finished set (otherwise a node left on the 'stack' is later reported as a cycle: acyclic graphs reported as cyclic); the finished set is written only there (marking a node finished before its dependencies were explored hides cycles through it). (3) the reported cycle is a chain of real edges: a non-nil cycle returned by visit is the one-element slice of the current target on the on-stack hit, the recursive result passed through, or the current target prepended to the recursive result, and the recursion is on elements of target.Dependencies(). (4) Check returns a cycle only from visit's non-nil result. Soundness/completeness over all graphs is an algorithmic property and is NOT decided."
	r.NotCovered = []string{"that the DFS finds every cycle (algorithmic completeness)", "the `done` flag protocol that trims the prefix of the reported path", "concurrent modification of the graph while the detector runs"}
	p.dependencyIdentityRule(r)
	p.valuesVisitsEveryShard(r, "cmap/E5.values-complete")
	check := p.Fn("core", "cycleDetector.Check")
	if check == nil {
		r.unresolved("E5.dfs-roots", "core.cycleDetector.Check")
		return
	}
	var visit *ssa.Function
	for _, g := range withAnon(check) {
		if g.Parent() == nil {
			continue
		}
		eachInstr(g, false, func(_ *ssa.Function, i ssa.Instruction) {
			if cc := callCommon(i); cc != nil && resolveCalleeDeep(cc) == g {
				visit = g
			}
		})
	}
	if visit == nil {
		r.info("E5.dfs-roots", "no self-recursive closure in cycleDetector.Check", p.pos(check.Pos()), fnName(check), "the detector is not a recursive DFS any more: the DFS clauses do not apply")
		r.okTrivial("E5.dfs-roots", "not applicable to this implementation", p.pos(check.Pos()), fnName(check), "no recursive visit closure")
		return
	}
	// classify captured maps: on-stack = has a membership test whose present edge returns a non-nil first result
	var onStack, finished ssa.Value
	type mapUse struct {
		lookups []*ssa.Lookup
		updates []*ssa.MapUpdate
		deletes []*ssa.Call
	}
	uses := map[ssa.Value]*mapUse{}
	use := func(m ssa.Value) *mapUse {
		if uses[m] == nil {
			uses[m] = &mapUse{}
		}
		return uses[m]
	}
	eachInstr(visit, false, func(_ *ssa.Function, i ssa.Instruction) {
		switch x := i.(type) {
		case *ssa.Lookup:
			use(mapOf(x.X)).lookups = append(use(mapOf(x.X)).lookups, x)
		case *ssa.MapUpdate:
			use(mapOf(x.Map)).updates = append(use(mapOf(x.Map)).updates, x)
		case *ssa.Call:
			if b, ok := x.Call.Value.(*ssa.Builtin); ok && b.Name() == "delete" {
				use(mapOf(x.Call.Args[0])).deletes = append(use(mapOf(x.Call.Args[0])).deletes, x)
			}
		}
	})
	cases := returnCases(visit, 0)
	for m, u := range uses {
		if _, isFV := m.(*ssa.FreeVar); !isFV {
			continue
		}
		hit := false
		for _, l := range u.lookups {
			for _, rc := range cases {
				if isNilConst(rc.Vals[0]) {
					continue
				}
				for _, f := range rc.Facts {
					if e, ok := f.V.(*ssa.Extract); ok && e.Tuple == ssa.Value(l) && e.Index == 1 && f.Val {
						hit = true
					}
				}
			}
		}
		if hit && len(u.updates) > 0 {
			onStack = m
		} else if len(u.updates) > 0 {
			finished = m
		}
	}
	if onStack == nil {
		r.info("E5.on-stack-discipline", "no on-stack set", p.pos(visit.Pos()), fnName(visit), "the recursive visit has no captured map whose membership test reports a cycle: the on-stack clauses do not apply to this implementation")
		r.okTrivial("E5.on-stack-discipline", "not applicable to this implementation", p.pos(visit.Pos()), fnName(visit), "no on-stack set")
	}
	// (0) the search state belongs to one run: the graph gains edges between runs, so a verdict of an earlier run
	// ("finished: no cycle below") does not hold for a later one
	for name, m := range map[string]ssa.Value{"finished": finished, "on-stack": onStack} {
		fv, ok := m.(*ssa.FreeVar)
		if !ok {
			continue
		}
		cell := freeVarBinding(fv)
		fresh, n := true, 0
		if a, ok := cell.(*ssa.Alloc); ok {
			for _, sv := range storesTo(a) {
				n++
				if mk, isMk := sv.(*ssa.MakeMap); !isMk || mk.Parent() != check {
					fresh = false
				}
			}
		} else if _, isMk := cell.(*ssa.MakeMap); isMk {
			n = 1
		} else {
			fresh = false
		}
		r.check(fresh && n > 0, "E7.per-run-search-state", "the "+name+" set is created by the run that uses it", p.pos(check.Pos()), fnName(check), "allocated with make() inside Check", "the "+name+" set of the cycle search outlives one run of Check (it comes from a field or another longer-lived value): dependencies are still being resolved between runs, so a target cleared in an earlier run can since have gained the edge that closes a cycle, and every later run skips it")
	}
	target := visit.Params[0]
	// (1)
	rule := "E5.dfs-roots"
	{
		allT := p.Fn("core", "BuildGraph.AllTargets")
		found := false
		for _, l := range sliceRangeLoops(check) {
			if allT == nil || !derivedFromFn(l.over, allT) {
				continue
			}
			found = true
			// assumptions: not stopped; target not finished
			assume := map[ssa.Value]bool{}
			eachInstr(check, false, func(_ *ssa.Function, i ssa.Instruction) {
				iff, ok := i.(*ssa.If)
				if !ok {
					return
				}
				f := normFact(iff.Cond, true)
				if e, ok := f.V.(*ssa.Extract); ok && e.Index == 1 {
					if lk, ok := e.Tuple.(*ssa.Lookup); ok && finished != nil && freeVarOrSame(mapOf(lk.X), finished, visit, check) {
						assume[f.V] = false
					}
				}
				if fieldKeyOfLoad(f.V) == "core.cycleDetector.stopped" {
					assume[f.V] = false
				}
			})
			skips := l.iterationSkipsAssuming(func(i ssa.Instruction) bool {
				cc := callCommon(i)
				return cc != nil && resolveCalleeDeep(cc) == visit
			}, assume)
			r.check(!skips, rule, "every unfinished target is a DFS root", p.pos(l.header.Instrs[0].Pos()), fnName(check), "an iteration over AllTargets() can only skip visit() for a target already in the finished set (or when stopped)", "an iteration over the graph's targets can complete without visiting the target although it is not finished: a cycle reachable only from that target is never reported")
		}
		if !found {
			r.bad(rule, "Check ranges over graph.AllTargets()", p.pos(check.Pos()), fnName(check), "the detector does not start a search from every target of the graph")
		}
		// (4) Check returns a cycle only from visit
		okRet := true
		n := 0
		for _, rc := range returnCases(check, 0) {
			if isNilConst(rc.Vals[0]) {
				continue
			}
			n++
			from := false
			for x := range backSlice(rc.Vals[0], SliceOpts{}) {
				if c, ok := x.(*ssa.Call); ok && resolveCalleeDeep(&c.Call) == visit {
					from = true
				}
			}
			if !from {
				okRet = false
			}
		}
		r.check(okRet && n > 0, rule, "a cycle is reported only from visit's result", p.pos(check.Pos()), fnName(check), "the returned errCycle carries the slice returned by visit", "Check can report a cycle that does not come from the search")
	}
	if onStack != nil {
		u := uses[onStack]
		rule = "E5.on-stack-discipline"
		// membership test before insertion
		okOrder := len(u.lookups) > 0 && len(u.updates) == 1
		if okOrder {
			okOrder = false
			for _, l := range u.lookups {
				if instrDominates(l, u.updates[0]) && l.Index == ssa.Value(target) {
					okOrder = true
				}
			}
		}
		r.check(okOrder, rule, "membership is tested before the target is put on the stack", p.pos(visit.Pos()), fnName(visit), "the lookup of the current target dominates its insertion", "the current target is inserted into the on-stack set before (or without) being looked up: every node reports itself as a cycle, or revisits are not detected")
		// nil-cycle returns after the insertion: delete + finished insert
		bad, n := 0, 0
		var site token.Pos
		ins := u.updates
		for _, ret := range returnsOf(visit) {
			if !isNilConst(unspill(ret.Results[0])) || len(ins) == 0 {
				continue
			}
			if !existsPath(visit, ins[0], ret, nil) {
				continue // returned before the insertion (finished / stopped / hit)
			}
			n++
			noDelete := existsPath(visit, ins[0], ret, func(j ssa.Instruction) bool {
				for _, d := range u.deletes {
					if j == ssa.Instruction(d) {
						return true
					}
				}
				return false
			})
			noFinish := finished != nil && existsPath(visit, ins[0], ret, func(j ssa.Instruction) bool {
				mu, ok := j.(*ssa.MapUpdate)
				return ok && mapOf(mu.Map) == finished
			})
			// the `stopped` bail-out is allowed to leave things as they are
			stoppedExit := false
			for _, f := range condFacts(ret.Block()) {
				if fieldKeyOfLoad(f.V) == "core.cycleDetector.stopped" && f.Val {
					stoppedExit = true
				}
			}
			if (noDelete || noFinish) && !stoppedExit {
				bad++
				site = ret.Pos()
			}
		}
		r.check(bad == 0 && n > 0, rule, "leaving a node without a cycle takes it off the stack and marks it finished", p.pos(visit.Pos()), fnName(visit), itoa(n)+" nil-cycle return(s) after the insertion, each passing delete(on-stack, target) and the insertion into the finished set", "visit can return 'no cycle' (at "+p.pos(site)+") leaving the target in the on-stack set or without marking it finished: when the node is reached again through another path it is reported as a cycle although the graph is acyclic (or is searched again for ever)")
		// finished set written only after the dependency loop
		if finished != nil {
			fu := uses[finished]
			early := false
			for _, mu := range fu.updates {
				for _, ci := range visit.Blocks {
					_ = ci
				}
				// a recursive call reachable after the finished-insertion means the node was marked before its deps were explored
				eachInstr(visit, false, func(_ *ssa.Function, i ssa.Instruction) {
					cc := callCommon(i)
					if cc != nil && resolveCalleeDeep(cc) == visit && existsPath(visit, mu, i, nil) {
						early = true
					}
				})
			}
			r.check(!early && len(fu.updates) > 0, rule, "a node is marked finished only after all its dependencies were searched", p.pos(visit.Pos()), fnName(visit), "no recursive call is reachable after the insertion into the finished set", "a target is marked finished before its dependencies have been explored: a cycle that closes through it is skipped as 'already done' and never reported")
		}
		// (3)
		rule = "E7.cycle-is-a-chain-of-edges"
		depsFn := p.Fn("core", "BuildTarget.Dependencies")
		badC, nC := 0, 0
		for _, rc := range cases {
			v := rc.Vals[0]
			if isNilConst(v) {
				continue
			}
			nC++
			ok := false
			// recursive result passed through / prepended
			rec, fresh, usesTarget := false, false, false
			foreign := false
			for x := range backSlice(v, SliceOpts{}) {
				// anything read from state shared between frames (a captured path stack, a field) is not "this target
				// plus what the callee returned"; the captured function value used for the recursion itself is fine
				if fv, isFV := x.(*ssa.FreeVar); isFV {
					if pt, isP := fv.Type().(*types.Pointer); !isP || !isFuncType(pt.Elem()) {
						foreign = true
					}
				}
				if _, isG := x.(*ssa.Global); isG {
					foreign = true
				}
				if c, isC := x.(*ssa.Call); isC && resolveCalleeDeep(&c.Call) == visit {
					rec = true
				}
				if _, isA := x.(*ssa.Alloc); isA {
					fresh = true
				}
				if x == ssa.Value(target) {
					usesTarget = true
				}
			}
			hitFact := false
			for _, f := range rc.Facts {
				if e, isE := f.V.(*ssa.Extract); isE && f.Val && e.Index == 1 {
					if lk, isL := e.Tuple.(*ssa.Lookup); isL && mapOf(lk.X) == onStack {
						hitFact = true
					}
				}
			}
			switch {
			case hitFact && fresh && usesTarget && !rec:
				ok = true // []*BuildTarget{target}
			case rec:
				ok = true // cycle, or append([]{target}, cycle...)
			}
			if foreign {
				// a cycle read off a captured path stack: acceptable exactly when the stack is kept in step with the
				// recursion (every nil-cycle return after the push passes a pop)
				ok = pathStackBalanced(visit, target)
			}
			if !ok {
				badC++
			}
		}
		r.check(badC == 0 && nC >= 2, rule, "reported cycles are built from the current target and the recursive result only", p.pos(visit.Pos()), fnName(visit), itoa(nC)+" non-nil returns: the on-stack hit, the recursive result, or the current target prepended to it", "visit can return a cycle that is neither the recursive result nor the current target in front of it: the listed targets need not depend on one another")
		recOK := false
		eachInstr(visit, false, func(_ *ssa.Function, i ssa.Instruction) {
			cc := callCommon(i)
			if cc != nil && resolveCalleeDeep(cc) == visit && len(cc.Args) > 0 && depsFn != nil && derivedFromFn(cc.Args[0], depsFn) {
				// and the accessor is applied to the current target
				for x := range backSlice(cc.Args[0], SliceOpts{}) {
					if c, ok := x.(*ssa.Call); ok && callsFn(c, depsFn) && c.Call.Args[0] == ssa.Value(target) {
						recOK = true
					}
				}
			}
		})
		r.check(recOK, rule, "the search follows edges of the current target", p.pos(visit.Pos()), fnName(visit), "visit recurses on elements of target.Dependencies()", "the recursion does not follow the dependencies of the target being visited: a reported path is not a dependency chain")
	}
}

// pathStackBalanced: visit pushes its target on a captured slice (store of append(load S, target) into S); every
// return with a nil cycle that is reachable from the push passes a store into S of a re-slice of S (the pop).
func pathStackBalanced(visit *ssa.Function, target ssa.Value) bool {
	var pushes []*ssa.Store
	isPop := func(i ssa.Instruction) bool { return false }
	eachInstr(visit, false, func(_ *ssa.Function, i ssa.Instruction) {
		st, ok := i.(*ssa.Store)
		if !ok {
			return
		}
		fv, ok := st.Addr.(*ssa.FreeVar)
		if !ok {
			return
		}
		if c, ok := st.Val.(*ssa.Call); ok {
			if b, ok := c.Call.Value.(*ssa.Builtin); ok && b.Name() == "append" {
				for _, a := range c.Call.Args[1:] {
					if derivesFromValue(a, target) {
						pushes = append(pushes, st)
					}
				}
			}
		}
		_ = fv
	})
	if len(pushes) == 0 {
		return false
	}
	cell := pushes[0].Addr
	isPop = func(i ssa.Instruction) bool {
		st, ok := i.(*ssa.Store)
		if !ok || st.Addr != cell {
			return false
		}
		sl, ok := st.Val.(*ssa.Slice)
		if !ok {
			return false
		}
		ld, ok := sl.X.(*ssa.UnOp)
		return ok && ld.X == cell
	}
	for _, push := range pushes {
		for _, ret := range returnsOf(visit) {
			if len(ret.Results) == 0 || !isNilConst(unspill(ret.Results[0])) {
				continue
			}
			if existsPath(visit, push, ret, isPop) {
				return false
			}
		}
	}
	return true
}

func isFuncType(t types.Type) bool {
	_, ok := t.Underlying().(*types.Signature)
	return ok
}

// freeVarOrSame: does map value m (seen in function `in`) denote the same captured variable as fv (a FreeVar of closure g)?
func freeVarOrSame(m, fv ssa.Value, g, in *ssa.Function) bool {
	if m == fv {
		return true
	}
	if f, ok := fv.(*ssa.FreeVar); ok {
		if b := freeVarBinding(f); b != nil && mapOf(b) == mapOf(m) {
			return true
		}
		if b := freeVarBinding(f); b != nil && b == m {
			return true
		}
	}
	return false
}

func checkC25(p *Prog, r *Report) {
	r.Explanation = "Structural clauses of garbage-collection safety (package gc). (1) the keep-closure is complete: addTarget calls itself for every element of DeclaredDependencies() and of Dependencies() (no iteration of either loop can skip the call) and for the subrepo target, and its only early return is 'already kept' or nil. (2) roots from the documented table: addTarget is called under each of — a binary that is not a test (or tests included), a target with a kept label, a target matched by the keep list, every registered subinclude, every named target / target of a named `...` pattern, and (when tests are not roots) every test whose public dependency is kept. (3) only unkept targets are proposed: the append to the removal list is on the false edge of keepTargets[...]; (4) only unused sources are proposed: the append to the source-removal list is on the false edge of keepSrcs[src], keepSrcs is filled from every kept target with the same accessor (AllLocalSourcePaths) the removal side uses. Closure correctness over arbitrary graphs follows from (1) by induction; the induction itself is not mechanised."
	r.NotCovered = []string{"the sibling/parent handling of hidden targets (gcSibling)", "BUILD-file rewriting after removal", "targets in subrepos (always kept)"}
	ttr := p.Fn("gc", "targetsToRemove")
	add := p.Fn("gc", "addTarget")
	if ttr == nil || add == nil {
		r.unresolved("E5.keep-closure-complete", "gc.targetsToRemove / gc.addTarget")
		return
	}
	// (1)
	rule := "E5.keep-closure-complete"
	{
		for _, acc := range []string{"DeclaredDependencies", "Dependencies"} {
			af := p.Fn("core", "BuildTarget."+acc)
			ok := false
			for _, l := range sliceRangeLoops(add) {
				if af != nil && derivedFromFn(l.over, af) {
					// applied to the target parameter
					onTarget := false
					for x := range backSlice(l.over, SliceOpts{}) {
						if c, isC := x.(*ssa.Call); isC && callsFn(c, af) && c.Call.Args[0] == ssa.Value(add.Params[2]) {
							onTarget = true
						}
					}
					if onTarget && !l.iterationSkips(func(i ssa.Instruction) bool { return callsFn(i, add) }) {
						ok = true
					}
				}
			}
			r.check(ok, rule, "addTarget recurses over every element of target."+acc+"()", p.pos(add.Pos()), fnName(add), "a loop over the accessor calls addTarget in every iteration", "the keep-closure does not follow every element of target."+acc+"(): something a kept target depends on through that kind of edge is proposed for removal")
		}
		// early returns only on kept/nil
		bad := 0
		for _, ret := range returnsOf(add) {
			if !existsPath(add, nil, ret, func(j ssa.Instruction) bool { return callsFn(j, add) }) {
				continue // passed the recursion
			}
			// a return reachable without recursing: must be under (m[target] || target == nil)
			if len(callsInFn(add, add)) > 0 {
				okEarly := blockJustified(ret.Block(), func(f Fact) bool {
					if _, isL := f.V.(*ssa.Lookup); isL && f.Val {
						return true
					}
					if x, eq, ok := isNilCmp(f.V); ok && eq == f.Val && x == ssa.Value(add.Params[2]) {
						return true
					}
					return false
				}, 4)
				// the final return after loops with zero iterations is fine: it is reachable only through the loop headers
				throughLoops := true
				for _, l := range sliceRangeLoops(add) {
					hdr := l.header.Instrs[len(l.header.Instrs)-1]
					if existsPath(add, nil, ret, func(j ssa.Instruction) bool { return j == hdr }) {
						throughLoops = false
					}
				}
				if !okEarly && !throughLoops {
					bad++
				}
			}
		}
		r.check(bad == 0, rule, "addTarget returns early only for an already kept or nil target", p.pos(add.Pos()), fnName(add), "every return that precedes the dependency loops is under m[target] or target == nil", "addTarget can give up on a target for another reason before following its dependencies")
		// the target is recorded
		rec := false
		eachInstr(add, false, func(_ *ssa.Function, i ssa.Instruction) {
			if mu, ok := i.(*ssa.MapUpdate); ok && mu.Map == ssa.Value(add.Params[1]) && mu.Key == ssa.Value(add.Params[2]) {
				if b, isC := constBool(mu.Value); isC && b {
					rec = true
				}
			}
		})
		r.check(rec, rule, "addTarget records the target as kept", p.pos(add.Pos()), fnName(add), "m[target] = true", "addTarget no longer records the target it was given")
	}
	// (2)
	rule = "E10.gc-root-table"
	{
		type root struct {
			name string
			pred func(f Fact) bool
		}
		isCallNamed := func(f Fact, want bool, names ...string) bool {
			c, ok := f.V.(*ssa.Call)
			if !ok || f.Val != want {
				return false
			}
			for _, n := range names {
				if strings.HasSuffix(calleeName(&c.Call), n) {
					return true
				}
			}
			return false
		}
		roots := []root{
			{"binary targets (tests only when tests are included)", func(f Fact) bool { return fieldKeyOfLoad(f.V) == "core.BuildTarget.IsBinary" && f.Val }},
			{"targets with a kept label", func(f Fact) bool { return isCallNamed(f, true, ".HasAnyLabel") }},
			{"targets matched by the keep list", func(f Fact) bool { return isCallNamed(f, true, "gc.anyInclude") }},
		}
		calls := callsInFn(ttr, add)
		for _, rt := range roots {
			found := false
			for _, ci := range calls {
				if blockJustifiedAny(ci.Block(), rt.pred, 6) {
					found = true
				}
			}
			r.check(found, rule, "root: "+rt.name, p.pos(ttr.Pos()), fnName(ttr), "an addTarget call is reachable through the true edge of this test", "no addTarget call is reachable through the test for "+rt.name+": that class of roots is no longer kept")
		}
		// subincludes, named targets, tests of kept targets: by provenance of the argument
		prov := map[string]bool{}
		for _, ci := range calls {
			arg := callCommon(ci).Args[2]
			tg := tagsOf(arg, SliceOpts{})
			if tg["core.Package.Subincludes"] {
				prov["subincludes"] = true
			}
			for x := range backSlice(arg, SliceOpts{}) {
				if prm, ok := x.(*ssa.Parameter); ok && prm.Name() == "targets" {
					prov["named targets"] = true
				}
			}
			if tg["call:(*core.Package).AllTargets"] {
				prov["targets of a named ... pattern"] = true
			}
			if callFactAny(factsAt(ci), true, ".IsTest") {
				for _, f := range factsAt(ci) {
					if l, ok := f.V.(*ssa.Lookup); ok && f.Val {
						_ = l
						prov["tests of kept targets"] = true
					}
				}
			}
		}
		for _, k := range []string{"subincludes", "named targets", "targets of a named ... pattern", "tests of kept targets"} {
			r.check(prov[k], rule, "root: "+k, p.pos(ttr.Pos()), fnName(ttr), "an addTarget call takes such a target", "no addTarget call for "+k+": they and what they depend on can be proposed for removal")
		}
	}
	// (2a) the roots are found by ranging over the graph's packages and by walking the tree for `...`: neither may lose
	// a package. PackageMap keys keep the subrepo apart from the name; the BUILD-file walker's prefix tests are bounded.
	if pm := p.Fn("core", "BuildGraph.PackageMap"); pm == nil {
		r.unresolved("E10.gc-root-table", "core.BuildGraph.PackageMap")
	} else {
		okKey := false
		eachInstr(pm, false, func(_ *ssa.Function, i ssa.Instruction) {
			if mu, ok := i.(*ssa.MapUpdate); ok {
				tg := tagsOf(mu.Key, SliceOpts{})
				if tg["core.Package.SubrepoName"] && tg["core.Package.Name"] {
					okKey = true
				}
			}
		})
		r.check(okKey, "E10.gc-root-table", "PackageMap keys distinguish a subrepo's package from the host package of the same name", p.pos(pm.Pos()), fnName(pm), "the key is built from both SubrepoName and Name", "PackageMap is keyed by the package name alone: a subrepo package and a host package with the same name (the root package \"\" is the usual case) collapse into one entry, the other one's registered subincludes are never seen as GC roots, and the subincluded build_defs and what they depend on are proposed for removal")
	}
	importRules(p, r, checkC22, "plz/", "E1.prefixbound", "E7.blacklist-operand")
	// (2b) the public dependencies of a test: a hidden sub-target of the same rule is looked through, at any depth
	if pd := p.Fn("gc", "publicDependencies"); pd == nil {
		r.unresolved("E5.same-rule-lookthrough", "gc.publicDependencies")
	} else {
		nRec, okRec := 0, 0
		for _, ci := range callsInFn(pd, pd) {
			nRec++
			for _, f := range factsAt(ci) {
				if sameRuleFact(f) {
					okRec++
					break
				}
			}
		}
		r.check(nRec > 0 && nRec == okRec, "E5.same-rule-lookthrough", "publicDependencies looks through a dependency exactly when both ends have the same parent rule", p.pos(pd.Pos()), fnName(pd), itoa(nRec)+" recursion(s), each under dep.Label.Parent() == target.Label.Parent()", "publicDependencies decides whether a dependency is an internal sub-target by comparing its parent with the current target itself: inside the recursion the current target is hidden too, so a second level of hidden sub-targets is returned as a public dependency, is not in the keep set, and the test of a kept library is proposed for removal")
	}
	// (3) + (4)
	rule = "E5.only-unkept-proposed"
	{
		nT, nS := 0, 0
		okT, okS := true, true
		eachInstr(ttr, false, func(_ *ssa.Function, i ssa.Instruction) {
			c, ok := i.(*ssa.Call)
			if !ok {
				return
			}
			if b, isB := c.Call.Value.(*ssa.Builtin); !isB || b.Name() != "append" {
				return
			}
			switch typeString(c.Type()) {
			case "core.BuildLabels":
				// the removal list (not the keep-side lists): appended under !keepTargets[...]
				under := false
				for _, f := range factsAt(c) {
					if l, isL := f.V.(*ssa.Lookup); isL && !f.Val && strings.Contains(typeString(l.X.Type()), "targetMap") {
						under = true
					}
				}
				if c.Parent() == ttr && existsPath(ttr, c, nil, nil) {
					nT++
					if !under {
						okT = false
					}
				}
			case "[]string":
				under := false
				for _, f := range factsAt(c) {
					if l, isL := f.V.(*ssa.Lookup); isL && !f.Val && typeString(l.X.Type()) == "map[string]bool" {
						under = true
					}
				}
				nS++
				if !under {
					okS = false
				}
			}
		})
		r.check(nT > 0 && okT, rule, "a target is proposed for removal only if it is not kept", p.pos(ttr.Pos()), fnName(ttr), "append to the removal list is on the false edge of keepTargets[...]", "a target can be added to the removal list without having been looked up (and found absent) in the keep set")
		r.check(nS > 0 && okS, rule, "a source is proposed for deletion only if no kept target uses it", p.pos(ttr.Pos()), fnName(ttr), "append to the source list is on the false edge of keepSrcs[src]", "a source file can be proposed for deletion without checking that no kept target uses it")
		// keepSrcs filled from every kept target with the same accessor
		als := p.Fn("core", "BuildTarget.AllLocalSourcePaths")
		fill, use := false, false
		eachInstr(ttr, false, func(_ *ssa.Function, i ssa.Instruction) {
			if mu, ok := i.(*ssa.MapUpdate); ok && typeString(mu.Map.Type()) == "map[string]bool" && als != nil && derivedFromFn(mu.Key, als) {
				// the accessor's receiver comes from a range over the keep set
				for x := range backSlice(mu.Key, SliceOpts{}) {
					if rg, ok := x.(*ssa.Range); ok && strings.Contains(typeString(rg.X.Type()), "targetMap") {
						fill = true
					}
				}
			}
			if l, ok := i.(*ssa.Lookup); ok && typeString(l.X.Type()) == "map[string]bool" && als != nil && derivedFromFn(l.Index, als) {
				use = true
			}
		})
		// every kept target contributes: no iteration over the keep set can skip the accessor
		for _, l := range mapRangeLoops(ttr) {
			if strings.Contains(typeString(l.over.Type()), "targetMap") {
				if l.iterationSkips(func(i ssa.Instruction) bool { return als != nil && callsFn(i, als) }) {
					fill = false
				}
			}
		}
		r.check(fill && use, rule, "kept sources = AllLocalSourcePaths of every kept target, looked up with the same accessor", p.pos(ttr.Pos()), fnName(ttr), "keepSrcs is filled inside a range over the keep set and queried with paths from the same accessor", "the set of sources to keep is not built from every kept target with the accessor the removal side uses: a source shared with a kept target can be deleted")
	}
}

// blockJustifiedAny: some fact satisfying ok holds on at least one way into b (used for disjunctive root conditions).
func blockJustifiedAny(b *ssa.BasicBlock, ok func(Fact) bool, depth int) bool {
	for _, f := range condFacts(b) {
		if ok(f) {
			return true
		}
	}
	if depth == 0 {
		return false
	}
	for _, pr := range b.Preds {
		for _, f := range edgeFacts(pr, b) {
			if ok(f) {
				return true
			}
		}
		if blockJustifiedAny(pr, ok, depth-1) {
			return true
		}
	}
	return false
}

func callFactAny(facts []Fact, val bool, suffix string) bool {
	for _, f := range facts {
		if c, ok := f.V.(*ssa.Call); ok && f.Val == val && strings.HasSuffix(calleeName(&c.Call), suffix) {
			return true
		}
	}
	return false
}
