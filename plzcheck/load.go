package main

import (
	"fmt"
	"go/ast"
	"go/token"
	"go/types"
	"os"
	"path/filepath"
	"sort"
	"strings"
	"time"

	"golang.org/x/tools/go/packages"
	"golang.org/x/tools/go/ssa"
	"golang.org/x/tools/go/ssa/ssautil"
)

const modPath = "github.com/thought-machine/please"

// Prog is the resolved program: type-checked packages of the repository plus
// their SSA form. Only repository packages have syntax and function bodies.
type Prog struct {
	Repo    string
	GOOS    string
	Fset    *token.FileSet
	Pkgs    []*packages.Package // repository packages (with syntax)
	ByPath  map[string]*packages.Package
	SSA     *ssa.Program
	SSAPkgs map[string]*ssa.Package
	LoadS   float64

	allFuncs []*ssa.Function // every function with a body in repo packages (incl. anonymous)
	astFunc  map[*ssa.Function]ast.Node
}

// Load type-checks patterns (relative to repo) and builds SSA for them.
func Load(repo, goos string, patterns []string) (*Prog, error) {
	t0 := time.Now()
	env := os.Environ()
	env = append(env, "GOFLAGS=-mod=mod -trimpath", "GOPROXY=off", "GOSUMDB=off", "GOTOOLCHAIN=local", "GOWORK=off", "CGO_ENABLED=0")
	if goos != "" {
		env = append(env, "GOOS="+goos)
	}
	cfg := &packages.Config{
		Mode:  packages.LoadSyntax,
		Dir:   repo,
		Env:   env,
		Tests: false,
	}
	pkgs, err := packages.Load(cfg, patterns...)
	if err != nil {
		return nil, err
	}
	if len(pkgs) == 0 {
		return nil, fmt.Errorf("no packages loaded for %v", patterns)
	}
	var errs []string
	for _, p := range pkgs {
		for _, e := range p.Errors {
			errs = append(errs, e.Error())
		}
		if p.Types == nil || p.TypesInfo == nil || len(p.Syntax) == 0 {
			errs = append(errs, "package without syntax/types: "+p.PkgPath)
		}
	}
	if len(errs) > 0 {
		if len(errs) > 10 {
			errs = errs[:10]
		}
		return nil, fmt.Errorf("load/type errors: %s", strings.Join(errs, "; "))
	}
	prog, ssapkgs := ssautil.Packages(pkgs, ssa.InstantiateGenerics)
	P := &Prog{Repo: repo, GOOS: goos, Fset: pkgs[0].Fset, Pkgs: pkgs, ByPath: map[string]*packages.Package{}, SSA: prog, SSAPkgs: map[string]*ssa.Package{}, astFunc: map[*ssa.Function]ast.Node{}}
	for i, p := range pkgs {
		P.ByPath[p.PkgPath] = p
		if ssapkgs[i] == nil {
			return nil, fmt.Errorf("no SSA package for %s", p.PkgPath)
		}
		ssapkgs[i].Build()
		P.SSAPkgs[p.PkgPath] = ssapkgs[i]
	}
	seen := map[*ssa.Function]bool{}
	var add func(f *ssa.Function)
	add = func(f *ssa.Function) {
		if f == nil || seen[f] || f.Blocks == nil {
			return
		}
		seen[f] = true
		P.allFuncs = append(P.allFuncs, f)
		for _, a := range f.AnonFuncs {
			add(a)
		}
	}
	for _, sp := range P.SSAPkgs {
		for _, m := range sp.Members {
			switch m := m.(type) {
			case *ssa.Function:
				add(m)
			case *ssa.Type:
				if named, ok := m.Type().(*types.Named); ok {
					for i := 0; i < named.NumMethods(); i++ {
						add(prog.FuncValue(named.Method(i)))
					}
				}
			}
		}
	}
	sort.Slice(P.allFuncs, func(i, j int) bool { return P.pos(P.allFuncs[i].Pos()) < P.pos(P.allFuncs[j].Pos()) })
	theProg = P
	sats = buildSatIndex(P)
	sats.disabled = os.Getenv("PLZCHECK_NOSAT") != ""
	P.LoadS = time.Since(t0).Seconds()
	return P, nil
}

// pos renders a position relative to the repo root.
func (p *Prog) pos(pos token.Pos) string {
	if !pos.IsValid() {
		return "-"
	}
	ps := p.Fset.Position(pos)
	rel, err := filepath.Rel(p.Repo, ps.Filename)
	if err != nil {
		rel = ps.Filename
	}
	return fmt.Sprintf("%s:%d", rel, ps.Line)
}

func (p *Prog) pkg(short string) *ssa.Package {
	for _, c := range []string{modPath + "/src/" + short, modPath + "/" + short, short} {
		if sp := p.SSAPkgs[c]; sp != nil {
			return sp
		}
	}
	return nil
}

// Fn finds a function or method. name: "Func", "Type.Method" (value or pointer
// receiver). Returns nil if absent.
func (p *Prog) Fn(pkgShort, name string) *ssa.Function {
	sp := p.pkg(pkgShort)
	if sp == nil {
		return nil
	}
	if tn, mn, ok := strings.Cut(name, "."); ok {
		m, _ := sp.Members[tn].(*ssa.Type)
		if m == nil {
			return nil
		}
		named, ok := m.Type().(*types.Named)
		if !ok {
			return nil
		}
		for i := 0; i < named.NumMethods(); i++ {
			if named.Method(i).Name() == mn {
				return p.SSA.FuncValue(named.Method(i))
			}
		}
		return nil
	}
	return sp.Func(name)
}

// Funcs returns every function with a body in repository packages whose
// package short path has one of the prefixes (empty = all).
func (p *Prog) Funcs(pkgShort ...string) []*ssa.Function {
	if len(pkgShort) == 0 {
		return p.allFuncs
	}
	var out []*ssa.Function
	for _, f := range p.allFuncs {
		pk := fnPkg(f)
		for _, s := range pkgShort {
			if pk == modPath+"/src/"+s || pk == modPath+"/"+s {
				out = append(out, f)
				break
			}
		}
	}
	return out
}

func fnPkg(f *ssa.Function) string {
	for f.Parent() != nil {
		f = f.Parent()
	}
	if f.Pkg != nil {
		return f.Pkg.Pkg.Path()
	}
	if o := f.Object(); o != nil && o.Pkg() != nil {
		return o.Pkg().Path()
	}
	return ""
}

// fnName is a stable, line-free name: pkg.(Type).Method or pkg.Func$1.
func fnName(f *ssa.Function) string {
	if f == nil {
		return "<nil>"
	}
	return shorten(f.String())
}

// Type looks up a named type.
func (p *Prog) Type(pkgShort, name string) types.Type {
	pk := p.ByPath[modPath+"/src/"+pkgShort]
	if pk == nil {
		pk = p.ByPath[modPath+"/"+pkgShort]
	}
	if pk == nil {
		return nil
	}
	o := pk.Types.Scope().Lookup(name)
	if o == nil {
		return nil
	}
	return o.Type()
}

// Field returns the *types.Var of a struct field of a named type.
func (p *Prog) Field(pkgShort, typ, field string) *types.Var {
	t := p.Type(pkgShort, typ)
	if t == nil {
		return nil
	}
	st, ok := t.Underlying().(*types.Struct)
	if !ok {
		return nil
	}
	for i := 0; i < st.NumFields(); i++ {
		if st.Field(i).Name() == field {
			return st.Field(i)
		}
	}
	return nil
}
