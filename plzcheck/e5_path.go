package main

import (
	"go/constant"
	"go/token"
	"go/types"

	"golang.org/x/tools/go/ssa"
)

// E5 pathrule primitives: event counting over all paths, assumption-aware
// reachability, deep callee resolution.

const inf = 1 << 30

// resolveCalleeDeep resolves the callee of a call, also through a local
// variable that holds exactly one closure (x := func(){...}; defer x()).
func resolveCalleeDeep(cc *ssa.CallCommon) *ssa.Function {
	if cc == nil {
		return nil
	}
	if f := cc.StaticCallee(); f != nil {
		return f
	}
	if cc.IsInvoke() {
		return nil
	}
	v := cc.Value
	for d := 0; d < 10; d++ {
		switch x := v.(type) {
		case *ssa.MakeClosure:
			return x.Fn.(*ssa.Function)
		case *ssa.Function:
			return x
		case *ssa.UnOp:
			if x.Op != token.MUL {
				return nil
			}
			v = x.X
		case *ssa.FreeVar:
			b := freeVarBinding(x)
			if b == nil {
				return nil
			}
			v = b
		case *ssa.Alloc:
			st := storesTo(x)
			if len(st) != 1 {
				return nil
			}
			v = st[0]
		case *ssa.Phi:
			return nil
		default:
			return nil
		}
	}
	return nil
}

// eventCount returns the minimum and maximum number of events on any
// entry->return path of fn. weight gives the (min,max) contribution of one
// instruction. Panicking exits are not returns. max == inf if a loop contains
// an event.
func eventCount(fn *ssa.Function, weight func(i ssa.Instruction) (int, int)) (int, int) {
	n := len(fn.Blocks)
	if n == 0 {
		return 0, 0
	}
	lo := make([]int, n)
	hi := make([]int, n)
	isRet := make([]bool, n)
	for _, b := range fn.Blocks {
		for _, i := range b.Instrs {
			l, h := weight(i)
			lo[b.Index] += l
			hi[b.Index] += h
			if hi[b.Index] > inf {
				hi[b.Index] = inf
			}
			if _, ok := i.(*ssa.Return); ok {
				isRet[b.Index] = true
			}
		}
	}
	// co-reachability to a return
	co := make([]bool, n)
	changed := true
	for changed {
		changed = false
		for _, b := range fn.Blocks {
			if co[b.Index] {
				continue
			}
			if isRet[b.Index] {
				co[b.Index] = true
				changed = true
				continue
			}
			for _, s := range b.Succs {
				if co[s.Index] {
					co[b.Index] = true
					changed = true
					break
				}
			}
		}
	}
	if !co[0] {
		return 0, 0
	}
	// min: Bellman-Ford on node weights
	dist := make([]int, n)
	for i := range dist {
		dist[i] = inf
	}
	dist[0] = lo[0]
	for it := 0; it < n+1; it++ {
		ch := false
		for _, b := range fn.Blocks {
			if dist[b.Index] == inf || !co[b.Index] {
				continue
			}
			for _, s := range b.Succs {
				if !co[s.Index] {
					continue
				}
				if d := dist[b.Index] + lo[s.Index]; d < dist[s.Index] {
					dist[s.Index] = d
					ch = true
				}
			}
		}
		if !ch {
			break
		}
	}
	minV := inf
	for i := 0; i < n; i++ {
		if isRet[i] && dist[i] < minV {
			minV = dist[i]
		}
	}
	// max: SCCs (Tarjan) over reachable & co-reachable blocks
	index := make([]int, n)
	low := make([]int, n)
	on := make([]bool, n)
	comp := make([]int, n)
	for i := range index {
		index[i] = -1
		comp[i] = -1
	}
	var stack []int
	idx, ncomp := 0, 0
	var strong func(v int)
	strong = func(v int) {
		index[v] = idx
		low[v] = idx
		idx++
		stack = append(stack, v)
		on[v] = true
		for _, s := range fn.Blocks[v].Succs {
			w := s.Index
			if !co[w] {
				continue
			}
			if index[w] == -1 {
				strong(w)
				if low[w] < low[v] {
					low[v] = low[w]
				}
			} else if on[w] && index[w] < low[v] {
				low[v] = index[w]
			}
		}
		if low[v] == index[v] {
			for {
				w := stack[len(stack)-1]
				stack = stack[:len(stack)-1]
				on[w] = false
				comp[w] = ncomp
				if w == v {
					break
				}
			}
			ncomp++
		}
	}
	strong(0)
	size := make([]int, ncomp)
	chi := make([]int, ncomp)
	selfLoop := make([]bool, ncomp)
	for i := 0; i < n; i++ {
		if comp[i] < 0 {
			continue
		}
		size[comp[i]]++
		chi[comp[i]] += hi[i]
		for _, s := range fn.Blocks[i].Succs {
			if s.Index == i {
				selfLoop[comp[i]] = true
			}
		}
	}
	for c := 0; c < ncomp; c++ {
		if (size[c] > 1 || selfLoop[c]) && chi[c] > 0 {
			return minV, inf
		}
	}
	// longest path on the component DAG; Tarjan numbers components in reverse topological order
	best := make([]int, ncomp)
	for i := range best {
		best[i] = -1
	}
	best[comp[0]] = chi[comp[0]]
	for c := ncomp - 1; c >= 0; c-- {
		if best[c] < 0 {
			continue
		}
		for i := 0; i < n; i++ {
			if comp[i] != c {
				continue
			}
			for _, s := range fn.Blocks[i].Succs {
				w := comp[s.Index]
				if w < 0 || w == c {
					continue
				}
				if v := best[c] + chi[w]; v > best[w] {
					best[w] = v
				}
			}
		}
	}
	maxV := 0
	for i := 0; i < n; i++ {
		if isRet[i] && comp[i] >= 0 && best[comp[i]] > maxV {
			maxV = best[comp[i]]
		}
	}
	if maxV > inf {
		maxV = inf
	}
	return minV, maxV
}

// countCalls counts calls (call or defer, not go) to the target functions on
// all paths of fn, looking through local closures invoked or deferred by fn.
func countCalls(fn *ssa.Function, targets []*ssa.Function, depth int) (int, int) {
	return eventCount(fn, func(i ssa.Instruction) (int, int) {
		if _, isGo := i.(*ssa.Go); isGo {
			return 0, 0
		}
		cc := callCommon(i)
		if cc == nil {
			return 0, 0
		}
		callee := resolveCalleeDeep(cc)
		if callee == nil {
			return 0, 0
		}
		org := callee
		if org.Origin() != nil {
			org = org.Origin()
		}
		for _, t := range targets {
			if org == t {
				return 1, 1
			}
		}
		// look through closures defined in the same top-level function
		if depth > 0 && callee.Parent() != nil && callee.Blocks != nil {
			return countCalls(callee, targets, depth-1)
		}
		return 0, 0
	})
}

func rangeStr(lo, hi int) string {
	h := itoa(hi)
	if hi >= inf {
		h = "unbounded"
	}
	l := itoa(lo)
	if lo >= inf {
		l = "none(no return)"
	}
	return "[" + l + ", " + h + "]"
}

// existsPathAssuming is existsPath with branch assumptions: an `if` whose
// (un-negated) condition is in assume only follows the assumed edge.
func existsPathAssuming(fn *ssa.Function, from, to ssa.Instruction, avoid func(ssa.Instruction) bool, assume map[ssa.Value]bool) bool {
	if len(fn.Blocks) == 0 {
		return false
	}
	avoid = withCallSummaries(fn, avoid)
	b0, idx := fn.Blocks[0], 0
	if from != nil {
		b0, idx = from.Block(), instrIndex(from)+1
	}
	seen := map[*ssa.BasicBlock]bool{}
	var st []*ssa.BasicBlock
	scan := func(b *ssa.BasicBlock, k0 int) bool {
		for k := k0; k < len(b.Instrs); k++ {
			in := b.Instrs[k]
			if to != nil && in == to {
				return true
			}
			if avoid != nil && avoid(in) {
				return false
			}
			if to == nil {
				if _, ok := in.(*ssa.Return); ok {
					return true
				}
			}
		}
		succs := b.Succs
		if len(b.Instrs) > 0 {
			if iff, ok := b.Instrs[len(b.Instrs)-1].(*ssa.If); ok && len(succs) == 2 {
				f := normFact(iff.Cond, true)
				if cb, isC := constBool(iff.Cond); isC {
					if cb {
						succs = succs[:1]
					} else {
						succs = succs[1:]
					}
				} else if want, ok := assume[f.V]; ok {
					if want == f.Val {
						succs = succs[:1]
					} else {
						succs = succs[1:]
					}
				}
			}
		}
		for _, sc := range succs {
			if !seen[sc] {
				seen[sc] = true
				st = append(st, sc)
			}
		}
		return false
	}
	if scan(b0, idx) {
		return true
	}
	for len(st) > 0 {
		b := st[len(st)-1]
		st = st[:len(st)-1]
		if scan(b, 0) {
			return true
		}
	}
	return false
}

// ConstInt returns the value of an integer constant declared in a package.
func (p *Prog) ConstInt(pkgShort, name string) (int64, bool) {
	pk := p.ByPath[modPath+"/src/"+pkgShort]
	if pk == nil {
		return 0, false
	}
	c, ok := pk.Types.Scope().Lookup(name).(*types.Const)
	if !ok {
		return 0, false
	}
	return constant.Int64Val(c.Val())
}

// callers lists every call-like instruction in the program whose static callee
// (or generic origin) is fn, outside test files (test files are never loaded).
func (p *Prog) callers(fn *ssa.Function) []ssa.Instruction {
	var out []ssa.Instruction
	for _, f := range p.allFuncs {
		eachInstr(f, false, func(_ *ssa.Function, i ssa.Instruction) {
			if callsFn(i, fn) {
				out = append(out, i)
			}
		})
	}
	return out
}

// topFunc is the outermost enclosing function.
func topFunc(f *ssa.Function) *ssa.Function {
	for f.Parent() != nil {
		f = f.Parent()
	}
	return f
}

// withAnon returns fn and all nested closures.
func withAnon(fn *ssa.Function) []*ssa.Function {
	if fn == nil {
		return nil
	}
	out := anonOf(fn)
	for _, g := range satellitesOf(fn) {
		out = append(out, anonOf(g)...)
	}
	return out
}

// anonOf returns fn and all nested closures.
func anonOf(fn *ssa.Function) []*ssa.Function {
	out := []*ssa.Function{fn}
	for _, a := range fn.AnonFuncs {
		out = append(out, anonOf(a)...)
	}
	return out
}
