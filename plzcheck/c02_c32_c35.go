package main

import (
	"go/token"
	"strings"

	"golang.org/x/tools/go/ssa"
)

func init() {
	register("C02", []string{"./src/..."}, checkC02)
	register("C32", []string{"./src/..."}, checkC32)
	register("C35", []string{"./src/..."}, checkC35)
}

type stepAnchors struct {
	*gateAnchors
	calc, retrieveArtifacts, retrieveFromCache, storeInCache, shortHash, removeOutputs *ssa.Function
	build, Build, storeMD, loadMD, checkHashes, checkOfType, outputHash                *ssa.Function
	collapse                                                                           *ssa.Function
}

func (p *Prog) step(r *Report, rule string) *stepAnchors {
	g := p.gate(r, rule)
	if g == nil {
		return nil
	}
	a := &stepAnchors{gateAnchors: g,
		calc:              p.Fn("build", "calculateAndCheckRuleHash"),
		retrieveArtifacts: p.Fn("build", "retrieveArtifacts"),
		retrieveFromCache: p.Fn("build", "retrieveFromCache"),
		storeInCache:      p.Fn("build", "storeInCache"),
		shortHash:         p.Fn("build", "mustShortTargetHash"),
		removeOutputs:     p.Fn("build", "RemoveOutputs"),
		build:             p.Fn("build", "build"),
		Build:             p.Fn("build", "Build"),
		storeMD:           p.Fn("build", "StoreTargetMetadata"),
		loadMD:            p.Fn("build", "loadTargetMetadata"),
		checkHashes:       p.Fn("build", "checkRuleHashes"),
		checkOfType:       p.Fn("build", "checkRuleHashesOfType"),
		outputHash:        p.Fn("build", "outputHash"),
		collapse:          p.Fn("core", "CollapseHash"),
	}
	miss := ""
	for n, f := range map[string]*ssa.Function{"calculateAndCheckRuleHash": a.calc, "retrieveArtifacts": a.retrieveArtifacts, "retrieveFromCache": a.retrieveFromCache, "storeInCache": a.storeInCache, "mustShortTargetHash": a.shortHash,
		"RemoveOutputs": a.removeOutputs, "build": a.build, "Build": a.Build, "StoreTargetMetadata": a.storeMD, "loadTargetMetadata": a.loadMD, "checkRuleHashes": a.checkHashes, "checkRuleHashesOfType": a.checkOfType, "outputHash": a.outputHash, "CollapseHash": a.collapse} {
		if f == nil {
			miss += n + " "
		}
	}
	if miss != "" {
		r.unresolved(rule, "build step anchors: "+miss)
		return nil
	}
	return a
}

// ---------------------------------------------------------------- C02

func checkC02(p *Prog, r *Report) {
	r.Explanation = "Structural necessary conditions of 'a cache restore equals a build'. (1) key provenance: the key argument of every core.Cache Store/Retrieve call in package build derives (through parameters, at every call site) from mustShortTargetHash, and mustShortTargetHash is CollapseHash of the full target hash. (2) key covers all parts: in core.CollapseHash the result bytes depend on segments {0,1,2,3} of the input in the general branch and {0,2,3} in the duplicate-rule-hash branch (constant offsets of the index expressions). (3) restored artifacts are re-verified: every true return of retrieveArtifacts after a non-nil retrieveFromCache is dominated by calculateAndCheckRuleHash with a nil error; the error edge removes the outputs and returns false; retrieveFromCache returns metadata only on a true Retrieve and a nil load error. (4) buildTarget returns success from the cache branch only on retrieveArtifacts()==true. (5) storing happens only after the outputs were moved and verified. Rule/source hash coverage is decided under C08/C01, fidelity of the directory cache under C12."
	r.NotCovered = []string{"XOR collisions between the four parts of the key (assumed negligible)", "byte equality of restored trees", "remote execution cache"}
	a := p.step(r, "E7.cache-key-provenance")
	if a == nil {
		return
	}
	// (1)
	rule := "E7.cache-key-provenance"
	build := p.Funcs("build")
	sites := invokesOf(build, "(core.Cache).Store", "(core.Cache).Retrieve")
	isShort := func(v ssa.Value) bool {
		c, ok := v.(*ssa.Call)
		return ok && callsFn(c, a.shortHash)
	}
	for _, s := range sites {
		cc := callCommon(s)
		if len(cc.Args) < 2 {
			continue
		}
		okk := p.deepDerives(cc.Args[1], isShort, 3, SliceOpts{NoCallArgs: true})
		r.check(okk, rule, calleeName(cc)+" key derives from mustShortTargetHash", p.pos(s.Pos()), fnName(s.Parent()), "key argument is (a parameter bound at every call site to) the collapsed target hash", "the cache key passed here is not derived from mustShortTargetHash (rule+config+source hash of the current target): artifacts can be stored under or fetched for a key that does not describe the target's current inputs")
	}
	r.floor(rule, 4)
	// mustShortTargetHash = CollapseHash(targetHash)
	{
		okk := false
		for _, ret := range returnsOf(a.shortHash) {
			v := unspill(ret.Results[0])
			if c, ok := v.(*ssa.Call); ok && callsFn(c, a.collapse) {
				tg := tagsOf(c.Call.Args[0], SliceOpts{Interproc: 2, Prog: p})
				if tg["call:build.targetHash"] || tg["call:build.mustTargetHash"] {
					okk = true
				}
			}
		}
		r.check(okk, rule, "mustShortTargetHash = CollapseHash(targetHash)", p.pos(a.shortHash.Pos()), fnName(a.shortHash), "collapses the full rule(pre) rule(post) config source hash", "mustShortTargetHash is not CollapseHash of the full target hash")
	}
	// (2) CollapseHash segments
	rule = "E10.collapse-covers-all-parts"
	{
		sz := int64(20)
		type acc struct {
			offs map[int64]bool
			dup  int // 1: duplicate branch, 0: general, -1 unknown
		}
		byBlockCond := map[string]map[int64]bool{"dup": {}, "gen": {}}
		var eq *ssa.Call
		eachInstr(a.collapse, false, func(_ *ssa.Function, i ssa.Instruction) {
			if c, ok := i.(*ssa.Call); ok && isCallTo(c, "bytes.Equal") {
				eq = c
			}
		})
		eachInstr(a.collapse, false, func(_ *ssa.Function, i ssa.Instruction) {
			ia, ok := i.(*ssa.IndexAddr)
			if !ok {
				return
			}
			if _, isP := ia.X.(*ssa.Parameter); !isP {
				return
			}
			off := int64(0)
			if bo, ok := ia.Index.(*ssa.BinOp); ok && bo.Op == token.ADD {
				if c, ok := constInt(bo.Y); ok {
					off = c
				} else if c, ok := constInt(bo.X); ok {
					off = c
				}
			}
			branch := ""
			for _, f := range condFacts(ia.Block()) {
				if f.V == eq {
					if f.Val {
						branch = "dup"
					} else {
						branch = "gen"
					}
				}
			}
			if branch != "" {
				byBlockCond[branch][off/sz] = true
			}
		})
		segs := func(m map[int64]bool) string {
			s := ""
			for k := int64(0); k < 8; k++ {
				if m[k] {
					s += itoa(int(k))
				}
			}
			return s
		}
		r.check(eq != nil && segs(byBlockCond["gen"]) == "0123", rule, "general branch folds segments 0,1,2,3", p.pos(a.collapse.Pos()), fnName(a.collapse), "index offsets cover rule(pre), rule(post), config, source", "in the general branch CollapseHash reads segments {"+segs(byBlockCond["gen"])+"} of the target hash, not {0123}: a change confined to the dropped part keeps the cache key, so a stale artifact is restored for changed inputs")
		d := byBlockCond["dup"]
		r.check(eq != nil && d[0] && d[2] && d[3], rule, "duplicate-rule-hash branch folds segments 0,2,3", p.pos(a.collapse.Pos()), fnName(a.collapse), "index offsets cover rule, config, source", "in the duplicate-rule-hash branch CollapseHash reads segments {"+segs(d)+"}: rule, config or source hash is missing from the cache key")
	}
	p.restoreVerifiedRule(r, a, "E5.restore-verified")
	p.outputHashRecalcRule(r, a, "E5.restore-verified")
	importRules(p, r, checkC09, "fs/", "E5.recalc-reads-content")
	// the compressed directory cache must store and restore the same tree shape
	importRules(p, r, checkC12, "cache/", "E9.archive-writer-reader", "E9.link-both-ways", "E5.retrieve-clears-the-way")
	// what sits in plz-out may be a hard link into a cache entry (the directory cache stores and restores by link):
	// the metadata file is replaced by unlink + create, never truncated and rewritten in place
	if stm := p.Fn("build", "StoreTargetMetadata"); stm == nil {
		r.unresolved("E8.cached-file-replaced-not-rewritten", "build.StoreTargetMetadata")
	} else {
		n, bad := 0, 0
		var site token.Pos
		eachInstr(stm, false, func(_ *ssa.Function, i ssa.Instruction) {
			c, ok := i.(*ssa.Call)
			if !ok || !(isCallTo(c, "os.Create", "os.OpenFile", "os.WriteFile", "fs.OpenDirFile")) {
				return
			}
			n++
			path := c.Call.Args[0]
			unlinked := false
			eachInstr(stm, false, func(_ *ssa.Function, j ssa.Instruction) {
				rc, ok := j.(*ssa.Call)
				if !ok || !isCallTo(rc, "fs.RemoveAll", "os.RemoveAll", "os.Remove") || !instrDominates(rc, c) {
					return
				}
				if rc.Call.Args[0] == path || (derivesFromValue(path, rc.Call.Args[0]) || derivesFromValue(rc.Call.Args[0], path)) {
					if k, isNil := errKnown(factsAt(c), resultsOf(rc, 0)); k && isNil {
						unlinked = true
					}
				}
			})
			if !unlinked {
				bad++
				site = c.Pos()
			}
		})
		if n == 0 {
			r.unresolved("E8.cached-file-replaced-not-rewritten", "the call that creates the metadata file in StoreTargetMetadata")
		} else {
			r.check(bad == 0, "E8.cached-file-replaced-not-rewritten", "the metadata file is unlinked before it is written again", p.pos(site), fnName(stm), "the create is dominated by a successful RemoveAll of the same path", "StoreTargetMetadata truncates and rewrites the existing metadata file in place: with the (uncompressed) directory cache that file is the same inode as the metadata inside the cache entry of the previous state, so building state B rewrites what is stored for state A, and restoring A later yields B's metadata (wrong optional outputs / output directories / post-build output)")
		}
	}
	// (4) cache branch of buildTarget
	rule = "E5.cache-branch-success"
	{
		bt := a.buildTarget
		n := 0
		for _, ci := range callsInFn(bt, a.retrieveArtifacts) {
			c, ok := ci.(*ssa.Call)
			if !ok {
				continue
			}
			n++
			// every return reachable from here without build() that is nil/writeRuleHash must be under c == true
			for _, ret := range returnsOf(bt) {
				if !existsPath(bt, c, ret, func(j ssa.Instruction) bool { return callsFn(j, a.build, a.retrieveArtifacts) }) {
					continue
				}
				v := unspill(ret.Results[0])
				if !isNilConst(v) && !isResultOfFn(v, a.writeRule) {
					continue
				}
				under := hasFact(condFacts(ret.Block()), true, func(v ssa.Value) bool { return v == c })
				r.check(under, rule, "success right after retrieveArtifacts requires it returned true", p.pos(ret.Pos()), fnName(bt), "return is on the true edge of retrieveArtifacts(...)", "buildTarget can return success after the cache lookup without retrieveArtifacts having returned true and without building")
			}
		}
		if n == 0 {
			r.unresolved(rule, "retrieveArtifacts calls in buildTarget")
		}
	}
	// (5) store after move+verify
	rule = "E5.store-after-verify"
	{
		bt := a.buildTarget
		n := 0
		for _, ci := range callsInFnS(bt, a.storeInCache) {
			n++
			mv := dominatedByCall(ci, a.moveOutputs)
			cv := dominatedByCall(ci, a.calc)
			okk := mv != nil && cv != nil
			if okk {
				k1, n1 := errKnown(factsAt(ci), resultsOf(mv, 2))
				k2, n2 := errKnown(factsAt(ci), resultsOf(cv, 1))
				okk = k1 && n1 && k2 && n2
			}
			r.check(okk, rule, "storeInCache dominated by successful moveOutputs and calculateAndCheckRuleHash", p.pos(ci.Pos()), fnName(bt), "artifacts are stored only after they were moved into place and their hashes verified (nil errors)", "artifacts can be stored in the cache before/without moveOutputs and calculateAndCheckRuleHash having succeeded: an unverified or partial output set becomes a cache entry")
		}
		if n < 2 {
			r.unresolved(rule, "storeInCache calls in buildTarget")
		}
	}
}

// restoreVerifiedRule is shared by C02 and C35.
func (p *Prog) restoreVerifiedRule(r *Report, a *stepAnchors, rule string) {
	ra := a.retrieveArtifacts
	var rfc, calc *ssa.Call
	for _, ci := range callsInFn(ra, a.retrieveFromCache) {
		rfc, _ = ci.(*ssa.Call)
	}
	for _, ci := range callsInFn(ra, a.calc) {
		calc, _ = ci.(*ssa.Call)
	}
	if rfc == nil || calc == nil {
		r.unresolved(rule, "retrieveFromCache / calculateAndCheckRuleHash calls in retrieveArtifacts")
		return
	}
	nTrue, nBad, nFalseNoRemove := 0, 0, 0
	var site token.Pos
	for _, rc := range returnCases(ra, 0) {
		b, isC := constBool(rc.Vals[0])
		if !isC {
			nBad++
			site = rc.Site
			continue
		}
		retrieved, isNil := errKnown(rc.Facts, []ssa.Value{rfc})
		if b {
			nTrue++
			if retrieved && !isNil {
				k, n := errKnown(rc.Facts, resultsOf(calc, 1))
				if !k || !n {
					nBad++
					site = rc.Site
				}
			} else if !retrieved {
				// true without having consulted the cache at all: must be the no-declared-outputs case
				hasLen := false
				for _, f := range rc.Facts {
					if bo, ok := f.V.(*ssa.BinOp); ok && bo.Op == token.EQL && f.Val {
						if c, ok := constInt(bo.Y); ok && c == 0 {
							hasLen = true
						}
					}
				}
				if !hasLen {
					nBad++
					site = rc.Site
				}
			} else {
				nBad++ // md == nil yet true
				site = rc.Site
			}
		} else {
			// false after a verification error: outputs must have been removed
			if k, n := errKnown(rc.Facts, resultsOf(calc, 1)); k && !n {
				if existsPath(ra, calc, rc.Ret, func(j ssa.Instruction) bool { return callsFn(j, a.removeOutputs) }) {
					nFalseNoRemove++
					site = rc.Site
				}
			}
		}
	}
	r.check(nBad == 0 && nTrue >= 2, rule, "retrieveArtifacts: true only for verified artifacts", p.pos(ra.Pos()), fnName(ra), itoa(nTrue)+" true returns: no declared outputs, or retrieved and calculateAndCheckRuleHash err == nil", "retrieveArtifacts can report a cache hit (at "+p.pos(site)+") without the restored outputs having passed calculateAndCheckRuleHash: artifacts stored under other inputs or failing their declared hashes are used as built")
	r.check(nFalseNoRemove == 0, rule, "verification failure removes the restored outputs", p.pos(calc.Pos()), fnName(ra), "every path from the error edge to return passes RemoveOutputs", "after restored artifacts failed verification retrieveArtifacts can return (at "+p.pos(site)+") leaving them in plz-out")
	// retrieveFromCache: metadata only on hit + nil load error
	rf := a.retrieveFromCache
	nNonNil, bad := 0, 0
	for _, rc := range returnCases(rf, 0) {
		if isNilConst(rc.Vals[0]) {
			continue
		}
		nNonNil++
		hit := false
		for _, f := range rc.Facts {
			if c, ok := f.V.(*ssa.Call); ok && f.Val && c.Call.IsInvoke() && c.Call.Method.Name() == "Retrieve" {
				hit = true
			}
		}
		loadOK := false
		for _, ci := range callsInFn(rf, a.loadMD) {
			if c, ok := ci.(*ssa.Call); ok {
				if k, n := errKnown(rc.Facts, resultsOf(c, 1)); k && n {
					loadOK = true
				}
			}
		}
		if !hit || !loadOK {
			bad++
		}
	}
	r.check(bad == 0 && nNonNil > 0, rule, "retrieveFromCache: metadata only on a hit that loads", p.pos(rf.Pos()), fnName(rf), "non-nil result requires Cache.Retrieve()==true and loadTargetMetadata err == nil", "retrieveFromCache can return metadata without a cache hit or with a failed metadata load")
}

// ---------------------------------------------------------------- C32

func checkC32(p *Prog, r *Report) {
	r.Explanation = "Structural necessary conditions of crash safety: the records later builds trust are written last and read defensively. (1) commit order in buildTarget: the call that writes the hash record (calculateAndCheckRuleHash -> writeRuleHash) after an action ran is dominated by moveOutputs with a nil error, which is dominated by StoreTargetMetadata with a nil error; on the cache path writeRuleHash is under retrieveArtifacts()==true. (2) inside calculateAndCheckRuleHash, writeRuleHash is dominated by a successful OutputHash. (3) writeRuleHash propagates every RecordAttr error. (4) fs.WriteFile: the destination is touched only by the final rename, which is dominated by nil errors of io.Copy, Close and Chmod on the temp file, and the temp file is created in the destination's directory (same filesystem, so the rename is atomic). (5) the reader: the record must be present and identical on every output or it is empty (shared with C01); the up-to-date predicate requires the metadata file. (6) needsBuilding is evaluated before anything is removed or prepared."
	r.NotCovered = []string{"torn xattr writes or renames inside the kernel", "the cross-device copy fallback of renameFile (non-atomic, noted)", "SIGKILL timing itself", "StoreTargetMetadata is not atomic (a torn metadata file is only read when the record matches; noted in DESIGN.md)"}
	p.nothingMovedAfterRecord(r)
	p.fallbackCopyIsAtomic(r)
	a := p.step(r, "E5.commit-order")
	if a == nil {
		return
	}
	rule := "E5.commit-order"
	bt := a.buildTarget
	n := 0
	for _, bi := range callsInFn(bt, a.build) {
		for _, ci := range callsInFn(bt, a.calc) {
			if !existsPath(bt, bi, ci, nil) {
				continue
			}
			n++
			mv := dominatedByCall(ci, a.moveOutputs)
			okk := mv != nil
			if okk {
				k, nn := errKnown(factsAt(ci), resultsOf(mv, 2))
				okk = k && nn
			}
			r.check(okk, rule, "hash record written only after moveOutputs succeeded", p.pos(ci.Pos()), fnName(bt), "calculateAndCheckRuleHash is dominated by moveOutputs with err == nil", "the hash record can be written before (or without) the outputs having been moved into place successfully: a crash in between leaves old or partial outputs stamped as current")
			if mv != nil {
				sm := dominatedByCall(mv, a.storeMD)
				okk = sm != nil
				if okk {
					k, nn := errKnown(factsAt(mv), resultsOf(sm, 0))
					okk = k && nn
				}
				r.check(okk, rule, "outputs moved only after the metadata file was stored", p.pos(mv.Pos()), fnName(bt), "moveOutputs is dominated by StoreTargetMetadata with err == nil", "outputs can be moved (and then stamped) without the build metadata having been stored first: later runs find a stamped target whose metadata (stdout, output dirs) is stale or missing")
			}
		}
	}
	if n == 0 {
		r.unresolved(rule, "calculateAndCheckRuleHash after build() in buildTarget")
	}
	// cache path: return writeRuleHash(...) under retrieveArtifacts true
	for _, ci := range callsInFn(bt, a.writeRule) {
		under := false
		for _, f := range factsAt(ci) {
			if c, ok := f.V.(*ssa.Call); ok && f.Val && callsFn(c, a.retrieveArtifacts) {
				under = true
			}
		}
		r.check(under, rule, "direct writeRuleHash in buildTarget only after retrieveArtifacts()==true", p.pos(ci.Pos()), fnName(bt), "on the true edge of retrieveArtifacts", "buildTarget writes the hash record directly without the artifacts having been retrieved and verified")
	}
	// (2)
	{
		oh := []ssa.Instruction{}
		eachInstr(a.calc, false, func(_ *ssa.Function, i ssa.Instruction) {
			if cc := callCommon(i); cc != nil && cc.IsInvoke() && cc.Method.Name() == "OutputHash" {
				oh = append(oh, i)
			}
		})
		for _, wi := range callsInFn(a.calc, a.writeRule) {
			okk := false
			for _, o := range oh {
				if c, ok := o.(*ssa.Call); ok && instrDominates(c, wi) {
					if k, nn := errKnown(factsAt(wi), resultsOf(c, 1)); k && nn {
						okk = true
					}
				}
			}
			r.check(okk, rule, "writeRuleHash only after the outputs hashed successfully", p.pos(wi.Pos()), fnName(a.calc), "dominated by TargetHasher.OutputHash with err == nil", "the hash record can be written although the outputs could not be hashed (missing/unreadable output)")
		}
	}
	// (3) RecordAttr errors propagate
	rule = "E12.record-errors-propagate"
	{
		n := 0
		eachInstr(a.writeRule, false, func(_ *ssa.Function, i ssa.Instruction) {
			c, ok := i.(*ssa.Call)
			if !ok || !isCallTo(c, "fs.RecordAttr", "fs.RecordAttrFile") {
				return
			}
			n++
			used := false
			if refs := c.Referrers(); refs != nil {
				for _, u := range *refs {
					switch u.(type) {
					case *ssa.Return, *ssa.BinOp, *ssa.Store, *ssa.Phi:
						used = true
					}
				}
			}
			r.check(used, rule, calleeName(&c.Call)+" error returned", p.pos(c.Pos()), fnName(a.writeRule), "the error is tested or returned", "an error writing the hash record is dropped: the build reports success but the record is missing/partial")
		})
		if n < 2 {
			r.unresolved(rule, "RecordAttr calls in writeRuleHash")
		}
	}
	// (4) fs.WriteFile
	p.atomicWriteRule(r)
	// (5) reader
	p.recordReadFromEveryOutput(r, a.gateAnchors)
	// (6) decision before destruction
	rule = "E5.decide-before-destroy"
	{
		prep := p.Fn("build", "prepareDirectories")
		if prep == nil {
			r.unresolved(rule, "build.prepareDirectories")
		} else {
			assume := assumeField(bt, nil, "core.BuildTarget.IsFilegroup", false)
			for _, ci := range callsInFn(bt, prep) {
				// filegroups return before this point; for every other target the gate must have been consulted
				skips := existsPathAssuming(bt, nil, ci, func(j ssa.Instruction) bool { return callsFn(j, a.needs) }, assume)
				r.check(!skips, rule, "prepareDirectories (wipes tmp/out state) after the up-to-date decision", p.pos(ci.Pos()), fnName(bt), "for non-filegroups needsBuilding is evaluated on every path before directories are prepared", "directories are wiped before the up-to-date predicate has been consulted")
			}
		}
	}
}

// atomicWriteRule: fs.WriteFile writes a temp file next to the destination and renames it last.
func (p *Prog) atomicWriteRule(r *Report) {
	rule := "E5.atomic-write"
	wf := p.Fn("fs", "WriteFile")
	rn := p.Fn("fs", "renameFile")
	if wf == nil || rn == nil {
		r.unresolved(rule, "fs.WriteFile / fs.renameFile")
		return
	}
	var to *ssa.Parameter
	for _, prm := range wf.Params {
		if typeString(prm.Type()) == "string" {
			to = prm
		}
	}
	var create, cp, cl, chm *ssa.Call
	var renames []*ssa.Call
	eachInstr(wf, false, func(_ *ssa.Function, i ssa.Instruction) {
		c, ok := i.(*ssa.Call)
		if !ok {
			return
		}
		switch {
		case isCallTo(c, "os.CreateTemp"):
			create = c
		case isCallTo(c, "io.Copy"):
			cp = c
		case isCallTo(c, "(*os.File).Close"):
			cl = c
		case isCallTo(c, "os.Chmod"):
			chm = c
		case callsFn(c, rn) || isCallTo(c, "os.Rename"):
			renames = append(renames, c)
		}
	})
	if to == nil || create == nil || cp == nil || cl == nil || len(renames) == 0 {
		r.bad(rule, "temp file + copy + close + rename present", p.pos(wf.Pos()), fnName(wf), "fs.WriteFile no longer has the create-temp / copy / close / rename shape: the destination may be written in place, so a crash leaves a truncated file that later builds read")
		return
	}
	// temp dir derives from the destination's directory
	dirOK := false
	for x := range backSlice(create.Call.Args[0], SliceOpts{}) {
		if c, ok := x.(*ssa.Call); ok && isCallTo(c, "path/filepath.Split", "path/filepath.Dir") {
			for y := range backSlice(c.Call.Args[0], SliceOpts{}) {
				if y == to {
					dirOK = true
				}
			}
		}
	}
	r.check(dirOK, rule, "temp file is created in the destination's directory", p.pos(create.Pos()), fnName(wf), "os.CreateTemp(dir of `to`, ...)", "the temp file is not created in the destination's directory: the final rename may cross filesystems and fall back to a non-atomic copy")
	for _, rnm := range renames {
		// destination is the 2nd arg; source is the temp file
		dst := rnm.Call.Args[len(rnm.Call.Args)-1]
		isTo := false
		for y := range backSlice(dst, SliceOpts{}) {
			if y == to {
				isTo = true
			}
		}
		okk := isTo
		why := ""
		for name, c := range map[string]*ssa.Call{"io.Copy": cp, "Close": cl, "Chmod": chm} {
			if c == nil {
				continue
			}
			idx := 0
			if name == "io.Copy" {
				idx = 1
			}
			k, n := errKnown(factsAt(rnm), resultsOf(c, idx))
			if !(instrDominates(c, rnm) && k && n) {
				okk = false
				why += name + " "
			}
		}
		r.check(okk, rule, "rename is last and only after copy/close/chmod succeeded", p.pos(rnm.Pos()), fnName(wf), "dominated by nil errors of io.Copy, Close and Chmod", "the rename onto the destination is not dominated by successful "+why+"of the temp file: a short or unflushed temp file can replace the destination")
	}
	// success is only ever the rename's success: every return hands back the rename's result or a known non-nil error
	{
		nRet, leak := 0, ""
		for _, rc := range returnCases(wf, 0) {
			nRet++
			v := rc.Vals[0]
			fromRename := false
			for _, rnm := range renames {
				if v == ssa.Value(rnm) || derivesFromValue(v, rnm) {
					fromRename = true
				}
			}
			if fromRename {
				continue
			}
			if k, isNil := errKnown(rc.Facts, []ssa.Value{v}); k && !isNil {
				continue
			}
			if c, ok := v.(*ssa.Call); ok {
				leak = "the result of " + calleeName(&c.Call)
			} else if isNilConst(v) {
				leak = "nil"
			} else {
				leak = v.String()
			}
		}
		r.check(nRet > 0 && leak == "", rule, "WriteFile succeeds only through the rename", p.pos(wf.Pos()), fnName(wf), "every return is the rename's result or an error known to be non-nil", "fs.WriteFile can return "+leak+" without having gone through temp file + rename (a delegated or direct write to the final name, e.g. when it has just created the directory): a crash during that write leaves a partial file under the final name")
	}
	// nothing else opens/creates the destination
	other := false
	eachInstr(wf, false, func(_ *ssa.Function, i ssa.Instruction) {
		c, ok := i.(*ssa.Call)
		if !ok || !isCallTo(c, "os.Create", "os.OpenFile", "os.WriteFile", "os.Remove", "os.RemoveAll", "fs.RemoveAll") {
			return
		}
		for _, arg := range c.Call.Args {
			if arg == to {
				other = true
			}
		}
	})
	r.check(!other, rule, "destination untouched before the rename", p.pos(wf.Pos()), fnName(wf), "no create/open/remove on `to`", "fs.WriteFile opens, creates or removes the destination path itself before the rename: a crash leaves no file or a partial one")
}

// ---------------------------------------------------------------- C35

func checkC35(p *Prog, r *Report) {
	r.Explanation = "Structural necessary conditions of 'declared hashes are enforced'. (1) every call site of calculateAndCheckRuleHash tests its error and cannot report success on the error edge. (2) inside it, with VerifyHashes set and outside the plz-hash update mode, a checkRuleHashes error returns before writeRuleHash (no 'verified' record for mismatching outputs). (3) checkRuleHashes returns nil only when no hashes are declared, the computed hash string equals a declared one, or checkRuleHashesOfType reported valid; checkRuleHashesOfType reports valid only on the equality edge between a declared hash and a freshly computed output hash; the output hash used for verification is recomputed (recalc=true). (4) restored artifacts that fail verification are removed and reported as a miss (shared with C02); a failed build removes outputs in build.Build. (5) UnprefixedHashes does not write through target.Hashes."
	r.NotCovered = []string{"hash arithmetic", "which algorithms are configured", "xattr-memoised file hashes being stale (the recalc flag is checked, the memo implementation is not)"}
	a := p.step(r, "E12.verify-error-checked")
	if a == nil {
		return
	}
	// (1)
	rule := "E12.verify-error-checked"
	for _, ci := range p.callers(a.calc) {
		c, ok := ci.(*ssa.Call)
		fn := ci.Parent()
		if !ok {
			r.bad(rule, "calculateAndCheckRuleHash via go/defer", p.pos(ci.Pos()), fnName(fn), "result ignored")
			continue
		}
		errs := resultsOf(c, 1)
		okk := len(errs) > 0
		// on the err != nil edge: every return is non-nil error / false
		nEdge := 0
		for idx := 0; idx < fn.Signature.Results().Len(); idx++ {
			rt := typeString(fn.Signature.Results().At(idx).Type())
			if rt != "error" && rt != "bool" {
				continue
			}
			for _, rc := range returnCases(fn, idx) {
				k, isNil := errKnown(rc.Facts, errs)
				if !k || isNil {
					continue
				}
				nEdge++
				v := rc.Vals[idx]
				if rt == "error" && isNilConst(v) {
					okk = false
				}
				if b, isC := constBool(v); rt == "bool" && (!isC || b) {
					okk = false
				}
			}
		}
		r.check(okk && nEdge > 0, rule, "error of calculateAndCheckRuleHash handled in "+fn.Name(), p.pos(c.Pos()), fnName(fn), "the error edge returns a non-nil error / false", "a hash verification failure is ignored at this call site: the target is reported built/cached although its outputs do not match the declared hashes")
	}
	r.floor(rule, 3)
	// (2)
	rule = "E5.mismatch-not-recorded"
	{
		var chk *ssa.Call
		for _, ci := range callsInFn(a.calc, a.checkHashes) {
			chk, _ = ci.(*ssa.Call)
		}
		if chk == nil {
			r.unresolved(rule, "checkRuleHashes call in calculateAndCheckRuleHash")
		} else {
			assume := map[ssa.Value]bool{}
			eachInstr(a.calc, false, func(_ *ssa.Function, i ssa.Instruction) {
				iff, ok := i.(*ssa.If)
				if !ok {
					return
				}
				f := normFact(iff.Cond, true)
				switch fieldKeyOfLoad(f.V) {
				case "core.BuildState.VerifyHashes":
					assume[f.V] = true
				case "core.BuildState.NeedHashesOnly":
					assume[f.V] = false
				}
				if x, eq, ok := isNilCmp(f.V); ok && x == ssa.Value(chk) {
					assume[f.V] = !eq // err != nil holds
				}
			})
			leak := false
			for _, wi := range callsInFn(a.calc, a.writeRule) {
				if existsPathAssuming(a.calc, chk, wi, nil, assume) {
					leak = true
				}
				if !instrDominates(chk, wi) {
					leak = true // stamped before the declared hashes were checked
				}
			}
			r.check(len(assume) >= 3 && !leak, rule, "verification failure returns before writeRuleHash", p.pos(chk.Pos()), fnName(a.calc), "with VerifyHashes and not in hash-update mode the error edge cannot reach writeRuleHash", "outputs that fail their declared hashes are still stamped with the hash record (writeRuleHash reachable on the failure edge): the next build treats them as verified and up to date")
		}
	}
	// (3)
	rule = "E5.hash-accept-conditions"
	{
		ch := a.checkHashes
		var oft *ssa.Call
		for _, ci := range callsInFn(ch, a.checkOfType) {
			oft, _ = ci.(*ssa.Call)
		}
		nNil, bad := 0, 0
		var site token.Pos
		for _, rc := range returnCases(ch, 0) {
			if !isNilConst(rc.Vals[0]) {
				continue
			}
			nNil++
			okk := false
			for _, f := range rc.Facts {
				if bo, ok := f.V.(*ssa.BinOp); ok && bo.Op == token.EQL && f.Val {
					// len(target.Hashes) == 0
					if c, ok := constInt(bo.Y); ok && c == 0 && tagsOf(bo.X, SliceOpts{})["core.BuildTarget.Hashes"] {
						okk = true
					}
					// declared == computed
					tx, ty := tagsOf(bo.X, SliceOpts{}), tagsOf(bo.Y, SliceOpts{})
					declared := tx["call:(*core.BuildTarget).UnprefixedHashes"] || ty["call:(*core.BuildTarget).UnprefixedHashes"]
					computed := tx["call:encoding/hex.EncodeToString"] || ty["call:encoding/hex.EncodeToString"]
					if declared && computed {
						okk = true
					}
				}
				if oft != nil && f.Val {
					for _, v := range resultsOf(oft, 1) {
						if f.V == v {
							okk = true
						}
					}
				}
			}
			if !okk {
				bad++
				site = rc.Site
			}
		}
		r.check(bad == 0 && nNil >= 3, rule, "checkRuleHashes accepts only on no-hashes / equality / valid", p.pos(ch.Pos()), fnName(ch), itoa(nNil)+" nil returns, each under len(Hashes)==0, declared==computed, or checkRuleHashesOfType valid", "checkRuleHashes can accept (return nil at "+p.pos(site)+") without the computed hash having matched a declared one")
		// checkRuleHashesOfType: true only under equality of declared and computed
		ot := a.checkOfType
		nT, badT := 0, 0
		for idx := 0; idx < ot.Signature.Results().Len(); idx++ {
			if typeString(ot.Signature.Results().At(idx).Type()) != "bool" {
				continue
			}
			for _, rc := range returnCases(ot, idx) {
				b, isC := constBool(rc.Vals[idx])
				if isC && !b {
					continue
				}
				nT++
				okk := false
				for _, f := range rc.Facts {
					if bo, ok := f.V.(*ssa.BinOp); ok && bo.Op == token.EQL && f.Val {
						tx, ty := tagsOf(bo.X, SliceOpts{}), tagsOf(bo.Y, SliceOpts{})
						if tx["call:build.outputHash"] || ty["call:build.outputHash"] {
							okk = true
						}
					}
				}
				if !okk {
					badT++
				}
			}
		}
		r.check(badT == 0 && nT > 0, rule, "checkRuleHashesOfType: valid only on declared == outputHash", p.pos(ot.Pos()), fnName(ot), "true is returned only on the equality edge against a freshly computed outputHash", "checkRuleHashesOfType can report valid without a declared hash having equalled the computed output hash (or its result no longer says so explicitly)")
		p.outputHashRecalcRule(r, a, rule)
	}
	importRules(p, r, checkC09, "fs/", "E5.recalc-reads-content")
	// (4)
	p.restoreVerifiedRule(r, a, "E5.restore-verified")
	rule = "E5.failed-build-removes-outputs"
	{
		B := a.Build
		n := 0
		for _, ci := range callsInFn(B, a.buildTarget) {
			c, ok := ci.(*ssa.Call)
			if !ok {
				continue
			}
			n++
			// on err != nil (and not errStop) RemoveOutputs is passed before return
			errs := resultsOf(c, 0)
			var errBlockFirst ssa.Instruction
			for _, b := range B.Blocks {
				if k, isNil := errKnown(condFacts(b), errs); k && !isNil && errBlockFirst == nil && len(b.Instrs) > 0 {
					errBlockFirst = b.Instrs[0]
				}
			}
			okk := false
			if errBlockFirst != nil {
				stopAssume := map[ssa.Value]bool{}
				eachInstrS(B, func(_ *ssa.Function, i ssa.Instruction) {
					if iff, ok := i.(*ssa.If); ok {
						if cc, ok := iff.Cond.(*ssa.Call); ok && isCallTo(cc, "errors.Is") {
							stopAssume[cc] = false
						}
					}
				})
				summaryAssume = stopAssume
				removes := func(j ssa.Instruction) bool { return callsFn(j, a.removeOutputs) }
				okk = withCallSummaries(B, removes)(errBlockFirst) || !existsPathAssuming(B, errBlockFirst, nil, removes, stopAssume)
				summaryAssume = nil
			}
			r.check(okk, rule, "buildTarget error => RemoveOutputs", p.pos(c.Pos()), fnName(B), "every path from the error edge (other than errStop) to return passes RemoveOutputs", "a failed build (including a hash mismatch) can leave its outputs in plz-out")
		}
		if n == 0 {
			r.unresolved(rule, "buildTarget call in build.Build")
		}
	}
	// which algorithms may verify a declared hash is configuration: a restriction set in a config file must survive reading
	importRules(p, r, checkC39, "config/", "E5.defaults-after-files")
	p.hashCommandCleans(r)
	// (4b) what a failed build removes is what the up-to-date test looks at: all outputs, named groups included
	{
		okAcc := false
		eachInstr(a.removeOutputs, false, func(_ *ssa.Function, i ssa.Instruction) {
			if c, ok := i.(*ssa.Call); ok {
				n := calleeName(&c.Call)
				if n == "(*core.BuildTarget).Outputs" || n == "(*core.BuildTarget).FullOutputs" {
					okAcc = true
				}
			}
		})
		r.check(okAcc, rule, "RemoveOutputs removes every output of the target", p.pos(a.removeOutputs.Pos()), fnName(a.removeOutputs), "iterates BuildTarget.Outputs() / FullOutputs(), the accessor the up-to-date test uses", "RemoveOutputs no longer iterates Outputs()/FullOutputs() (e.g. DeclaredOutputs(), which leaves out named output groups): after a build that failed hash verification those outputs stay in plz-out with their record, and the next build reuses them although they do not match the declared hashes")
	}
	// (4c) the record is written only behind a verification: inside calculateAndCheckRuleHash, or after it (or a
	// function whose `true` means it ran it) succeeded
	{
		verifiedBy := func(fn *ssa.Function) bool {
			// every constant-true return of fn lies behind a successful calc call
			if fn == nil || fn.Signature.Results().Len() != 1 || typeString(fn.Signature.Results().At(0).Type()) != "bool" {
				return false
			}
			n := 0
			for _, rc := range returnCases(fn, 0) {
				if b, isC := constBool(rc.Vals[0]); !isC || !b {
					continue
				}
				// a "nothing to do" return before any artifact exists does not count against it, but a true return
				// after artifacts were retrieved must be verified
				okv := false
				for _, ci := range callsInFn(fn, a.calc) {
					if c, ok := ci.(*ssa.Call); ok {
						if k, isNil := errKnown(rc.Facts, resultsOf(c, 1)); k && isNil {
							okv = true
						}
					}
				}
				if okv {
					n++
				}
			}
			return n > 0
		}
		bad := ""
		nSites := 0
		for _, ci := range p.callers(a.writeRule) {
			fn := ci.Parent()
			if topFunc(fn) == a.calc {
				continue
			}
			nSites++
			just := false
			for _, f := range factsAt(ci) {
				// err == nil of a calc call
				for _, cc := range callsInFn(fn, a.calc) {
					if c, ok := cc.(*ssa.Call); ok {
						if k, isNil := errKnown([]Fact{f}, resultsOf(c, 1)); k && isNil {
							just = true
						}
					}
				}
				if c, ok := f.V.(*ssa.Call); ok && f.Val && verifiedBy(c.Call.StaticCallee()) {
					just = true
				}
			}
			if !just {
				bad = fnName(fn) + " at " + p.pos(ci.Pos())
			}
		}
		r.check(bad == "", "E7.record-only-after-verification", "writeRuleHash runs only behind a successful calculateAndCheckRuleHash", p.pos(a.writeRule.Pos()), fnName(a.writeRule), itoa(nSites)+" call site(s) outside calculateAndCheckRuleHash, each dominated by its success (directly or through retrieveArtifacts)", "the rule-hash record is written in "+bad+" without a successful calculateAndCheckRuleHash before it: outputs can be recorded as good (and cached) on a path that never compared them with the declared hashes, e.g. when a rebuild reproduces what was already in plz-out")
	}
	// (5)
	rule = "E8.no-write-through"
	{
		uh := p.Fn("core", "BuildTarget.UnprefixedHashes")
		if uh == nil {
			r.unresolved(rule, "core.BuildTarget.UnprefixedHashes")
		} else {
			writes := false
			var site token.Pos = uh.Pos()
			eachInstr(uh, false, func(_ *ssa.Function, i ssa.Instruction) {
				st, ok := i.(*ssa.Store)
				if !ok {
					return
				}
				ia, ok := st.Addr.(*ssa.IndexAddr)
				if !ok {
					return
				}
				if aliasesField(ia.X, "core.BuildTarget.Hashes") {
					writes = true
					site = st.Pos()
				}
			})
			r.add(Obligation{Rule: rule, Instance: "UnprefixedHashes does not store into target.Hashes", Site: p.pos(site), Func: fnName(uh), Path: true,
				Status: map[bool]string{true: "violated", false: "discharged"}[writes],
				Detail: map[bool]string{true: "UnprefixedHashes stores through an alias of target.Hashes (reslicing shares the backing array): the declared hashes of the target change after the first verification, and with them the rule hash and error text computed later", false: "element stores go to a fresh slice"}[writes],
				Key:    rule + "|" + fnName(uh) + "|core.BuildTarget.Hashes"})
		}
	}
}

// aliasesField: v shares storage with the named struct field (load, reslice; not copy/append to nil).
func aliasesField(v ssa.Value, key string) bool {
	for d := 0; d < 12; d++ {
		switch x := v.(type) {
		case *ssa.Slice:
			v = x.X
		case *ssa.UnOp:
			if x.Op != token.MUL {
				return false
			}
			if fieldKey(x.X) == key {
				return true
			}
			if a, ok := x.X.(*ssa.Alloc); ok {
				for _, s := range storesTo(a) {
					if aliasesField(s, key) {
						return true
					}
				}
				return false
			}
			return false
		case *ssa.Phi:
			for _, e := range x.Edges {
				if e != v && aliasesField(e, key) {
					return true
				}
			}
			return false
		case *ssa.ChangeType:
			v = x.X
		default:
			return strings.HasSuffix(fieldKey(v), key) && fieldKey(v) == key
		}
	}
	return false
}

// importRules runs another property's rules on the same program and copies the obligations of the named rules
// (prefixed) into r: the clause is a necessary condition of both properties.
func importRules(p *Prog, r *Report, from func(*Prog, *Report), prefix string, rules ...string) {
	sub := newReport(r.Prop)
	sub.goos = r.goos
	from(p, sub)
	want := map[string]bool{}
	for _, x := range rules {
		want[x] = true
	}
	n := 0
	for _, o := range sub.Obs {
		if want[o.Rule] || strings.Contains(o.Key, "UNRESOLVED") {
			o.Rule = prefix + o.Rule
			o.Key = prefix + o.Key
			r.Obs = append(r.Obs, o)
			n++
		}
	}
	for _, x := range rules {
		r.floor(prefix+x, 1)
	}
}

// outputHashRecalcRule: the output hash used to verify/compare artifacts is recomputed from the files.
func (p *Prog) outputHashRecalcRule(r *Report, a *stepAnchors, rule string) {
	nH := 0
	for _, g := range withAnon(a.outputHash) {
		for _, ci := range callsInFn(g, a.hashFn) {
			cc := callCommon(ci)
			nH++
			b, isC := constBool(cc.Args[2])
			r.check(isC && b, rule, "outputHash forces recalculation", p.pos(ci.Pos()), fnName(g), "PathHasher.Hash(..., recalc=true, ...)", "the output hash may come from the memo instead of the file: after a cache restore (or a rebuild) the memoised hash of what lay in plz-out before is kept, so verification and every dependent's source hash use pre-restore content")
		}
	}
	if nH < 2 {
		r.unresolved(rule, "PathHasher.Hash calls in outputHash")
	}
}

// nothingMovedAfterRecord: the rule-hash record is what makes the next invocation skip the target, so it is written
// after the last output (optional ones included) is in place: nothing that moves files into the output directory runs
// after calculateAndCheckRuleHash in buildTarget.
func (p *Prog) nothingMovedAfterRecord(r *Report) {
	rule := "E5.commit-order"
	bt := p.Fn("build", "buildTarget")
	calc := p.Fn("build", "calculateAndCheckRuleHash")
	mo := p.Fn("build", "moveOutput")
	if bt == nil || calc == nil || mo == nil {
		r.unresolved(rule, "build.buildTarget / calculateAndCheckRuleHash / moveOutput")
		return
	}
	moves := func(g *ssa.Function) bool {
		for _, h := range p.closure([]*ssa.Function{g}, 2, inRepoPkgs("build")) {
			if h == mo {
				return true
			}
		}
		return false
	}
	late := ""
	for _, cc := range callsInFn(bt, calc) {
		eachInstr(bt, false, func(_ *ssa.Function, i ssa.Instruction) {
			c := callCommon(i)
			if c == nil || c.StaticCallee() == nil || c.StaticCallee() == calc || !moves(c.StaticCallee()) {
				return
			}
			if existsPath(bt, cc, i, nil) {
				late = calleeName(c)
			}
		})
	}
	r.check(late == "", rule, "no output is moved into place after the rule hash was recorded", p.pos(bt.Pos()), fnName(bt), "nothing reachable after calculateAndCheckRuleHash calls moveOutput", "buildTarget moves outputs ("+late+") after calculateAndCheckRuleHash has written the record: a process killed in between leaves metadata, matching records and all declared outputs, so the next build reports the target as up to date while an optional output is stale or missing")
}

// fallbackCopyIsAtomic: when a hard link cannot be made, the copy that replaces it goes through CopyFile/WriteFile (temp
// file + rename): the non-atomic copyFile helper and bare os.Create are not reachable from the tree-copy functions.
func (p *Prog) fallbackCopyIsAtomic(r *Report) {
	rule := "E5.atomic-write"
	col := p.Fn("fs", "CopyOrLinkFile")
	raw := p.Fn("fs", "copyFile")
	if col == nil {
		r.unresolved(rule, "fs.CopyOrLinkFile")
		return
	}
	bad := ""
	eachInstr(col, false, func(_ *ssa.Function, i ssa.Instruction) {
		c, ok := i.(*ssa.Call)
		if !ok {
			return
		}
		if (raw != nil && callsFn(c, raw)) || isCallTo(c, "os.Create", "os.WriteFile") {
			bad = calleeName(&c.Call)
		}
	})
	r.check(bad == "", rule, "CopyOrLinkFile's fallback copy goes through the atomic write helper", p.pos(col.Pos()), fnName(col), "no call of copyFile / os.Create / os.WriteFile", "when the hard link fails CopyOrLinkFile copies with "+bad+", which creates or truncates the destination in place: a kill mid-copy leaves a partial file under the final name, and an existing destination that is hard-linked elsewhere (a cache artifact, a linked source) is overwritten through the link")
}

// hashCommandCleans: in `plz hash` mode a mismatch of declared hashes is only logged, the record is written and the
// outputs are cached; the command handler then either rewrites the declared hashes (--update) or cleans the targets
// again so that nothing unverified stays marked up to date. Every successful path of the handler passes one of the two.
func (p *Prog) hashCommandCleans(r *Report) {
	rule := "E5.hash-accept-conditions"
	rw := p.Fn("hashes", "RewriteHashes")
	ct := p.Fn("clean", "Targets")
	if rw == nil || ct == nil {
		r.unresolved(rule, "hashes.RewriteHashes / clean.Targets")
		return
	}
	var handler *ssa.Function
	for _, f := range p.allFuncs {
		if fnPkg(f) == modPath+"/src" && len(callsInFn(f, rw)) > 0 {
			handler = f
		}
	}
	if handler == nil {
		r.unresolved(rule, "the `hash` command handler in package main")
		return
	}
	isFix := func(j ssa.Instruction) bool { return callsFn(j, rw) || callsFn(j, ct) }
	// from every block that is under the "build succeeded" fact (the first call result tested), no return without a fix
	skip := false
	for _, ci := range callsInFn(handler, rw) {
		_ = ci
	}
	var rb *ssa.Call
	eachInstr(handler, false, func(_ *ssa.Function, i ssa.Instruction) {
		if c, ok := i.(*ssa.Call); ok && c.Call.StaticCallee() != nil && c.Call.StaticCallee().Name() == "runBuild" && rb == nil {
			rb = c
		}
	})
	if rb == nil {
		r.unresolved(rule, "runBuild call in the hash handler")
		return
	}
	for _, b := range handler.Blocks {
		for _, f := range condFacts(b) {
			if e, ok := f.V.(*ssa.Extract); ok && e.Tuple == ssa.Value(rb) && e.Index == 0 && f.Val && len(b.Instrs) > 0 {
				if !isFix(b.Instrs[0]) && existsPath(handler, b.Instrs[0], nil, isFix) {
					// only count blocks that are the entry of the success region (their idom is outside it)
					skip = true
				}
			}
		}
	}
	r.check(!skip, rule, "`plz hash` either rewrites the declared hashes or cleans the targets again", p.pos(handler.Pos()), fnName(handler), "after a successful build every path of the handler passes RewriteHashes or clean.Targets", "the `hash` command can finish (e.g. with --detailed) without rewriting hashes and without cleaning the targets it built: in hash mode a mismatch is only logged while the rule-hash record is written and the outputs are cached, so a following `plz build` finds outputs that do not match their declared hashes marked up to date and exits 0")
}
