package main

import (
	"go/constant"
	"go/token"
	"go/types"
	"strings"

	"golang.org/x/tools/go/ssa"
)

func init() {
	register("C39", []string{"./src/..."}, checkC39)
}

func (p *Prog) constStr(pkgShort, name string) (string, bool) {
	pk := p.ByPath[modPath+"/src/"+pkgShort]
	if pk == nil {
		return "", false
	}
	c, ok := pk.Types.Scope().Lookup(name).(*types.Const)
	if !ok || c.Val().Kind() != constant.String {
		return "", false
	}
	return constant.StringVal(c.Val()), true
}

func checkC39(p *Prog, r *Report) {
	r.Explanation = "Ordering clauses of configuration layering (E10 table agreement + path rules). (1) the list built by defaultConfigFiles / defaultGlobalConfigFiles is, in this order: the machine file, XDG config dirs, the user file, XDG config home, then under the repo root .plzconfig, .plzconfig_<arch>, .plzconfig.local (lowest to highest priority, as documented). (2) in ReadConfigFiles and ReadConfigFilesOnly every iteration over the file list reads the base file and then reaches the loop over profiles, which reads <file>.<profile> — nothing (such as the base file being absent) lets an iteration skip its profiles. (3) a missing file is not an error (the not-exist edge of readConfigFileOnly returns nil). (4) slice defaults are applied after all files were read and only when the option is still empty: every setDefault/setBuildPath call follows the file loop, setDefault assigns only on the len==0 edge, and setBuildPath assigns only through setDefault. (5) command-line overrides are applied after the files: ApplyOverrides is dominated by a successful ReadDefaultConfigFiles. gcfg's accumulate / blank-clears semantics live in a third-party library and are not decided."
	r.NotCovered = []string{"gcfg's handling of repeated and blank values", "what ApplyOverrides does to list options (reflection)", "plugin config merging"}
	p.sliceDefaultsNotPreset(r, "E5.defaults-after-files")
	p.profileOrderKept(r)
	p.unmarshalAlwaysAssigns(r)
	dcf := p.Fn("core", "defaultConfigFiles")
	dgf := p.Fn("core", "defaultGlobalConfigFiles")
	rcf := p.Fn("core", "ReadConfigFiles")
	rcfo := p.Fn("core", "ReadConfigFilesOnly")
	rcOnly := p.Fn("core", "readConfigFileOnly")
	rcFile := p.Fn("core", "readConfigFile")
	setDef := p.Fn("core", "setDefault")
	setBP := p.Fn("core", "setBuildPath")
	if dcf == nil || dgf == nil || rcf == nil || rcfo == nil || rcOnly == nil || rcFile == nil || setDef == nil || setBP == nil {
		r.unresolved("E10.config-file-order", "core.defaultConfigFiles / defaultGlobalConfigFiles / ReadConfigFiles / ReadConfigFilesOnly / readConfigFileOnly / readConfigFile / setDefault / setBuildPath")
		return
	}
	// (1)
	rule := "E10.config-file-order"
	{
		want := []string{}
		for _, n := range []string{"ConfigFileName", "ArchConfigFileName", "LocalConfigFileName"} {
			s, ok := p.constStr("core", n)
			if !ok {
				r.unresolved(rule, "core."+n)
				return
			}
			want = append(want, s)
		}
		// the varargs array of the append in defaultConfigFiles: index -> joined constant
		got := map[int64]string{}
		first := false
		eachInstr(dcf, false, func(_ *ssa.Function, i ssa.Instruction) {
			st, ok := i.(*ssa.Store)
			if !ok {
				return
			}
			ia, ok := st.Addr.(*ssa.IndexAddr)
			if !ok {
				return
			}
			idx, ok := constInt(ia.Index)
			if !ok {
				return
			}
			for x := range backSlice(st.Val, SliceOpts{}) {
				if s, ok := constString(x); ok && strings.HasPrefix(s, ".plzconfig") {
					got[idx] = s
				}
			}
		})
		eachInstr(dcf, false, func(_ *ssa.Function, i ssa.Instruction) {
			c, ok := i.(*ssa.Call)
			if !ok {
				return
			}
			if b, ok := c.Call.Value.(*ssa.Builtin); ok && b.Name() == "append" {
				if fc, ok := c.Call.Args[0].(*ssa.Call); ok && callsFn(fc, dgf) {
					first = true
				}
			}
		})
		order := []string{got[0], got[1], got[2]}
		r.check(first && strings.Join(order, " ") == strings.Join(want, " "), rule, "global files, then .plzconfig, .plzconfig_<arch>, .plzconfig.local", p.pos(dcf.Pos()), fnName(dcf), "repo files appended after the global ones in the order "+strings.Join(order, ", "), "defaultConfigFiles lists the repo config files as ["+strings.Join(order, ", ")+"] (global files first: "+boolStr(first)+"), not [.plzconfig, .plzconfig_<arch>, .plzconfig.local] after the global files: a lower-priority file overrides a higher-priority one")
		// global order: machine literal, then appends for xdg dirs, user, xdg home
		type item struct {
			i    ssa.Instruction
			what string
		}
		var items []item
		eachInstr(dgf, false, func(_ *ssa.Function, i ssa.Instruction) {
			switch x := i.(type) {
			case *ssa.Store:
				if s, ok := constString(x.Val); ok && strings.Contains(s, "/etc/please") {
					items = append(items, item{i, "machine"})
				}
			case *ssa.Call:
				if b, ok := x.Call.Value.(*ssa.Builtin); ok && b.Name() == "append" && len(x.Call.Args) == 2 {
					tg := tagsOf(x.Call.Args[1], SliceOpts{})
					what := ""
					for y := range backSlice(x.Call.Args[1], SliceOpts{}) {
						if s, ok := constString(y); ok {
							switch {
							case s == "XDG_CONFIG_DIRS":
								what = "xdg-dirs"
							case s == "XDG_CONFIG_HOME":
								what = "xdg-home"
							case strings.HasPrefix(s, "~/"):
								what = "user"
							}
						}
					}
					_ = tg
					if what != "" {
						items = append(items, item{i, what})
					}
				}
			}
		})
		// instructions are visited in block-index order; put them in execution order (a precedes b if b is
		// reachable from a and not the other way round)
		for a := 0; a < len(items); a++ {
			for b := a + 1; b < len(items); b++ {
				if existsPath(dgf, items[b].i, items[a].i, nil) && !existsPath(dgf, items[a].i, items[b].i, nil) {
					items[a], items[b] = items[b], items[a]
				}
			}
		}
		seq := []string{}
		okOrder := true
		// the initial literal holds the machine file only
		nLit := 0
		var litAlloc ssa.Value
		for _, it := range items {
			if st, ok := it.i.(*ssa.Store); ok && it.what == "machine" {
				if ia, ok := st.Addr.(*ssa.IndexAddr); ok {
					litAlloc = ia.X
				}
			}
		}
		eachInstr(dgf, false, func(_ *ssa.Function, i ssa.Instruction) {
			if st, ok := i.(*ssa.Store); ok {
				if ia, ok := st.Addr.(*ssa.IndexAddr); ok && ia.X == litAlloc {
					nLit++
				}
			}
		})
		if nLit != 1 {
			okOrder = false
		}
		for k, it := range items {
			seq = append(seq, it.what)
			for _, later := range items[k+1:] {
				// nothing later may be able to run before it
				if existsPath(dgf, later.i, it.i, nil) && !existsPath(dgf, it.i, later.i, nil) {
					okOrder = false
				}
			}
		}
		r.check(okOrder && strings.Join(seq, " ") == "machine xdg-dirs user xdg-home", rule, "machine file, XDG dirs, user file, XDG home", p.pos(dgf.Pos()), fnName(dgf), "appended in that order", "the global config locations are gathered as ["+strings.Join(seq, " ")+"], not [machine xdg-dirs user xdg-home]")
	}
	// (2)
	rule = "E5.profile-after-its-file"
	for _, fn := range []*ssa.Function{rcf, rcfo} {
		var filesPrm, profPrm *ssa.Parameter
		for _, prm := range fn.Params {
			switch prm.Name() {
			case "filenames":
				filesPrm = prm
			case "profiles":
				profPrm = prm
			}
		}
		var outer, inner *rloop
		for _, l := range sliceRangeLoops(fn) {
			ll := l
			if filesPrm != nil && derivesFromValue(l.over, filesPrm) {
				outer = &ll
			}
			if profPrm != nil && derivesFromValue(l.over, profPrm) {
				inner = &ll
			}
		}
		if outer == nil || inner == nil {
			r.bad(rule, fn.Name()+": profiles are read inside the loop over files", p.pos(fn.Pos()), fnName(fn), "no loop over the profiles nested in the loop over the config files")
			continue
		}
		nested := outer.blocks[inner.header]
		skips := outer.iterationSkips(func(i ssa.Instruction) bool { return i.Block() == inner.header })
		r.check(nested && !skips, rule, fn.Name()+": every file is followed by its profile files", p.pos(outer.header.Instrs[0].Pos()), fnName(fn), "each iteration over the files reaches the loop over profiles", "an iteration over the config files can finish without trying that file's profile variants (e.g. when the base file does not exist): options set only in <file>.<profile> are lost")
		// base file first, then profile with "." joined name
		var baseRead, profRead ssa.Instruction
		for _, g := range []*ssa.Function{rcOnly, rcFile} {
			for _, ci := range callsInFn(fn, g) {
				arg := callCommon(ci).Args[2]
				if bo, ok := arg.(*ssa.BinOp); ok && bo.Op == token.ADD {
					profRead = ci
					_ = bo
				} else {
					baseRead = ci
				}
			}
		}
		okk := baseRead != nil && profRead != nil && existsPath(fn, baseRead, profRead, nil) && inner.blocks[profRead.Block()] && !inner.blocks[baseRead.Block()] && outer.blocks[baseRead.Block()] && outer.blocks[profRead.Block()]
		if okk {
			// the profile name is file + "." + profile
			hasDot := false
			for x := range backSlice(callCommon(profRead).Args[2], SliceOpts{}) {
				if s, ok := constString(x); ok && s == "." {
					hasDot = true
				}
			}
			okk = hasDot
			// the name is built from the file of this outer iteration, not carried over from the previous profile
			carried := false
			for x := range backSlice(callCommon(profRead).Args[2], SliceOpts{}) {
				if ph, ok := x.(*ssa.Phi); ok && ph.Block() == inner.header {
					if bt, ok := ph.Type().Underlying().(*types.Basic); ok && bt.Info()&types.IsString != 0 {
						carried = true
					}
				}
			}
			r.check(!carried, rule, fn.Name()+": each profile file is named after the base file", p.pos(profRead.Pos()), fnName(fn), "<file>.<profile> is built from the file of the current outer iteration", "the profile file name is accumulated across the loop over profiles (<file>.<p1>.<p2>): only the first of several profiles has its file read, the others' are looked for under a name that does not exist and silently skipped")
		}
		r.check(okk, rule, fn.Name()+": base file is read before <file>.<profile>", p.pos(fn.Pos()), fnName(fn), "the base read precedes the profile loop, which reads filename + \".\" + profile", "the profile file is not read right after (and named after) the file it belongs to")
	}
	// (3)
	rule = "E12.missing-file-is-not-an-error"
	{
		okk := false
		for _, rc := range returnCases(rcOnly, 0) {
			if !isNilConst(rc.Vals[0]) {
				continue
			}
			for _, f := range rc.Facts {
				if c, ok := f.V.(*ssa.Call); ok && isCallTo(c, "os.IsNotExist") && f.Val {
					okk = true
				}
			}
		}
		r.check(okk, rule, "absent config file => nil", p.pos(rcOnly.Pos()), fnName(rcOnly), "the os.IsNotExist edge returns nil", "a missing config file is no longer skipped silently")
	}
	// (4)
	rule = "E5.defaults-after-files"
	{
		var outer *rloop
		for _, l := range sliceRangeLoops(rcf) {
			ll := l
			for _, prm := range rcf.Params {
				if prm.Name() == "filenames" && derivesFromValue(l.over, prm) {
					outer = &ll
				}
			}
		}
		n, bad := 0, 0
		for _, g := range []*ssa.Function{setDef, setBP} {
			for _, ci := range callsInFn(rcf, g) {
				n++
				if outer == nil || outer.blocks[ci.Block()] || !outer.header.Dominates(ci.Block()) {
					bad++
				}
			}
		}
		r.check(outer != nil && n >= 5 && bad == 0, rule, "slice defaults are set after the file loop", p.pos(rcf.Pos()), fnName(rcf), itoa(n)+" setDefault/setBuildPath calls, all after the loop over config files", "a slice default is applied before (or inside) the loop that reads the files: since list options accumulate, the default is then prepended to what the files set")
		// setDefault assigns only when empty
		okSD := false
		nStores := 0
		eachInstr(setDef, false, func(_ *ssa.Function, i ssa.Instruction) {
			st, ok := i.(*ssa.Store)
			if !ok || st.Addr != ssa.Value(setDef.Params[0]) {
				return
			}
			nStores++
			for _, f := range factsAt(st) {
				if bo, ok := f.V.(*ssa.BinOp); ok && bo.Op == token.EQL && f.Val {
					if z, ok := constInt(bo.Y); ok && z == 0 {
						okSD = true
					}
				}
			}
		})
		r.check(okSD && nStores == 1, rule, "setDefault assigns only when the option is empty", p.pos(setDef.Pos()), fnName(setDef), "the store is on the len(*conf) == 0 edge", "setDefault overwrites an option that a config file has set")
		// setBuildPath never assigns directly
		direct := false
		eachInstr(setBP, false, func(_ *ssa.Function, i ssa.Instruction) {
			if st, ok := i.(*ssa.Store); ok && st.Addr == ssa.Value(setBP.Params[0]) {
				direct = true
			}
		})
		viaSD := len(callsInFn(setBP, setDef)) > 0 && !existsPath(setBP, nil, nil, func(j ssa.Instruction) bool { return callsFn(j, setDef) })
		r.check(!direct && viaSD, rule, "build.path default goes through setDefault on every path", p.pos(setBP.Pos()), fnName(setBP), "no direct store to the option; every path calls setDefault", "setBuildPath assigns build.path directly (or skips setDefault on some path): with PATH in passenv the environment's PATH replaces a build.path set explicitly in a config file")
	}
	// (5)
	rule = "E5.overrides-after-files"
	{
		rd := p.Fn("core", "ReadDefaultConfigFiles")
		ao := p.Fn("core", "Configuration.ApplyOverrides")
		n := 0
		if rd != nil && ao != nil {
			for _, ci := range p.callers(ao) {
				fn := ci.Parent()
				if fnPkg(fn) != modPath+"/src" {
					continue
				}
				n++
				read := dominatedByCall(ci, rd)
				okk := read != nil
				if okk {
					k, isNil := errKnown(factsAt(ci), resultsOf(read, 1))
					okk = k && isNil
				}
				r.check(okk, rule, "-o overrides are applied to the fully read configuration", p.pos(ci.Pos()), fnName(fn), "ApplyOverrides is dominated by ReadDefaultConfigFiles with a nil error", "command-line overrides are applied before (or without) the config files having been read: a file then overrides the command line")
			}
		}
		if n == 0 {
			r.unresolved(rule, "ApplyOverrides call in package main")
		}
	}
}

// sliceDefaultsNotPreset: gcfg appends to slice-valued options, which is why their defaults are applied by setDefault after
// all files were read, and only when the option is still empty. DefaultConfiguration must therefore leave those options
// empty: a default present before reading is added to, not replaced by, what a file configures.
func (p *Prog) sliceDefaultsNotPreset(r *Report, rule string) {
	rcf := p.Fn("core", "ReadConfigFiles")
	dc := p.Fn("core", "DefaultConfiguration")
	sd := p.Fn("core", "setDefault")
	if rcf == nil || dc == nil || sd == nil {
		r.unresolved(rule, "core.ReadConfigFiles / DefaultConfiguration / setDefault")
		return
	}
	late := map[string]bool{}
	for _, g := range p.closure([]*ssa.Function{rcf}, 1, inRepoPkgs("core")) {
		for _, ci := range callsInFn(g, sd) {
			cc := callCommon(ci)
			if len(cc.Args) > 0 {
				if k := fieldKey(cc.Args[0]); k != "" {
					late[k] = true
				}
			}
		}
	}
	if len(late) == 0 {
		r.unresolved(rule, "options defaulted through setDefault in ReadConfigFiles")
		return
	}
	preset := ""
	eachInstr(dc, false, func(_ *ssa.Function, i ssa.Instruction) {
		if st, ok := i.(*ssa.Store); ok && late[fieldKey(st.Addr)] && !isNilConst(st.Val) {
			preset = fieldKey(st.Addr)
		}
	})
	r.check(preset == "", rule, "options defaulted after reading are left empty by DefaultConfiguration", p.pos(dc.Pos()), fnName(dc), itoa(len(late))+" option(s) are defaulted by setDefault after the files; none is pre-set", "DefaultConfiguration pre-sets "+preset+", a slice option whose default is meant to be applied only after reading and only when empty: gcfg appends what a config file says to the pre-set value, so e.g. `hashcheckers = sha256` yields [sha1 sha256 blake3 sha256] and the restriction the repository configured is silently ignored")
}

// profileOrderKept: several profiles are applied in the order they were asked for (a later one has the last word): the
// list handed to the readers is built position by position, never through a map or a sort.
func (p *Prog) profileOrderKept(r *Report) {
	rule := "E5.profile-after-its-file"
	n, bad := 0, ""
	for _, name := range []string{"ReadDefaultConfigFiles", "ReadDefaultConfigFilesOnly"} {
		fn := p.Fn("core", name)
		if fn == nil {
			continue
		}
		for _, callee := range []string{"ReadConfigFiles", "ReadConfigFilesOnly"} {
			g := p.Fn("core", callee)
			for _, ci := range callsInFn(fn, g) {
				cc := callCommon(ci)
				n++
				arg := cc.Args[len(cc.Args)-1]
				for x := range backSlice(arg, SliceOpts{}) {
					switch y := x.(type) {
					case *ssa.Next:
						if !y.IsString {
							bad = "a range over a map"
						}
					case *ssa.Call:
						switch calleeName(&y.Call) {
						case "slices.Sorted", "slices.Sort", "sort.Strings", "maps.Keys", "slices.SortFunc":
							bad = calleeName(&y.Call)
						}
						// a helper of this package that builds the list: look inside
						if h := y.Call.StaticCallee(); h != nil && h.Blocks != nil && fnPkg(h) == modPath+"/src/core" {
							eachInstr(h, false, func(_ *ssa.Function, j ssa.Instruction) {
								switch z := j.(type) {
								case *ssa.Range:
									if _, isMap := z.X.Type().Underlying().(*types.Map); isMap {
										bad = "a range over a map in " + h.Name()
									}
								case *ssa.Call:
									switch calleeName(&z.Call) {
									case "slices.Sorted", "slices.Sort", "sort.Strings", "maps.Keys", "slices.SortFunc":
										bad = calleeName(&z.Call) + " in " + h.Name()
									}
								}
							})
						}
					}
				}
			}
		}
	}
	if n == 0 {
		r.unresolved(rule, "calls of ReadConfigFiles(Only) in ReadDefaultConfigFiles(Only)")
		return
	}
	r.check(bad == "", rule, "profiles reach the reader in the order requested", "-", "core.ReadDefaultConfigFiles", itoa(n)+" call(s); the profile list is not rebuilt through a map or a sort", "the list of profiles is rebuilt through "+bad+" before it reaches ReadConfigFiles: --profile zeta --profile alpha is applied as alpha, zeta, so single-valued options take the wrong profile's value and repeated options accumulate in the wrong order")
}

// unmarshalAlwaysAssigns: gcfg calls UnmarshalText on the field that already holds the lower layers' value. A method that
// returns nil without assigning (e.g. for an empty string) leaves that value in place, so `httpurl =` in a higher file can
// no longer switch a URL option off.
func (p *Prog) unmarshalAlwaysAssigns(r *Report) {
	rule := "E5.higher-layer-assignment-always-lands"
	n, nBad := 0, 0
	for _, fn := range p.Funcs("cli") {
		if fn.Name() != "UnmarshalFlag" && fn.Name() != "UnmarshalText" {
			continue
		}
		if fn.Signature.Recv() == nil || len(fn.Params) == 0 {
			continue
		}
		if _, isPtr := fn.Signature.Recv().Type().(*types.Pointer); !isPtr {
			continue
		}
		n++
		recv := fn.Params[0]
		assigns := func(j ssa.Instruction) bool {
			switch x := j.(type) {
			case *ssa.Store:
				return derivesFromValue(x.Addr, recv)
			case *ssa.MapUpdate:
				return derivesFromValue(x.Map, recv)
			case *ssa.Call:
				// delegation to another method on the same receiver, or a callee that receives the receiver
				for _, a := range x.Call.Args {
					if a == ssa.Value(recv) || derivesFromValue(a, recv) {
						return true
					}
				}
			}
			return false
		}
		// a field of the receiver that this method writes on some path is written on every successful path: the receiver
		// still holds what a lower-priority file put there
		fields := map[string]bool{}
		eachInstr(fn, false, func(_ *ssa.Function, j ssa.Instruction) {
			if st, ok := j.(*ssa.Store); ok {
				if fa, ok := st.Addr.(*ssa.FieldAddr); ok && fa.X == ssa.Value(recv) {
					fields[fieldKey(fa)] = true
				}
			}
		})
		for fk := range fields {
			writes := func(j ssa.Instruction) bool {
				st, ok := j.(*ssa.Store)
				if !ok {
					return false
				}
				if fa, ok := st.Addr.(*ssa.FieldAddr); ok && fa.X == ssa.Value(recv) && fieldKey(fa) == fk {
					return true
				}
				return st.Addr == ssa.Value(recv) // whole-value assignment
			}
			sticky := false
			for _, rc := range returnCases(fn, 0) {
				// a return that surely reports an error gives the value up: gcfg stops at it
				if _, mk := rc.Vals[0].(*ssa.MakeInterface); mk || isResultOf(rc.Vals[0], "fmt.Errorf", "errors.New") {
					continue
				}
				if known, isNil := errKnown(rc.Facts, []ssa.Value{rc.Vals[0]}); known && !isNil {
					continue
				}
				if existsPath(fn, nil, rc.Ret, writes) {
					sticky = true
				}
			}
			key := rule + "|" + fnName(fn) + "|field " + fk[strings.LastIndex(fk, ".")+1:]
			if sticky {
				nBad++
				r.add(Obligation{Rule: rule, Instance: fnName(fn) + " writes field " + fk + " on every path", Site: p.pos(fn.Pos()), Func: fnName(fn), Status: "violated", Path: true, Key: key,
					Detail: "the method sets " + fk + " on some paths only: a value left there by a lower-priority file survives when a higher-priority file gives a value that takes the other path (version = >=16.0.0 below, version = 17.0.0 above: effective >=17.0.0)"})
			} else {
				r.add(Obligation{Rule: rule, Instance: fnName(fn) + " writes field " + fk + " on every path", Site: p.pos(fn.Pos()), Func: fnName(fn), Status: "discharged", Path: true, Key: key, Detail: "assigned on every path to a return"})
			}
		}
		for _, rc := range returnCases(fn, 0) {
			if !isNilConst(rc.Vals[0]) {
				continue
			}
			if existsPath(fn, nil, rc.Ret, assigns) {
				nBad++
				r.bad(rule, fnName(fn)+" assigns before returning nil", p.pos(rc.Site), fnName(fn), "the method can return nil without having written to its receiver (e.g. for an empty input): gcfg unmarshals into the field that still holds the value from a lower-priority file, so a higher-priority file cannot reset the option (`httpurl =` in .plzconfig.local no longer disables the shared HTTP cache)")
			}
		}
	}
	if n == 0 {
		r.unresolved(rule, "UnmarshalFlag / UnmarshalText methods in package cli")
		return
	}
	if nBad == 0 {
		r.ok(rule, "every config value type assigns before it reports success", "-", "cli", itoa(n)+" UnmarshalFlag/UnmarshalText methods with pointer receivers, none returns nil without writing the receiver")
	}
}
