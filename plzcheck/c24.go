package main

import (
	"go/token"

	"golang.org/x/tools/go/ssa"
)

func init() {
	register("C24", []string{"./src/..."}, checkC24)
}

func checkC24(p *Prog, r *Report) {
	r.Explanation = "(1) query.targetChanged compares build.RuleHash(runtime=true) of both targets and reports a change on the inequality edge (and on the source-hash inequality / error edges); the rule hash with runtime=true covers the build and runtime tables (E2, as C08/C11). (2) In diffGraphs no path from the `before target missing`, `targetChanged()==true` or `configChanged` edges reaches the next iteration without recording the target. (3) changedTargets records every target of the closest package for which HasAbsoluteSource(file) holds, and HasSource/HasAbsoluteSource test file ownership with component-bounded prefixes (E1). (4) With level != 0 the recorded labels are passed to FindRevdeps together with the level parameter, and every returned target is added."
	r.NotCovered = []string{"closure over reverse dependencies (FindRevdeps itself: see C23's not-decided part)", "files consumed by glob in a BUILD file that was not re-parsed"}
	tc := p.Fn("query", "targetChanged")
	dg := p.Fn("query", "diffGraphs")
	ct := p.Fn("query", "changedTargets")
	rh := p.Fn("build", "RuleHash")
	hs := p.Fn("core", "BuildTarget.HasSource")
	has := p.Fn("core", "BuildTarget.HasAbsoluteSource")
	fr := p.Fn("query", "FindRevdeps")
	if tc == nil || dg == nil || ct == nil || rh == nil || hs == nil || has == nil || fr == nil {
		r.unresolved("E5.diff-marks-changed", "query.targetChanged/diffGraphs/changedTargets, build.RuleHash, HasSource, HasAbsoluteSource, FindRevdeps")
		return
	}
	// (1)
	rule := "E5.target-changed"
	nRT := 0
	for _, i := range callsInFn(tc, rh) {
		if b, ok := constBool(callCommon(i).Args[2]); ok && b {
			nRT++
		}
	}
	r.check(nRT >= 2, rule, "targetChanged compares RuleHash(runtime=true)", p.pos(tc.Pos()), fnName(tc), "both rule hashes computed with runtime=true", "targetChanged does not compare RuleHash(runtime=true) of both targets: changes to test command/data/labels would not be reported")
	{
		bad, nTrue := 0, 0
		for _, rc := range returnCases(tc, 0) {
			v := rc.Vals[0]
			if b, isC := constBool(v); isC {
				if b {
					nTrue++
					// must be on an inequality edge of bytes.Equal over RuleHash results
					okk := false
					for _, f := range rc.Facts {
						if c, ok := f.V.(*ssa.Call); ok && isCallTo(c, "bytes.Equal") && !f.Val {
							okk = true
						}
					}
					if !okk {
						bad++
					}
				}
				continue
			}
		}
		// and the false edge of bytes.Equal(RuleHash...) returns true
		eqFalseReturnsTrue := false
		for _, rc := range returnCases(tc, 0) {
			if b, isC := constBool(rc.Vals[0]); isC && b {
				for _, f := range rc.Facts {
					if c, ok := f.V.(*ssa.Call); ok && isCallTo(c, "bytes.Equal") && !f.Val {
						from := 0
						for _, a := range c.Call.Args {
							if isResultOfFn(a, rh) {
								from++
							}
						}
						if from == 2 {
							eqFalseReturnsTrue = true
						}
					}
				}
			}
		}
		_ = bad // returning true on error edges as well is fine (over-reporting is allowed by the property)
		r.check(eqFalseReturnsTrue, rule, "rule-hash inequality => changed", p.pos(tc.Pos()), fnName(tc), "returns true on the !bytes.Equal(RuleHash, RuleHash) edge", "targetChanged does not return true on the edge where the two runtime rule hashes differ")
	}
	if rhf, runtime := ruleHashAnchors(p, r, "E2.hashcover-runtime"); rhf != nil {
		p.runHashCover(r, "E2.hashcover-runtime", rhf, map[ssa.Value]bool{runtime: true}, append(append([]mustHash{}, buildRelevant...), runtimeRelevant...))
		r.floor("E2.hashcover-runtime", 35)
		p.depsAccessorUnfiltered(r, "E2.dependencies-hashed-unfiltered", rhf)
		p.revdepsIndexComplete(r, "E5.revdeps-index-complete")
		p.globStateIsPerGlobber(r, "fs/E7.walk-cache-is-per-globber")
		// a directory source is matched as name + "/": the name stored on a file label carries no trailing slash
		if nfl := p.Fn("core", "NewFileLabel"); nfl == nil {
			r.unresolved("E5.file-owner-recorded", "core.NewFileLabel")
		} else {
			norm := false
			eachInstr(nfl, false, func(_ *ssa.Function, i ssa.Instruction) {
				st, ok := i.(*ssa.Store)
				if !ok || fieldKey(st.Addr) != "core.FileLabel.File" {
					return
				}
				for t := range tagsOf(st.Val, SliceOpts{}) {
					switch t {
					case "call:strings.TrimRight", "call:strings.TrimSuffix", "call:path.Clean", "call:path/filepath.Clean":
						norm = true
					}
				}
			})
			r.check(norm, "E5.file-owner-recorded", "a file label's name is normalised when it is created", p.pos(nfl.Pos()), fnName(nfl), "FileLabel.File is stored without a trailing slash (TrimRight / Clean)", "NewFileLabel keeps the name as written: HasSource matches files under a directory source with strings.HasPrefix(file, name+\"/\"), so for srcs = [\"test_data/\"] the needle is \"test_data//\", nothing under the directory has an owner, and changes there report no target")
		}
	}
	// (2) diffGraphs
	rule = "E5.diff-marks-changed"
	var upd []ssa.Instruction
	eachInstr(dg, false, func(_ *ssa.Function, i ssa.Instruction) {
		if _, ok := i.(*ssa.MapUpdate); ok {
			upd = append(upd, i)
		}
	})
	isUpd := func(i ssa.Instruction) bool {
		for _, u := range upd {
			if u == i {
				return true
			}
		}
		return false
	}
	if len(upd) == 0 {
		r.unresolved(rule, "map update recording a changed target in diffGraphs")
	} else {
		nEdges := 0
		for _, b := range dg.Blocks {
			iff, ok := lastIf(b)
			if !ok {
				continue
			}
			f := normFact(iff.Cond, true)
			what, edge := "", -1
			if c, ok := f.V.(*ssa.Call); ok && callsFn(c, tc) {
				what, edge = "targetChanged()==true", boolInt(!f.Val)
			} else if x, eq, ok := isNilCmp(f.V); ok {
				if c, ok := x.(*ssa.Call); ok && calleeName(&c.Call) == "(*core.BuildGraph).Target" {
					what = "target absent from the before graph"
					if eq == f.Val {
						edge = 0
					} else {
						edge = 1
					}
				}
			} else if _, isU := f.V.(*ssa.UnOp); !isU {
				// configChanged: a bool computed from bytes.Equal over the config hashes
				cfg := false
				for x := range backSlice(f.V, SliceOpts{}) {
					if fieldKey(x) == "struct.Config" {
						cfg = true
					}
				}
				if c, isCall := f.V.(*ssa.Call); cfg && isCall && isCallTo(c, "bytes.Equal") {
					// changed = the config hashes are NOT equal
					what, edge = "config hash changed", boolInt(f.Val)
				} else if cfg {
					what, edge = "config hash changed", boolInt(!f.Val)
				}
			}
			if what == "" {
				continue
			}
			nEdges++
			// from the first instruction of the chosen successor, the loop must not continue without the map update
			succ := b.Succs[edge]
			skip := false
			if len(succ.Instrs) > 0 && !isUpd(succ.Instrs[0]) {
				// reach the loop header (any block that dominates b and is a loop head) or return avoiding the update
				skip = existsPath(dg, succ.Instrs[0], nil, isUpd) && pathAvoidsWithinIteration(dg, succ, b, isUpd)
			}
			r.check(!skip, rule, what+" => target recorded", p.pos(iff.Pos()), fnName(dg), "the edge leads to the map update on every path of the iteration", "on the `"+what+"` edge an iteration of diffGraphs can finish without recording the target as changed: an affected target is missing from `plz query changes`")
		}
		if nEdges < 3 {
			r.unresolved(rule, "the three change conditions (absent before / targetChanged / configChanged) in diffGraphs")
		}
	}
	// (3) file ownership
	rule = "E5.file-owner-recorded"
	{
		okk := false
		eachInstrS(ct, func(_ *ssa.Function, i ssa.Instruction) {
			mu, ok := i.(*ssa.MapUpdate)
			if !ok {
				return
			}
			for _, f := range condFacts(mu.Block()) {
				if c, ok := f.V.(*ssa.Call); ok && callsFn(c, has) && f.Val {
					okk = true
				}
			}
		})
		r.check(okk, rule, "HasAbsoluteSource(file) => recorded", p.pos(ct.Pos()), fnName(ct), "map update on the HasAbsoluteSource()==true edge", "changedTargets does not record a target on the HasAbsoluteSource(file)==true edge")
		fwd := false
		for _, i := range callsInFn(has, hs) {
			_ = i
			fwd = true
		}
		r.check(fwd, rule, "HasAbsoluteSource delegates to HasSource", p.pos(has.Pos()), fnName(has), "calls HasSource", "HasAbsoluteSource no longer delegates to HasSource")
		n := 0
		eachInstrS(hs, func(_ *ssa.Function, i ssa.Instruction) {
			c, ok := i.(*ssa.Call)
			if !ok || !isCallTo(c, "strings.HasPrefix") {
				return
			}
			n++
			okb, why := p.needleBounded(c, c.Call.Args[0], c.Call.Args[1])
			r.check(okb, "E1.prefixbound", "HasSource directory-source test", p.pos(c.Pos()), fnName(hs), why, "HasSource tests `file is inside source directory` with an unbounded prefix: source `gen` would claim file `generated/x.go`")
		})
		// equality alternative must exist too (file sources)
		eq := false
		eachInstrS(hs, func(_ *ssa.Function, i ssa.Instruction) {
			if b, ok := i.(*ssa.BinOp); ok && b.Op == token.EQL {
				if _, isP := b.Y.(*ssa.Parameter); isP {
					eq = true
				}
				if _, isP := b.X.(*ssa.Parameter); isP {
					eq = true
				}
			}
		})
		r.check(eq && n > 0, rule, "HasSource: exact match or directory prefix", p.pos(hs.Pos()), fnName(hs), "both an equality test against the file and a bounded directory-prefix test", "HasSource lost its exact-match or its directory-prefix test")
	}
	// (4) revdeps
	rule = "E5.revdeps-included"
	{
		var level ssa.Value
		for _, prm := range ct.Params {
			if prm.Name() == "level" {
				level = prm
			}
		}
		sites := callsInFn(ct, fr)
		if level == nil || len(sites) == 0 {
			r.unresolved(rule, "FindRevdeps call / level parameter in changedTargets")
		} else {
			for _, s := range sites {
				cc := callCommon(s)
				passes := false
				for _, a := range cc.Args {
					if a == level {
						passes = true
					}
				}
				guardOK := true
				for _, f := range condFacts(s.Block()) {
					if b, ok := f.V.(*ssa.BinOp); ok && b.X == level {
						c, _ := constInt(b.Y)
						if !((b.Op == token.NEQ && f.Val && c == 0) || (b.Op == token.EQL && !f.Val && c == 0)) {
							guardOK = false
						}
					}
				}
				// the label list passed derives from the changed map
				fromChanged := false
				for _, a := range cc.Args {
					for x := range backSlice(a, SliceOpts{}) {
						if prm, ok := x.(*ssa.Parameter); ok && prm.Name() == "changed" {
							fromChanged = true
						}
						if rg, ok := x.(*ssa.Range); ok {
							if prm, ok := rg.X.(*ssa.Parameter); ok && prm.Parent() == ct {
								fromChanged = true
							}
						}
					}
				}
				// ... the whole changed set: nothing may filter it before the reverse-dependency search (a changed target
				// that the include/exclude flags hide still has dependents that are shown)
				shouldInclude := p.Fn("core", "BuildState.ShouldInclude")
				eachInstr(ct, false, func(_ *ssa.Function, i ssa.Instruction) {
					c, ok := i.(*ssa.Call)
					if !ok {
						return
					}
					b, ok := c.Call.Value.(*ssa.Builtin)
					if !ok || b.Name() != "append" || !instrDominatesOrReaches(ct, c, s) {
						return
					}
					// is this append feeding the labels argument?
					feeds := false
					for _, a := range cc.Args {
						if derivesFromValue(a, c) {
							feeds = true
						}
					}
					if !feeds {
						return
					}
					for _, f := range factsAt(c) {
						if fc, ok := f.V.(*ssa.Call); ok && shouldInclude != nil && callsFn(fc, shouldInclude) {
							r.bad(rule, "changed set is not filtered before the reverse-dependency search", p.pos(c.Pos()), fnName(ct), "a changed target is added to the seeds of FindRevdeps only if ShouldInclude(target): targets that depend on a changed but filtered-out target (e.g. a `manual` genrule, or one without the --include label) are never reported")
						}
					}
				})
				r.check(passes && guardOK && fromChanged, rule, "FindRevdeps(changed labels, level) when level != 0", p.pos(s.Pos()), fnName(ct), "level parameter passed through, guarded only by level != 0, labels derive from the changed set", "reverse dependencies are not requested with the caller's level for the changed set (or the guard is not `level != 0`): transitively affected targets would be missed")
			}
		}
	}
	// (5) the upward search for the owning package tries the root package before giving up
	rule = "E5.owner-search-reaches-root"
	{
		pkgFn := p.Fn("core", "BuildGraph.Package")
		n := 0
		for _, fn := range p.Funcs("query") {
			var dirCalls, pkgCalls []*ssa.Call
			eachInstr(fn, false, func(_ *ssa.Function, i ssa.Instruction) {
				if c, ok := i.(*ssa.Call); ok {
					if isCallTo(c, "path/filepath.Dir") {
						dirCalls = append(dirCalls, c)
					}
					if pkgFn != nil && callsFn(c, pkgFn) {
						pkgCalls = append(pkgCalls, c)
					}
				}
			})
			if len(dirCalls) == 0 || len(pkgCalls) == 0 {
				continue
			}
			loops := loopBlocks(fn)
			for _, dc := range dirCalls {
				// the loop that re-applies Dir to its own result
				var hdr *ssa.BasicBlock
				for h, blocks := range loops {
					for _, b := range blocks {
						if b == dc.Block() {
							if hdr == nil || len(blocks) < len(loops[hdr]) {
								hdr = h
							}
						}
					}
				}
				if hdr == nil {
					continue
				}
				inLoop := map[*ssa.BasicBlock]bool{}
				for _, b := range loops[hdr] {
					inLoop[b] = true
				}
				n++
				rootCapable := func(j ssa.Instruction) bool {
					c, ok := j.(*ssa.Call)
					if !ok || !callsFn(c, pkgFn) {
						return false
					}
					for x := range backSlice(c.Call.Args[1], SliceOpts{}) {
						if s, ok := constString(x); ok && s == "" {
							return true
						}
					}
					return false
				}
				// can the loop be left (through its header, i.e. the search ran out of directories) after this Dir()
				// without a Package() lookup that can name the root package?
				escapes := false
				for _, succ := range hdr.Succs {
					if inLoop[succ] || len(succ.Instrs) == 0 {
						continue
					}
					if existsPath(fn, dc, succ.Instrs[0], func(j ssa.Instruction) bool {
						if rootCapable(j) {
							return true
						}
						// leaving the loop any other way than through the header (found: break / return) is not "giving up"
						return !inLoop[j.Block()] && j.Block() != succ
					}) {
						escapes = true
					}
				}
				r.check(!escapes, rule, fn.Name()+": walking up from a file ends with the root package", p.pos(dc.Pos()), fnName(fn), "every way of running out of parent directories has looked up the package named \"\"", "the search for the package that owns a changed file can run out of parent directories without ever trying the root package: a file in a sub-directory that has no BUILD file of its own, consumed by a root-package target, changes nothing")
			}
		}
		if n == 0 {
			r.unresolved(rule, "upward directory walk with Graph.Package lookups in package query")
		}
	}
}

// instrDominatesOrReaches: a can execute before b.
func instrDominatesOrReaches(fn *ssa.Function, a, b ssa.Instruction) bool {
	return instrDominates(a, b) || existsPath(fn, a, b, nil)
}

// pathAvoidsWithinIteration: starting at block `from`, can control come back
// to the loop (reach block `loopCond`'s loop header, i.e. any predecessor-chain
// back to `loopCond`) or leave the function without executing an avoid instruction?
func pathAvoidsWithinIteration(fn *ssa.Function, from, loopCond *ssa.BasicBlock, avoid func(ssa.Instruction) bool) bool {
	seen := map[*ssa.BasicBlock]bool{}
	st := []*ssa.BasicBlock{from}
	for len(st) > 0 {
		b := st[len(st)-1]
		st = st[:len(st)-1]
		if seen[b] {
			continue
		}
		seen[b] = true
		blocked := false
		for _, i := range b.Instrs {
			if avoid(i) {
				blocked = true
				break
			}
			if _, ok := i.(*ssa.Return); ok {
				return true
			}
		}
		if blocked {
			continue
		}
		for _, s := range b.Succs {
			// a back edge (successor dominates this block) = next iteration reached without the update
			if s.Dominates(b) && s.Dominates(loopCond) {
				return true
			}
			st = append(st, s)
		}
	}
	return false
}
