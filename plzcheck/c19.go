package main

import (
	"go/token"
	"go/types"
	"path/filepath"
	"strings"

	"golang.org/x/tools/go/ssa"
)

func init() {
	register("C19", []string{"./src/parse/asp/..."}, checkC19)
}

// parseFiles: the files that make up the lexer and the recursive-descent parser.
var parseFiles = map[string]bool{"lexer.go": true, "grammar_parse.go": true}

func (p *Prog) fileOf(fn *ssa.Function) string {
	f := topFunc(fn)
	if !f.Pos().IsValid() {
		return ""
	}
	return filepath.Base(p.Fset.Position(f.Pos()).Filename)
}

func checkC19(p *Prog, r *Report) {
	r.Explanation = "Crash-containment clauses of 'the parser is total'. (1) recover dominance: newLexer (which already lexes the first token) and every parser call in parseFileInput are dominated by the defer of a closure that calls recover() and assigns the error result; newLexer and parseFileInput have no other callers, so every exported parse entry goes through that frame. (2) the handler is total: it converts the recovered value with a non-comma-ok assertion to error, so every panic raised in the lexer/parser files must carry a value whose static type implements error, or be unreachable (preceded on every path by a call that never returns). (3) explicit failures are positioned: in lexer.go / grammar_parse.go the only explicit panics are inside fail(), which wraps the message with file name and position (AddStackFrame). (4) contradiction rule: inside one parser function, a slice field that is length-tested before being indexed with a constant at one site must be length-tested (or indexed under a range) at every other such site. (5) a fixed-size array in the lexer/parser files is indexed by a variable only under a bound visible in the code (byte index into a 256-entry table, mask/remainder by a constant, dominating comparison with a constant or len not above the array length). Termination of lexer loops and the absence of out-of-range indices into slices and strings in general are NOT decided."
	r.NotCovered = []string{"termination of the lexer/parser loops", "index/slice bounds in general (only the sibling-contradiction rule is applied)", "stack depth on deeply nested input", "errors raised later by the interpreter"}
	pfi := p.Fn("parse/asp", "parseFileInput")
	newLexer := p.Fn("parse/asp", "newLexer")
	failFn := p.Fn("parse/asp", "fail")
	if pfi == nil || newLexer == nil || failFn == nil {
		r.unresolved("E5.recover-dominates-parsing", "asp.parseFileInput / newLexer / fail")
		return
	}
	// (1)
	rule := "E5.recover-dominates-parsing"
	{
		var def *ssa.Defer
		eachInstr(pfi, false, func(_ *ssa.Function, i ssa.Instruction) {
			d, ok := i.(*ssa.Defer)
			if !ok {
				return
			}
			g := resolveCalleeDeep(&d.Call)
			if g == nil {
				return
			}
			hasRecover, setsErr := false, false
			eachInstr(g, false, func(_ *ssa.Function, j ssa.Instruction) {
				if c, ok := j.(*ssa.Call); ok {
					if b, ok := c.Call.Value.(*ssa.Builtin); ok && b.Name() == "recover" {
						hasRecover = true
					}
				}
				if st, ok := j.(*ssa.Store); ok && typeString(st.Val.Type()) == "error" {
					setsErr = true
				}
			})
			if hasRecover && setsErr {
				def = d
			}
		})
		if def == nil {
			r.bad(rule, "parseFileInput defers a recover that sets its error", p.pos(pfi.Pos()), fnName(pfi), "parseFileInput no longer recovers parser panics into its error result: a syntax error crashes the process")
		} else {
			n, bad := 0, ""
			eachInstr(pfi, false, func(_ *ssa.Function, i ssa.Instruction) {
				cc := callCommon(i)
				if cc == nil || i == ssa.Instruction(def) {
					return
				}
				g := cc.StaticCallee()
				if g == nil || fnPkg(g) != modPath+"/src/parse/asp" {
					return
				}
				n++
				if !instrDominates(def, i) {
					bad = fnName(g)
				}
			})
			r.check(bad == "" && n >= 2, rule, "every lexer/parser call is under the deferred recover", p.pos(def.Pos()), fnName(pfi), itoa(n)+" calls into the package, all dominated by the defer", bad+" is called before the recover is installed (it lexes/parses already): an error in the first token escapes as a panic and crashes the process")
		}
		// who may call
		for _, g := range []*ssa.Function{newLexer, pfi} {
			callers := map[string]bool{}
			for _, ci := range p.callers(g) {
				callers[fnName(topFunc(ci.Parent()))] = true
			}
			okk := len(callers) == 1
			want := "parse/asp.parseFileInput"
			if g == pfi {
				want = "(*parse/asp.Parser).parseAndHandleErrors"
			}
			r.check(okk && callers[want], rule, g.Name()+" is reached only through "+want, p.pos(g.Pos()), fnName(g), "single caller", g.Name()+" is also called from "+strings.Join(sortedKeys(callers), ", ")+": a parse entry that bypasses the recovering frame")
		}
	}
	// (2)+(3)
	rule = "E7.panics-carry-positioned-errors"
	{
		errIface := types.Universe.Lookup("error").Type().Underlying().(*types.Interface)
		n := 0
		for _, fn := range p.Funcs("parse/asp") {
			if !parseFiles[p.fileOf(fn)] {
				continue
			}
			eachInstr(fn, false, func(_ *ssa.Function, i ssa.Instruction) {
				pn, ok := i.(*ssa.Panic)
				if !ok {
					return
				}
				n++
				// unreachable: every path from entry to this panic passes a call to fail (which never returns)
				unreachable := !existsPath(fn, nil, pn, func(j ssa.Instruction) bool {
					if cc := callCommon(j); cc != nil {
						if g := cc.StaticCallee(); g != nil && neverReturns(g, 3) {
							return true
						}
					}
					return false
				})
				isErr := false
				if mi, ok := pn.X.(*ssa.MakeInterface); ok && types.Implements(mi.X.Type(), errIface) {
					isErr = true
				}
				if types.Implements(pn.X.Type(), errIface) {
					isErr = true
				}
				r.check(isErr || unreachable, rule, "panic in "+fn.Name()+" carries an error or is unreachable", p.pos(pn.Pos()), fnName(fn), map[bool]string{true: "value implements error", false: "only reachable after a call that never returns"}[isErr], "a panic with a non-error value ("+typeString(pn.X.Type())+") can be raised while parsing: the recover handler's `r.(error)` assertion itself panics and the process crashes")
			})
		}
		// fail() panics with AddStackFrame(filename, pos, ...)
		okFail := false
		eachInstr(failFn, false, func(_ *ssa.Function, i ssa.Instruction) {
			if pn, ok := i.(*ssa.Panic); ok {
				for x := range backSlice(pn.X, SliceOpts{}) {
					if c, ok := x.(*ssa.Call); ok && calleeName(&c.Call) == "parse/asp.AddStackFrame" {
						// position argument derives from the pos parameter
						for _, prm := range failFn.Params {
							if typeString(prm.Type()) == "parse/asp.Position" && derivesFromValue(c.Call.Args[1], prm) {
								okFail = true
							}
						}
					}
				}
			}
		})
		r.check(okFail, rule, "fail() raises an error carrying file and position", p.pos(failFn.Pos()), fnName(failFn), "panic(AddStackFrame(filename, pos, ...))", "fail() no longer attaches the source position to the error it raises")
		// the handler's assertion
		r.Stats["panics_in_parse_files"] = n
	}
	// (4) contradiction rule
	rule = "E9.unchecked-index-where-sibling-checks"
	{
		nFns := 0
		for _, fn := range p.Funcs("parse/asp") {
			if !parseFiles[p.fileOf(fn)] {
				continue
			}
			type site struct {
				i       ssa.Instruction
				checked bool
			}
			byField := map[string][]site{}
			eachInstr(fn, false, func(_ *ssa.Function, i ssa.Instruction) {
				ia, ok := i.(*ssa.IndexAddr)
				if !ok {
					return
				}
				if _, isC := constInt(ia.Index); !isC {
					return
				}
				k := fieldKeyOfLoad(ia.X)
				if k == "" {
					return
				}
				// checked: some dominating branch fact mentions len() of the same field
				checked := false
				for _, f := range factsAt(ia) {
					for x := range backSlice(f.V, SliceOpts{}) {
						if c, ok := x.(*ssa.Call); ok {
							if b, ok := c.Call.Value.(*ssa.Builtin); ok && b.Name() == "len" && fieldKeyOfLoad(c.Call.Args[0]) == k {
								checked = true
							}
						}
					}
				}
				byField[k] = append(byField[k], site{ia, checked})
			})
			for k, sites := range byField {
				anyChecked, firstUnchecked := false, ssa.Instruction(nil)
				for _, s := range sites {
					if s.checked {
						anyChecked = true
					} else if firstUnchecked == nil {
						firstUnchecked = s.i
					}
				}
				if !anyChecked {
					continue // no belief expressed in this function
				}
				nFns++
				key := rule + "|" + fnName(fn) + "|" + strings.TrimSuffix(k, "")
				if firstUnchecked != nil {
					r.add(Obligation{Rule: rule, Instance: fn.Name() + ": " + k + " indexed only under a length test", Site: p.pos(firstUnchecked.Pos()), Func: fnName(fn), Status: "violated", Path: true, Key: key,
						Detail: "this function tests len(" + k + ") before indexing it at one site and indexes it with a constant without any test at another: for the input the first test exists for, the second site raises an index-out-of-range runtime error, which the parser reports without a position"})
				} else {
					r.add(Obligation{Rule: rule, Instance: fn.Name() + ": " + k + " indexed only under a length test", Site: p.pos(sites[0].i.Pos()), Func: fnName(fn), Status: "discharged", Path: true, Key: key, Detail: itoa(len(sites)) + " constant-index sites, all under a length test"})
				}
			}
		}
		if nFns == 0 {
			r.unresolved(rule, "functions of the parser that length-test a slice field before a constant index")
		}
	}
	// (5) a fixed-size array indexed by a variable: the index must be bounded by the array's length on every path
	rule = "E5.fixed-array-index-bounded"
	{
		n := 0
		for _, fn := range p.Funcs("parse/asp") {
			if !parseFiles[p.fileOf(fn)] {
				continue
			}
			eachInstr(fn, false, func(_ *ssa.Function, i ssa.Instruction) {
				var x, idx ssa.Value
				switch ia := i.(type) {
				case *ssa.IndexAddr:
					x, idx = ia.X, ia.Index
				case *ssa.Index:
					x, idx = ia.X, ia.Index
				default:
					return
				}
				t := x.Type().Underlying()
				if pt, ok := t.(*types.Pointer); ok {
					t = pt.Elem().Underlying()
				}
				arr, ok := t.(*types.Array)
				if !ok {
					return
				}
				if _, isC := constInt(idx); isC {
					return // checked by the compiler
				}
				n++
				okk, why := arrayIndexBounded(i, idx, arr.Len())
				r.check(okk, rule, fn.Name()+": index into "+typeString(x.Type())+" is bounded", p.pos(i.Pos()), fnName(fn), why, "a fixed-size array of "+itoa(int(arr.Len()))+" elements is indexed by a value that nothing bounds (no dominating comparison with the length, not a byte-sized index of a 256-entry table, not masked): a long enough token makes the lexer raise `index out of range`, which reaches the user as a bare runtime error without file or position")
			})
		}
		r.Stats["array_index_sites_in_parse_files"] = n
		if n == 0 {
			r.okTrivial(rule, "no fixed-size array is indexed by a variable in the lexer/parser", "-", "", "0 sites")
		}
	}
	// (5b) a string parameter indexed at a constant position needs a visible non-emptiness / length test
	{
		rl := "E5.fixed-array-index-bounded"
		for _, fn := range p.Funcs("parse/asp") {
			if !parseFiles[p.fileOf(fn)] {
				continue
			}
			eachInstr(fn, false, func(_ *ssa.Function, i ssa.Instruction) {
				var lkX, lkIndex ssa.Value
				var lk ssa.Instruction
				switch x := i.(type) {
				case *ssa.Lookup:
					lkX, lkIndex, lk = x.X, x.Index, x
				case *ssa.Index:
					lkX, lkIndex, lk = x.X, x.Index, x
				default:
					return
				}
				bt, isStr := lkX.Type().Underlying().(*types.Basic)
				if !isStr || bt.Info()&types.IsString == 0 {
					return
				}
				k, isC := constInt(lkIndex)
				prm, isPrm := lkX.(*ssa.Parameter)
				if !isC || !isPrm {
					return
				}
				guarded := false
				for _, f := range factsAt(lk) {
					bo, ok := f.V.(*ssa.BinOp)
					if !ok {
						continue
					}
					// len(s) compared with a constant, or s compared with ""
					for _, op := range []ssa.Value{bo.X, bo.Y} {
						if c, ok := op.(*ssa.Call); ok {
							if b, ok := c.Call.Value.(*ssa.Builtin); ok && b.Name() == "len" && c.Call.Args[0] == ssa.Value(prm) {
								guarded = true
							}
						}
						if op == ssa.Value(prm) {
							guarded = true
						}
					}
				}
				r.check(guarded, rl, fn.Name()+": "+prm.Name()+"["+itoa(int(k))+"] is read under a length test", p.pos(lk.Pos()), fnName(fn), "a dominating comparison involves len("+prm.Name()+") or "+prm.Name()+" itself", "a string parameter is indexed at a constant position with nothing establishing that it is long enough: for an empty string (e.g. an empty component in f'{y.}') the parser raises `index out of range`, reported without file or position")
			})
		}
	}
	// (6) the error path runs on every parse goroutine at once: state it shares at package level is written under an
	// exclusive lock (a concurrent map write is a fatal error that no recover can contain)
	{
		rl := "E6.shared-error-state-locked"
		n, bad := 0, 0
		var site token.Pos
		for _, fn := range p.Funcs("parse/asp") {
			eachInstr(fn, false, func(_ *ssa.Function, i ssa.Instruction) {
				mu, ok := i.(*ssa.MapUpdate)
				if !ok {
					return
				}
				_, isGlobal := rootOf(mu.Map).(*ssa.Global)
				if !isGlobal || fn.Name() == "init" || strings.HasPrefix(fn.Name(), "init#") {
					return
				}
				n++
				locked := false
				eachInstr(fn, false, func(_ *ssa.Function, j ssa.Instruction) {
					if c, ok := j.(*ssa.Call); ok && instrDominates(c, mu) {
						switch calleeName(&c.Call) {
						case "(*sync.Mutex).Lock", "(*sync.RWMutex).Lock":
							locked = true
						}
					}
				})
				if !locked {
					bad++
					site = mu.Pos()
				}
			})
		}
		if n == 0 {
			r.ok(rl, "no package-level map of the parser is written after initialisation", "-", "", "0 map updates on package-level maps outside init")
		} else {
			r.check(bad == 0, rl, "package-level maps are written under an exclusive lock", p.pos(site), "parse/asp", itoa(n)+" update(s), each dominated by Lock()", "a package-level map in the parser is written without an exclusive lock (e.g. under RLock only): two goroutines that hit a syntax error at the same time write it concurrently, and the Go runtime kills the process with `concurrent map writes` - ParseData never returns")
		}
	}
	_ = token.NoPos
}

// arrayIndexBounded: idx < n is established for the instruction at: by the index's type (uint8 into >=256), by a mask /
// remainder with a constant <= n, by a range over the same array, or by a dominating comparison with a constant <= n or len.
func arrayIndexBounded(at ssa.Instruction, idx ssa.Value, n int64) (bool, string) {
	strip := func(v ssa.Value) ssa.Value {
		for {
			switch c := v.(type) {
			case *ssa.Convert:
				// widening conversion from a narrower unsigned type keeps the bound of the source type
				v = c.X
			case *ssa.ChangeType:
				v = c.X
			default:
				return v
			}
		}
	}
	base := strip(idx)
	if b, ok := base.Type().Underlying().(*types.Basic); ok {
		if (b.Kind() == types.Uint8) && n >= 256 {
			return true, "byte-sized index into a table of at least 256 entries"
		}
	}
	if bo, ok := base.(*ssa.BinOp); ok {
		if k, isC := constInt(bo.Y); isC {
			if bo.Op == token.AND && k >= 0 && int64(k) < n {
				return true, "masked with a constant below the length"
			}
			if bo.Op == token.REM && k > 0 && int64(k) <= n {
				if b, ok := bo.X.Type().Underlying().(*types.Basic); ok && b.Info()&types.IsUnsigned != 0 {
					return true, "unsigned remainder by a constant not above the length"
				}
			}
		}
	}
	for _, f := range factsAt(at) {
		bo, ok := f.V.(*ssa.BinOp)
		if !ok {
			continue
		}
		lim := func(v ssa.Value) (int64, bool) {
			if k, isC := constInt(v); isC {
				return int64(k), true
			}
			if c, ok := v.(*ssa.Call); ok {
				if b, ok := c.Call.Value.(*ssa.Builtin); ok && b.Name() == "len" {
					if a, ok := c.Call.Args[0].Type().Underlying().(*types.Array); ok {
						return a.Len(), true
					}
				}
			}
			return 0, false
		}
		same := func(v ssa.Value) bool { return v == idx || strip(v) == base }
		// idx < K (true) ; idx >= K (false) ; K > idx (true) ; K <= idx (false) ; idx <= K-1 ...
		if k, ok := lim(bo.Y); ok && same(bo.X) {
			if (bo.Op == token.LSS && f.Val && k <= n) || (bo.Op == token.GEQ && !f.Val && k <= n) || (bo.Op == token.LEQ && f.Val && k < n) || (bo.Op == token.GTR && !f.Val && k < n) {
				return true, "dominated by a comparison of the index with a bound not above the length"
			}
		}
		if k, ok := lim(bo.X); ok && same(bo.Y) {
			if (bo.Op == token.GTR && f.Val && k <= n) || (bo.Op == token.LEQ && !f.Val && k <= n) || (bo.Op == token.GEQ && f.Val && k < n) || (bo.Op == token.LSS && !f.Val && k < n) {
				return true, "dominated by a comparison of the index with a bound not above the length"
			}
		}
	}
	return false, ""
}

// neverReturns: no path from entry reaches a return without first calling a function that never
// returns (panics count as not returning).
func neverReturns(fn *ssa.Function, depth int) bool {
	if fn == nil || fn.Blocks == nil || depth == 0 {
		return false
	}
	return !existsPath(fn, nil, nil, func(j ssa.Instruction) bool {
		if cc := callCommon(j); cc != nil {
			if g := cc.StaticCallee(); g != nil && g != fn && neverReturns(g, depth-1) {
				return true
			}
		}
		return false
	})
}
