package main

import (
	"go/token"
	"strings"

	"golang.org/x/tools/go/ssa"
)

func init() {
	register("C29", []string{"./src/remote/fs/..."}, checkC29)
}

func checkC29(p *Prog, r *Report) {
	r.Explanation = "Clean-failure and lookup clauses of the CAS filesystem view. (1) E11 recursion measure: CASFileSystem.open follows symlink targets taken from the tree (external data) by calling itself; the recursive call must carry an integer that grows by a constant and is compared with a limit on an edge that returns an error, so a loop of links fails cleanly instead of overflowing the stack. (2) the absolute-target test dominates the recursive call and returns an error; `..` components are refused in findNode. (3) per-hop resolution: the next path is Join(Dir(x), target) where x is the very path this frame looked up (the first argument of the findNode call that produced the link). (4) findNode's recursion consumes its path: the recursive argument is the remainder returned by strings.Cut. (5) exhaustive lookup: the loops over a directory's Directories / Files / Symlinks are left early only on a name match (no assumption that entries are sorted). io/fs conformance (fstest) is not decided."
	r.NotCovered = []string{"io/fs contracts (ReadDir ordering, Stat/Open agreement)", "content of files read from the CAS", "symlinks to directories followed in the middle of a path"}
	// the local blob cache behind the view: a blob is stored only after its download succeeded (a partial read would be
	// served as the whole file from then on)
	if rb := p.Fn("remote/fs/cache", "Client.ReadBlob"); rb == nil {
		r.unresolved("E5.cache-only-complete-blobs", "remote/fs/cache.Client.ReadBlob")
	} else {
		st := p.Fn("remote/fs/cache", "Client.store")
		n, bad := 0, 0
		var site token.Pos
		for _, ci := range callsInFn(rb, st) {
			n++
			okk := false
			eachInstr(rb, false, func(_ *ssa.Function, j ssa.Instruction) {
				c, ok := j.(*ssa.Call)
				if !ok || !c.Call.IsInvoke() || c.Call.Method.Name() != "ReadBlob" || !instrDominates(c, ci) {
					return
				}
				if k, isNil := errKnown(factsAt(ci), resultsOf(c, 2)); k && isNil {
					okk = true
				}
			})
			if !okk {
				bad++
				site = ci.Pos()
			}
		}
		if n == 0 {
			r.unresolved("E5.cache-only-complete-blobs", "the store call in Client.ReadBlob")
		} else {
			r.check(bad == 0, "E5.cache-only-complete-blobs", "a downloaded blob is stored only when the download returned no error", p.pos(site), fnName(rb), "store(d, bs) is on the err == nil edge of the remote ReadBlob", "the local CAS cache stores what a failed download returned (the SDK hands back the partial buffer together with the stream error): the truncated bytes sit under the full digest, and every later open of that file, of a link to it or of a file with the same content silently returns them while Stat reports the full size")
		}
	}
	// listing a directory with n <= 0 never reports io.EOF (io/fs: "ReadDir returns all the DirEntry values ... a nil error")
	if rd := p.Fn("remote/fs", "dir.ReadDir"); rd == nil {
		r.unresolved("E5.readdir-eof-only-when-paging", "remote/fs.dir.ReadDir")
	} else {
		bad := false
		var nPrm *ssa.Parameter
		for _, prm := range rd.Params {
			if prm.Name() == "n" {
				nPrm = prm
			}
		}
		for _, rc := range returnCases(rd, 1) {
			isEOF := false
			for x := range backSlice(rc.Vals[1], SliceOpts{}) {
				if g, ok := x.(*ssa.Global); ok && g.Name() == "EOF" {
					isEOF = true
				}
			}
			if !isEOF {
				continue
			}
			paging := false
			for _, f := range rc.Facts {
				if bo, ok := f.V.(*ssa.BinOp); ok && nPrm != nil {
					z, isC := constInt(bo.Y)
					if bo.X == ssa.Value(nPrm) && isC && z == 0 && ((bo.Op == token.GTR && f.Val) || (bo.Op == token.LEQ && !f.Val)) {
						paging = true
					}
				}
			}
			if !paging {
				bad = true
			}
		}
		r.check(!bad, "E5.readdir-eof-only-when-paging", "ReadDir returns io.EOF only for n > 0", p.pos(rd.Pos()), fnName(rd), "every return of io.EOF is under n > 0", "ReadDir(-1) can return io.EOF (for an empty directory, or on an exhausted handle): fs.ReadDir, fs.WalkDir and fs.Glob treat that as a failure, so listing or walking a tree that contains an empty directory errors instead of succeeding")
	}
	// every open hands out its own file object: a handle carries a read offset and the name/mode of the node it was
	// opened through, so an object shared between opens (a cache keyed by digest) mixes both up
	if of := p.Fn("remote/fs", "CASFileSystem.openFile"); of == nil {
		r.unresolved("E8.handle-is-fresh", "remote/fs.CASFileSystem.openFile")
	} else {
		n, bad := 0, 0
		var site token.Pos
		for _, rc := range returnCases(of, 0) {
			if isNilConst(rc.Vals[0]) {
				continue
			}
			n++
			for _, ar := range aliasRoots(rc.Vals[0]) {
				if ar.kind != rootFresh {
					bad++
					site = rc.Site
				}
			}
		}
		r.check(n > 0 && bad == 0, "E8.handle-is-fresh", "openFile returns a newly allocated file on every path", p.pos(site), fnName(of), itoa(n)+" non-nil return(s), each a fresh object", "openFile can return a file object that it did not allocate for this call (e.g. one remembered per digest): two handles on the same content share one read offset, and a second path with identical bytes reports the first one's name and mode")
	}
	open := p.Fn("remote/fs", "CASFileSystem.open")
	find := p.Fn("remote/fs", "CASFileSystem.findNode")
	if open == nil || find == nil {
		r.unresolved("E11.recursion-measure", "remote/fs.CASFileSystem.open / findNode")
		return
	}
	// (1)
	rule := "E11.recursion-measure"
	var recs []*ssa.Call
	for _, ci := range callsInFn(open, open) {
		if c, ok := ci.(*ssa.Call); ok {
			recs = append(recs, c)
		}
	}
	var findCall *ssa.Call
	for _, ci := range callsInFn(open, find) {
		findCall, _ = ci.(*ssa.Call)
	}
	if len(recs) == 0 {
		// iterative implementation: a loop whose back edge follows links must have a counter compared to a limit
		bounded := false
		for hdr, blocks := range loopBlocks(open) {
			_ = hdr
			for _, b := range blocks {
				if iff, ok := lastIf(b); ok {
					if bo, ok := iff.Cond.(*ssa.BinOp); ok && (bo.Op == token.GEQ || bo.Op == token.GTR || bo.Op == token.LSS || bo.Op == token.LEQ || bo.Op == token.EQL || bo.Op == token.NEQ) {
						if _, isC := constInt(bo.Y); isC {
							bounded = true
						}
					}
				}
			}
		}
		r.check(bounded, rule, "link following is bounded", p.pos(open.Pos()), fnName(open), "the loop that follows links compares a counter with a constant limit", "symlink following has no bound: a loop of links never terminates")
	}
	for _, rc := range recs {
		okk := false
		var limitSite token.Pos
		for k, prm := range open.Params {
			if typeString(prm.Type()) != "int" || k >= len(rc.Call.Args) {
				continue
			}
			arg := rc.Call.Args[k]
			bo, ok := arg.(*ssa.BinOp)
			if !ok || bo.Op != token.ADD || bo.X != ssa.Value(prm) {
				continue
			}
			if c, ok := constInt(bo.Y); !ok || c <= 0 {
				continue
			}
			// a comparison of prm with a constant whose true edge returns an error without recursing
			eachInstr(open, false, func(_ *ssa.Function, i ssa.Instruction) {
				iff, ok := i.(*ssa.If)
				if !ok {
					return
				}
				cmp, ok := iff.Cond.(*ssa.BinOp)
				if !ok || cmp.X != ssa.Value(prm) || (cmp.Op != token.GEQ && cmp.Op != token.GTR) {
					return
				}
				if _, isC := constInt(cmp.Y); !isC {
					return
				}
				errEdge := iff.Block().Succs[0]
				// the limit edge returns a non-nil error and the recursive call is not on it
				for _, c := range returnCases(open, 1) {
					if hasFact(c.Facts, true, func(v ssa.Value) bool { return v == ssa.Value(cmp) }) && !isNilConst(c.Vals[1]) {
						if !hasFact(factsAt(rc), true, func(v ssa.Value) bool { return v == ssa.Value(cmp) }) && hasFact(factsAt(rc), false, func(v ssa.Value) bool { return v == ssa.Value(cmp) }) {
							okk = true
							limitSite = iff.Pos()
						}
					}
				}
				_ = errEdge
			})
		}
		_ = limitSite
		key := rule + "|" + fnName(open) + "|symlink recursion"
		st := "discharged"
		if !okk {
			st = "violated"
		}
		r.add(Obligation{Rule: rule, Instance: "recursive open() carries a bounded counter", Site: p.pos(rc.Pos()), Func: fnName(open), Status: st, Path: true, Key: key,
			Detail: "open() calls itself with a path built from a symlink target read from the tree and nothing that grows towards a limit: a tree with a -> b, b -> a makes Open(\"a\") recurse until the stack overflows (the process dies instead of returning an error)"})
	}
	// (2)
	rule = "E5.bad-link-refused"
	for _, rc := range recs {
		abs := false
		for _, f := range factsAt(rc) {
			if c, ok := f.V.(*ssa.Call); ok && isCallTo(c, "path/filepath.IsAbs") && !f.Val {
				abs = true
			}
		}
		r.check(abs, rule, "absolute targets are refused before following", p.pos(rc.Pos()), fnName(open), "recursive call is on the false edge of filepath.IsAbs(target)", "an absolute symlink target is followed (joined onto the tree path) instead of being refused")
	}
	{
		dots := false
		for _, c := range returnCases(find, 3) {
			for _, f := range c.Facts {
				if bo, ok := f.V.(*ssa.BinOp); ok && bo.Op == token.EQL && f.Val {
					if s, ok := constString(bo.Y); ok && s == ".." && !isNilConst(c.Vals[3]) {
						dots = true
					}
				}
			}
		}
		r.check(dots, rule, "`..` components are refused", p.pos(find.Pos()), fnName(find), "name == \"..\" returns an error", "a `..` component is no longer refused: a link can walk out of the tree")
	}
	// (3)
	rule = "E7.per-hop-resolution"
	{
		n := 0
		eachInstr(open, false, func(_ *ssa.Function, i ssa.Instruction) {
			j, ok := i.(*ssa.Call)
			if !ok || !isCallTo(j, "path/filepath.Join") {
				return
			}
			// Join(Dir(x), target)
			var dirArg ssa.Value
			usesTarget := false
			for x := range backSlice(j, SliceOpts{}) {
				if c, ok := x.(*ssa.Call); ok && isCallTo(c, "path/filepath.Dir") {
					dirArg = c.Call.Args[0]
				}
				if fieldKey(x) == "github.com/bazelbuild/remote-apis/build/bazel/remote/execution/v2.SymlinkNode.Target" {
					usesTarget = true
				}
			}
			if dirArg == nil || !usesTarget || findCall == nil {
				return
			}
			n++
			looked := findCall.Call.Args[len(findCall.Call.Args)-1]
			r.check(dirArg == looked, rule, "relative targets are resolved against the link's own directory", p.pos(j.Pos()), fnName(open), "Join(Dir(x), target) with x the path handed to findNode in this frame", "the directory a relative link target is resolved against is not that of the link just looked up (computed once / from another value): later links in a chain resolve relative to the first link's directory")
		})
		if n == 0 {
			r.unresolved(rule, "Join(Dir(name), link.Target) in open")
		}
	}
	// (4)
	rule = "E11.findnode-consumes-path"
	{
		n := 0
		for _, ci := range callsInFn(find, find) {
			c := ci.(*ssa.Call)
			n++
			arg := c.Call.Args[len(c.Call.Args)-1]
			fromCut := false
			for x := range backSlice(arg, SliceOpts{NoCallArgs: true}) {
				if e, ok := x.(*ssa.Extract); ok && e.Index == 1 {
					if cc, ok := e.Tuple.(*ssa.Call); ok && isCallTo(cc, "strings.Cut") {
						fromCut = true
					}
				}
			}
			r.check(fromCut && arg != ssa.Value(find.Params[len(find.Params)-1]), rule, "recursive findNode gets the remainder after the first separator", p.pos(c.Pos()), fnName(find), "argument is the `after` result of strings.Cut(name, sep): strictly shorter", "findNode recurses on a path that is not the strict remainder of its own: the walk may not terminate")
		}
		if n == 0 {
			r.okTrivial(rule, "findNode is iterative", p.pos(find.Pos()), fnName(find), "no self-recursion")
		}
	}
	// (5)
	rule = "E5.exhaustive-lookup"
	{
		n := 0
		for _, l := range sliceRangeLoops(find) {
			k := fieldKeyOfLoad(l.over)
			if !strings.Contains(k, "execution/v2.Directory.") {
				continue
			}
			n++
			// every edge leaving the loop from inside the body must be under a name-equality fact
			bad := false
			for b := range l.blocks {
				if b == l.header {
					continue
				}
				for _, s := range b.Succs {
					if l.blocks[s] {
						continue
					}
					okEdge := false
					for _, f := range edgeFacts(b, s) {
						if bo, ok := f.V.(*ssa.BinOp); ok && bo.Op == token.EQL && f.Val {
							tx := tagsOf(bo.X, SliceOpts{})
							for t := range tx {
								if strings.HasSuffix(t, "Node.Name") {
									okEdge = true
								}
							}
						}
					}
					if !okEdge {
						bad = true
					}
				}
				// returns inside the loop
				if len(b.Instrs) > 0 {
					if _, isRet := b.Instrs[len(b.Instrs)-1].(*ssa.Return); isRet {
						okEdge := false
						for _, f := range condFacts(b) {
							if bo, ok := f.V.(*ssa.BinOp); ok && bo.Op == token.EQL && f.Val {
								for t := range tagsOf(bo.X, SliceOpts{}) {
									if strings.HasSuffix(t, "Node.Name") {
										okEdge = true
									}
								}
							}
						}
						if !okEdge {
							bad = true
						}
					}
				}
			}
			r.check(!bad, rule, "scan of "+k[strings.LastIndex(k, ".")+1:]+" stops only on a name match", p.pos(l.header.Instrs[0].Pos()), fnName(find), "every exit from the loop body is under `entry.Name == name`", "the scan over "+k[strings.LastIndex(k, ".")+1:]+" can stop early for another reason (e.g. assuming the entries are sorted): entries after that point are listed by ReadDir but cannot be opened or stat'ed")
		}
		if n < 3 {
			r.unresolved(rule, "loops over Directories/Files/Symlinks in findNode (found "+itoa(n)+")")
		}
	}
}
