package main

import (
	"go/token"
	"strings"

	"golang.org/x/tools/go/ssa"
)

func init() {
	register("C33", []string{"./src/..."}, checkC33)
	register("C36", []string{"./src/..."}, checkC36)
}

func checkC33(p *Prog, r *Report) {
	r.Explanation = "Structural clauses of visibility / test_only enforcement. (1) the check is unavoidable: buildTarget's first call is validateBuildTargetBeforeBuild, whose error is returned, and which returns CheckDependencyVisibility's error. (2) every declared dependency is checked: in CheckDependencyVisibility no iteration of the loop over target.dependencies can complete without calling CanSee, and with CanSee true none can complete without reading the dependency's TestOnly flag. (3) grants come from the documented table only: every true return of BuildLabel.CanSee is under a same-package equality, a true vis.Includes(parent) for an element of dep.Visibility, a parent-package equality, or a true isExperimental of the depending label; an experimental dependency seen from a non-experimental label returns false first. (4) test_only: with dep.TestOnly set, the target not a test, not test_only and not experimental, the iteration cannot complete normally (it returns an error). (5) pattern matching is component-bounded (rules shared with C20)."
	r.NotCovered = []string{"'fails exactly when' as a relation over generated package trees", "visibility of subrepo targets"}
	bt := p.Fn("build", "buildTarget")
	val := p.Fn("build", "validateBuildTargetBeforeBuild")
	cdv := p.Fn("core", "BuildTarget.CheckDependencyVisibility")
	canSee := p.Fn("core", "BuildLabel.CanSee")
	tCanSee := p.Fn("core", "BuildTarget.CanSee")
	isExp := p.Fn("core", "BuildLabel.isExperimental")
	includes := p.Fn("core", "BuildLabel.Includes")
	isTest := p.Fn("core", "BuildTarget.IsTest")
	depsField := p.Field("core", "BuildTarget", "dependencies")
	if bt == nil || val == nil || cdv == nil || canSee == nil || tCanSee == nil || isExp == nil || includes == nil || isTest == nil || depsField == nil {
		r.unresolved("E5.check-unavoidable", "buildTarget / validateBuildTargetBeforeBuild / CheckDependencyVisibility / CanSee / isExperimental / Includes / IsTest")
		return
	}
	// (1)
	rule := "E5.check-unavoidable"
	{
		var vc *ssa.Call
		for _, ci := range callsInFn(bt, val) {
			vc, _ = ci.(*ssa.Call)
		}
		if vc == nil {
			r.bad(rule, "buildTarget calls validateBuildTargetBeforeBuild", p.pos(bt.Pos()), fnName(bt), "buildTarget no longer validates the target (visibility, test_only, duplicate outputs) before building")
		} else {
			// it dominates every other repository call of buildTarget (except in the deferred recover closure)
			first := true
			eachInstr(bt, false, func(_ *ssa.Function, i ssa.Instruction) {
				c, ok := i.(*ssa.Call)
				if !ok || c == vc {
					return
				}
				g := c.Call.StaticCallee()
				if g == nil || !strings.HasPrefix(fnPkg(g), modPath) {
					if !c.Call.IsInvoke() {
						return
					}
				}
				if !instrDominates(vc, c) {
					first = false
				}
			})
			r.check(first, rule, "validation dominates all other work in buildTarget", p.pos(vc.Pos()), fnName(bt), "every other repository call is dominated by validateBuildTargetBeforeBuild", "some work in buildTarget can happen before (or without) validateBuildTargetBeforeBuild")
			bad := 0
			for _, rc := range returnCases(bt, 0) {
				if k, isNil := errKnown(rc.Facts, resultsOf(vc, 0)); k && !isNil && isNilConst(rc.Vals[0]) {
					bad++
				}
			}
			k := false
			for _, b := range bt.Blocks {
				if kk, isNil := errKnown(condFacts(b), resultsOf(vc, 0)); kk && !isNil {
					k = true
					// the error block must return
					if !existsPath(bt, nil, nil, nil) {
						k = false
					}
					for _, s := range b.Succs {
						_ = s
					}
				}
			}
			r.check(bad == 0 && k, rule, "validation error is returned", p.pos(vc.Pos()), fnName(bt), "the err != nil edge exists and never returns nil", "buildTarget ignores the error of validateBuildTargetBeforeBuild")
		}
		// validate returns CheckDependencyVisibility's error
		okk := false
		for _, ci := range callsInFn(val, cdv) {
			c := ci.(*ssa.Call)
			for _, rc := range returnCases(val, 0) {
				if kk, isNil := errKnown(rc.Facts, []ssa.Value{c}); kk && !isNil && resolveLoad(rc.Vals[0]) == ssa.Value(c) {
					okk = true
				}
			}
		}
		r.check(okk, rule, "validateBuildTargetBeforeBuild returns the visibility error", p.pos(val.Pos()), fnName(val), "CheckDependencyVisibility's non-nil error is returned", "validateBuildTargetBeforeBuild does not return CheckDependencyVisibility's error")
	}
	// (2) + (4)
	rule = "E5.every-dependency-checked"
	{
		fwd := false
		for _, ret := range returnsOf(tCanSee) {
			if c, ok := unspill(ret.Results[0]).(*ssa.Call); ok && callsFn(c, canSee) && tagsOf(c.Call.Args[0], SliceOpts{})["core.BuildTarget.Label"] {
				fwd = true
			}
		}
		r.check(fwd, rule, "BuildTarget.CanSee forwards to its label's CanSee", p.pos(tCanSee.Pos()), fnName(tCanSee), "returns target.Label.CanSee(state, dep)", "BuildTarget.CanSee no longer decides through BuildLabel.CanSee")
		var loop *rloop
		for _, l := range sliceRangeLoops(cdv) {
			if derivesFromField(l.over, depsField) {
				ll := l
				loop = &ll
			}
		}
		if loop == nil {
			r.bad(rule, "loop over target.dependencies", p.pos(cdv.Pos()), fnName(cdv), "CheckDependencyVisibility does not range over all of target.dependencies")
		} else {
			skips := loop.iterationSkips(func(i ssa.Instruction) bool { return callsFn(i, canSee, tCanSee) })
			r.check(!skips, rule, "every iteration calls CanSee", p.pos(loop.header.Instrs[0].Pos()), fnName(cdv), "no path through the loop body avoids CanSee", "an iteration over target.dependencies can complete without CanSee being called (some dependencies are skipped): an invisible dependency in that class builds fine")
			// with CanSee true, TestOnly of the dependency is read
			assume := map[ssa.Value]bool{}
			var canSeeCall *ssa.Call
			eachInstr(cdv, false, func(_ *ssa.Function, i ssa.Instruction) {
				if c, ok := i.(*ssa.Call); ok && callsFn(c, canSee, tCanSee) {
					canSeeCall = c
				}
			})
			if canSeeCall != nil {
				assume[canSeeCall] = true
			}
			isDepTestOnly := func(v ssa.Value) bool {
				if fieldKeyOfLoad(v) != "core.BuildTarget.TestOnly" {
					return false
				}
				u, ok := v.(*ssa.UnOp)
				if !ok {
					return false
				}
				fa, ok := u.X.(*ssa.FieldAddr)
				if !ok {
					return false
				}
				_, isParam := fa.X.(*ssa.Parameter)
				return !isParam // the receiver is the depending target; anything else is the dependency
			}
			skipsTO := loop.iterationSkipsAssuming(func(i ssa.Instruction) bool {
				v, ok := i.(ssa.Value)
				return ok && isDepTestOnly(v)
			}, assume)
			r.check(canSeeCall != nil && !skipsTO, rule, "every visible dependency has its test_only flag read", p.pos(loop.header.Instrs[0].Pos()), fnName(cdv), "with CanSee()==true no path through the loop body avoids reading dep.TestOnly", "an iteration can complete without looking at the dependency's test_only flag: a production target may then depend on a test_only target of that class")
			// (4) violation of test_only cannot complete the iteration
			eachInstr(cdv, false, func(_ *ssa.Function, i ssa.Instruction) {
				iff, ok := i.(*ssa.If)
				if !ok {
					return
				}
				f := normFact(iff.Cond, true)
				switch {
				case isDepTestOnly(f.V):
					assume[f.V] = true
				case fieldKeyOfLoad(f.V) == "core.BuildTarget.TestOnly":
					assume[f.V] = false
				}
				if c, ok := f.V.(*ssa.Call); ok && callsFn(c, isTest, isExp) {
					assume[f.V] = false
				}
			})
			completes := loop.iterationSkipsAssuming(func(ssa.Instruction) bool { return false }, assume)
			r.check(len(assume) >= 5 && !completes, rule, "test_only dependency of a production target fails the check", p.pos(loop.header.Instrs[0].Pos()), fnName(cdv), "with dep.TestOnly, !IsTest(), !target.TestOnly and not experimental the iteration can only leave by returning", "with a test_only dependency, a non-test non-test_only non-experimental target can get through the loop iteration without an error")
			// and the way out is an error
			bad := 0
			for _, rc := range returnCases(cdv, 0) {
				if isNilConst(rc.Vals[0]) {
					for _, f := range rc.Facts {
						if isDepTestOnly(f.V) && f.Val {
							// nil return under dep.TestOnly true is fine only on the experimental / test edges (covered above)
						}
						if f.V == ssa.Value(canSeeCall) && !f.Val {
							bad++
						}
					}
				}
			}
			r.check(bad == 0, rule, "invisible dependency => error", p.pos(cdv.Pos()), fnName(cdv), "no nil return under CanSee()==false", "CheckDependencyVisibility can return nil although CanSee returned false")
		}
	}
	// (3)
	// inside the validation, the visibility / test_only check is on every successful path (no early return for subrepo
	// or cross-compiled targets)
	if val != nil && cdv != nil {
		skip := false
		for _, rc := range returnCases(val, 0) {
			if !isNilConst(rc.Vals[0]) {
				continue
			}
			if existsPath(val, nil, rc.Ret, func(j ssa.Instruction) bool { return callsFn(j, cdv) }) {
				skip = true
			}
		}
		r.check(!skip, "E5.check-unavoidable", "validateBuildTargetBeforeBuild cannot succeed without CheckDependencyVisibility", p.pos(val.Pos()), fnName(val), "every nil return lies behind the call", "validateBuildTargetBeforeBuild returns nil on a path that never calls CheckDependencyVisibility (e.g. an early return for targets in a subrepo, which includes every cross-compiled target): neither visibility nor test_only is enforced for them")
	}
	// a visibility list that arrives frozen (a constant from a subincluded or preloaded file) is still a visibility list
	if pt := p.Fn("parse/asp", "populateTarget"); pt != nil {
		bare := false
		eachInstr(pt, false, func(_ *ssa.Function, i ssa.Instruction) {
			ta, ok := i.(*ssa.TypeAssert)
			if !ok || !strings.HasSuffix(typeString(ta.AssertedType), "asp.pyList") {
				return
			}
			// asserted value: an element of the args vector
			if u, ok := ta.X.(*ssa.UnOp); ok {
				if ia, ok := u.X.(*ssa.IndexAddr); ok {
					if _, isPrm := ia.X.(*ssa.Parameter); isPrm {
						bare = true
					}
				}
			}
		})
		r.check(!bare, "E9.visibility-list-may-be-frozen", "populateTarget unwraps list arguments with asList", p.pos(pt.Pos()), fnName(pt), "no bare .(pyList) assertion on an element of the argument vector", "populateTarget asserts an argument to pyList directly: a list that arrives frozen (visibility = COMMON_VISIBILITY from a subincluded file, or package(default_visibility=...)) is not a pyList, so the attribute is silently ignored - a visibility list is dropped, the target becomes private, and dependents that match its declared pattern are refused")
	}
	// whether a label is experimental is a function of the label (and the configured directories): only labels of the
	// top-level repository are, and that is read off the label's own Subrepo, not off whichever state asks
	if isExp != nil && len(isExp.Params) > 0 {
		nT, badT := 0, 0
		for _, rc := range returnCases(isExp, 0) {
			if b, isC := constBool(rc.Vals[0]); isC && !b {
				continue
			}
			nT++
			own := false
			for _, f := range rc.Facts {
				bo, ok := f.V.(*ssa.BinOp)
				if !ok {
					continue
				}
				isEmpty := func(v ssa.Value) bool { s, ok := constString(v); return ok && s == "" }
				var other ssa.Value
				if isEmpty(bo.Y) {
					other = bo.X
				} else if isEmpty(bo.X) {
					other = bo.Y
				} else {
					continue
				}
				if !((bo.Op == token.NEQ && !f.Val) || (bo.Op == token.EQL && f.Val)) {
					continue
				}
				// the compared value is field Subrepo of the receiver
				for x := range backSlice(other, SliceOpts{}) {
					if fieldKey(x) == "core.BuildLabel.Subrepo" || fieldKeyOfLoad(x) == "core.BuildLabel.Subrepo" {
						if resolveParam(receiverOf(x)) == isExp.Params[0] || receiverOf(x) == ssa.Value(isExp.Params[0]) {
							own = true
						}
					}
				}
			}
			if !own {
				badT++
			}
		}
		r.check(nT > 0 && badT == 0, "E5.experimental-is-a-property-of-the-label", "isExperimental is true only for a label without a subrepo", p.pos(isExp.Pos()), fnName(isExp), itoa(nT)+" true-returning path(s), each under label.Subrepo == \"\"", "isExperimental decides from something other than the label's own Subrepo (e.g. the current state's subrepo): a PUBLIC target in a subrepo whose package path starts with the experimental directory's name is classed experimental when looked at from the host repository, and depending on it is refused")
	}
	rule = "E5.visibility-grant-table"
	{
		visField := p.Field("core", "BuildTarget", "Visibility")
		pkgName := func(v ssa.Value) bool {
			return strings.HasSuffix(fieldKeyOfLoad(v), "BuildLabel.PackageName") || tagsOf(v, SliceOpts{NoCallArgs: true})["core.BuildLabel.PackageName"]
		}
		nTrue, bad := 0, 0
		var site token.Pos
		for _, rc := range returnCases(canSee, 0) {
			b, isC := constBool(rc.Vals[0])
			if isC && !b {
				continue
			}
			nTrue++
			granted := false
			for _, f := range rc.Facts {
				if !f.Val {
					continue
				}
				if bo, ok := f.V.(*ssa.BinOp); ok && bo.Op == token.EQL && pkgName(bo.X) && pkgName(bo.Y) {
					granted = true
				}
				if c, ok := f.V.(*ssa.Call); ok {
					if callsFn(c, includes) && derivesFromField(c.Call.Args[0], visField) {
						granted = true
					}
					if callsFn(c, isExp) {
						if resolveParam(c.Call.Args[0]) != nil {
							granted = true // the depending label (the receiver) is experimental
						}
					}
				}
			}
			if !granted {
				bad++
				site = rc.Site
			}
		}
		r.check(bad == 0 && nTrue >= 4, rule, "CanSee grants only by the documented rules", p.pos(canSee.Pos()), fnName(canSee), itoa(nTrue)+" true returns, each under same-package, matching visibility pattern, or experimental exemption", "CanSee can return true at "+p.pos(site)+" without any documented grant (same package / matching visibility entry / experimental exemption)")
		// experimental dependency from non-experimental label: false before the visibility loop
		okk := false
		for _, rc := range returnCases(canSee, 0) {
			if b, isC := constBool(rc.Vals[0]); isC && !b {
				nExp := 0
				for _, f := range rc.Facts {
					if c, ok := f.V.(*ssa.Call); ok && callsFn(c, isExp) {
						nExp++
					}
				}
				if nExp >= 2 {
					okk = true
				}
			}
		}
		r.check(okk, rule, "experimental dependency is refused to non-experimental targets", p.pos(canSee.Pos()), fnName(canSee), "a false return is guarded by isExperimental of both labels", "CanSee no longer refuses experimental dependencies to non-experimental targets")
		// the visibility loop ranges over all of dep.Visibility with Includes(parent)
		hasLoop := false
		for _, l := range sliceRangeLoops(canSee) {
			if derivesFromField(l.over, visField) {
				hasLoop = !l.iterationSkips(func(i ssa.Instruction) bool { return callsFn(i, includes) })
			}
		}
		r.check(hasLoop, rule, "every visibility entry is tried", p.pos(canSee.Pos()), fnName(canSee), "loop over dep.Visibility calls Includes in every iteration", "not every entry of dep.Visibility is matched against the depending label")
	}
	importRules(p, r, checkC20, "labels/", "E1.prefixbound", "E5.pattern-true-needs-package-test")
}

func checkC36(p *Prog, r *Report) {
	r.Explanation = "Structural clauses of include/exclude filtering. (1) by path enumeration of BuildTarget.ShouldInclude: on every path the result equals  !excludeMatched && (includeMatched || no includes given), where 'matched' means a true HasAllLabels on a group split from an element of the respective parameter — so exclusion always wins. (2) BuildState.ShouldInclude returns false on the true edge of Includes for any element of ExcludeTargets and otherwise forwards to target.ShouldInclude(state.Include, state.Exclude); AddOriginalTarget returns before queueing on the same edge. (3) no exclude argument is dropped: every iteration of the loop in SetIncludeAndExclude records its element in ExcludeTargets or Exclude (or aborts). (4) label matching: match(pattern, s) returns true exactly under pattern==s or (HasSuffix(pattern,\"*\") and HasPrefix(s, pattern[:len-1])), false otherwise; HasAllLabels fails on the first missing label; HasLabel tries every label. (5) exclude build patterns use the component-bounded Includes (rules shared with C20)."
	r.NotCovered = []string{"parsing of comma-separated groups beyond strings.Split", "which targets :all / ... expand to"}
	tsi := p.Fn("core", "BuildTarget.ShouldInclude")
	ssi := p.Fn("core", "BuildState.ShouldInclude")
	hasAll := p.Fn("core", "BuildTarget.HasAllLabels")
	hasLabel := p.Fn("core", "BuildTarget.HasLabel")
	match := p.Fn("core", "match")
	includes := p.Fn("core", "BuildLabel.Includes")
	sie := p.Fn("core", "BuildState.SetIncludeAndExclude")
	aot := p.Fn("core", "BuildState.AddOriginalTarget")
	if tsi == nil || ssi == nil || hasAll == nil || hasLabel == nil || match == nil || includes == nil || sie == nil || aot == nil {
		r.unresolved("E5.exclude-wins", "ShouldInclude / HasAllLabels / HasLabel / match / Includes / SetIncludeAndExclude / AddOriginalTarget")
		return
	}
	// (1)
	rule := "E5.exclude-wins"
	{
		var incP, excP *ssa.Parameter
		for _, prm := range tsi.Params {
			switch prm.Name() {
			case "includes":
				incP = prm
			case "excludes":
				excP = prm
			}
		}
		if incP == nil || excP == nil {
			// positional: (target, includes, excludes)
			if len(tsi.Params) == 3 {
				incP, excP = tsi.Params[1], tsi.Params[2]
			}
		}
		paths, ok := enumeratePaths(tsi, 20000)
		if !ok || incP == nil || excP == nil {
			r.bad(rule, "ShouldInclude", p.pos(tsi.Pos()), fnName(tsi), "cannot enumerate paths / parameters not found (undecided)")
		} else {
			matchedOn := func(pa *Path, prm *ssa.Parameter) bool {
				return pa.HasFact(true, func(v ssa.Value) bool {
					c, ok := v.(*ssa.Call)
					return ok && callsFn(c, hasAll) && derivesFromValue(c.Call.Args[1], prm)
				})
			}
			noIncl := func(pa *Path) (bool, bool) { // (known, value)
				for _, f := range pa.Facts {
					if bo, ok := f.V.(*ssa.BinOp); ok && bo.Op == token.EQL {
						if c, ok := constInt(bo.Y); ok && c == 0 && derivesFromValue(bo.X, incP) && !derivesFromValue(bo.X, excP) {
							return true, f.Val
						}
					}
				}
				return false, false
			}
			nPaths, bad := 0, 0
			var site token.Pos
			for _, pa := range paths {
				if pa.Ret == nil {
					continue
				}
				nPaths++
				rv := pa.Resolve(unspill(pa.Ret.Results[0]))
				got, isC := constBool(rv)
				exc := matchedOn(pa, excP)
				inc := matchedOn(pa, incP)
				known, none := noIncl(pa)
				if !isC {
					// `shouldInclude := len(includes) == 0` returned unchanged: the value is that comparison
					if bo, ok := rv.(*ssa.BinOp); ok && bo.Op == token.EQL && derivesFromValue(bo.X, incP) && !exc && !inc {
						continue
					}
					bad++
					site = pa.Ret.Pos()
					continue
				}
				if !known {
					// the early `len(includes)==0 && len(excludes)==0` return: true with no match facts
					if got && !exc {
						continue
					}
				}
				want := !exc && (inc || (known && none))
				if got != want {
					bad++
					site = pa.Ret.Pos()
				}
			}
			r.check(bad == 0 && nPaths >= 6, rule, "result = !excluded && (included || no includes)", p.pos(tsi.Pos()), fnName(tsi), itoa(nPaths)+" paths enumerated; on each the returned constant agrees with the facts", itoa(bad)+" path(s) of ShouldInclude return something other than !excludeMatched && (includeMatched || no includes) (e.g. at "+p.pos(site)+"): exclusion no longer takes priority, or a target with none of the include labels is selected")
		}
	}
	// (2)
	rule = "E5.exclude-pattern-removes"
	{
		exclField := p.Field("core", "BuildState", "ExcludeTargets")
		for _, fn := range []*ssa.Function{ssi, aot} {
			var inc *ssa.Call
			eachInstr(fn, false, func(_ *ssa.Function, i ssa.Instruction) {
				if c, ok := i.(*ssa.Call); ok && callsFn(c, includes) && derivesFromField(c.Call.Args[0], exclField) {
					inc = c
				}
			})
			if inc == nil {
				r.bad(rule, fn.Name()+": ExcludeTargets matched with Includes", p.pos(fn.Pos()), fnName(fn), "no Includes() test of an ExcludeTargets element: exclude build patterns are ignored here")
				continue
			}
			loopOK := false
			for _, l := range sliceRangeLoops(fn) {
				if derivesFromField(l.over, exclField) && !l.iterationSkips(func(i ssa.Instruction) bool { return i == ssa.Instruction(inc) }) {
					loopOK = true
				}
			}
			r.check(loopOK, rule, fn.Name()+": every exclude pattern is tried", p.pos(inc.Pos()), fnName(fn), "loop over state.ExcludeTargets calls Includes every iteration", "not every element of ExcludeTargets is matched against the label")
			if fn == ssi {
				bad := 0
				for _, rc := range returnCases(fn, 0) {
					if hasFact(rc.Facts, true, func(v ssa.Value) bool { return v == ssa.Value(inc) }) {
						if b, isC := constBool(rc.Vals[0]); !isC || b {
							bad++
						}
					}
				}
				r.check(bad == 0, rule, "matching exclude pattern => false", p.pos(inc.Pos()), fnName(fn), "the true edge of Includes returns false", "a target matching an exclude pattern is not removed")
				// nothing is decided before the exclude patterns were consulted
				early := false
				for _, l := range sliceRangeLoops(fn) {
					if !derivesFromField(l.over, exclField) {
						continue
					}
					hdr := l.header.Instrs[len(l.header.Instrs)-1]
					for _, ret := range returnsOf(fn) {
						if b, isC := constBool(unspill(ret.Results[0])); isC && !b {
							continue
						}
						if existsPath(fn, nil, ret, func(j ssa.Instruction) bool { return j == hdr }) {
							early = true
						}
					}
				}
				r.check(!early, rule, "no positive answer before the exclude patterns are tried", p.pos(fn.Pos()), fnName(fn), "every non-false return is reached through the ExcludeTargets loop", "BuildState.ShouldInclude can answer true before consulting the exclude patterns: exclusion no longer takes priority over include labels")
				// forward
				fwd := false
				for _, ret := range returnsOf(fn) {
					if c, ok := unspill(ret.Results[0]).(*ssa.Call); ok && callsFn(c, tsi) {
						t1 := tagsOf(c.Call.Args[1], SliceOpts{})
						t2 := tagsOf(c.Call.Args[2], SliceOpts{})
						if t1["core.BuildState.Include"] && t2["core.BuildState.Exclude"] {
							fwd = true
						}
					}
				}
				r.check(fwd, rule, "label filters forwarded as (Include, Exclude)", p.pos(fn.Pos()), fnName(fn), "returns target.ShouldInclude(state.Include, state.Exclude)", "BuildState.ShouldInclude does not forward state.Include/state.Exclude in that order")
			} else {
				// AddOriginalTarget: on the true edge no addPendingParse
				app := p.Fn("core", "BuildState.addPendingParse")
				leak := false
				for _, ci := range callsInFn(fn, app) {
					for _, b := range fn.Blocks {
						if hasFact(condFacts(b), true, func(v ssa.Value) bool { return v == ssa.Value(inc) }) && len(b.Instrs) > 0 {
							if existsPath(fn, b.Instrs[0], ci, nil) || b.Instrs[0] == ci {
								leak = true
							}
						}
					}
				}
				r.check(app != nil && !leak, rule, "excluded original target is not queued", p.pos(inc.Pos()), fnName(fn), "the true edge of Includes cannot reach addPendingParse", "an original target matching an exclude pattern is still queued")
			}
		}
	}
	// (3)
	// what `:all` activates goes through the same filter whatever the mode (coverage widens tests-only, not the filter)
	if at := p.Fn("core", "BuildState.ActivateTarget"); at == nil {
		r.unresolved("E5.activation-filtered", "core.BuildState.ActivateTarget")
	} else {
		n, bad := 0, 0
		var site token.Pos
		qt := p.Fn("core", "BuildState.QueueTarget")
		for _, ci := range callsInFn(at, qt) {
			cc := callCommon(ci)
			if len(cc.Args) < 2 || !tagsOf(cc.Args[1], SliceOpts{})["call:(*core.Package).AllTargets"] {
				continue
			}
			n++
			if !blockJustified(ci.Block(), func(f Fact) bool {
				c, ok := f.V.(*ssa.Call)
				return ok && f.Val && callsFn(c, ssi)
			}, 6) {
				bad++
				site = ci.Pos()
			}
		}
		if n == 0 {
			r.unresolved("E5.activation-filtered", "QueueTarget for the members of :all in ActivateTarget")
		} else {
			r.check(bad == 0, "E5.activation-filtered", "members of :all are queued only when ShouldInclude accepts them", p.pos(site), fnName(at), itoa(n)+" queueing site(s), each under state.ShouldInclude(target)", "ActivateTarget queues a member of `:all` on a path where state.ShouldInclude was false or not asked (e.g. for coverage runs): --include / --exclude and the implicit `manual` exclusion are ignored and every target of the package is built")
		}
	}
	// an --exclude argument is a target pattern exactly when it looks like a build label; everything else (including
	// namespaced labels such as manual:linux_amd64) stays a label exclude
	{
		n, bad := 0, 0
		var site token.Pos
		eachInstr(sie, false, func(_ *ssa.Function, i ssa.Instruction) {
			st, ok := i.(*ssa.Store)
			if !ok || fieldKey(st.Addr) != "core.BuildState.ExcludeTargets" {
				return
			}
			n++
			under := blockJustified(st.Block(), func(f Fact) bool {
				c, ok := f.V.(*ssa.Call)
				return ok && f.Val && strings.HasSuffix(calleeName(&c.Call), "LooksLikeABuildLabel")
			}, 6)
			if !under {
				bad++
				site = st.Pos()
			}
		})
		if n == 0 {
			r.unresolved("E5.exclude-classification", "stores to BuildState.ExcludeTargets in SetIncludeAndExclude")
		} else {
			r.check(bad == 0, "E5.exclude-classification", "an exclude becomes a target pattern only under LooksLikeABuildLabel", p.pos(site), fnName(sie), itoa(n)+" append(s) to ExcludeTargets, each under LooksLikeABuildLabel(e)", "SetIncludeAndExclude files an exclude under ExcludeTargets although it does not look like a build label (e.g. any argument containing a colon that happens to parse as a relative label): the implicit `manual:<arch>` exclude and label excludes such as speed:slow stop excluding by label, and the labelled targets are selected")
		}
	}
	importRules(p, r, checkC22, "plz/", "E5.walk-prunes")
	rule = "E5.no-exclude-dropped"
	{
		var exP *ssa.Parameter
		for _, prm := range sie.Params {
			if prm.Name() == "exclude" {
				exP = prm
			}
		}
		if exP == nil && len(sie.Params) == 3 {
			exP = sie.Params[2]
		}
		found := false
		for _, l := range sliceRangeLoops(sie) {
			if exP == nil || !derivesFromValue(l.over, exP) {
				continue
			}
			found = true
			skips := l.iterationSkips(func(i ssa.Instruction) bool {
				if st, ok := i.(*ssa.Store); ok {
					k := fieldKey(st.Addr)
					if k == "core.BuildState.ExcludeTargets" || k == "core.BuildState.Exclude" {
						// must be an append of this element
						if c, ok := st.Val.(*ssa.Call); ok {
							if b, ok := c.Call.Value.(*ssa.Builtin); ok && b.Name() == "append" {
								return true
							}
						}
					}
				}
				if c, ok := i.(*ssa.Call); ok && strings.Contains(calleeName(&c.Call), "Fatal") {
					return true
				}
				_, isPanic := i.(*ssa.Panic)
				return isPanic
			})
			r.check(!skips, rule, "every --exclude argument is recorded", p.pos(l.header.Instrs[0].Pos()), fnName(sie), "each iteration appends to ExcludeTargets or Exclude (or aborts)", "an iteration over the exclude arguments can complete without recording the argument in ExcludeTargets or Exclude: that exclusion is silently dropped")
		}
		if !found {
			r.unresolved(rule, "loop over the exclude parameter in SetIncludeAndExclude")
		}
	}
	// (4)
	rule = "E5.label-match-table"
	{
		paths, ok := enumeratePaths(match, 2000)
		if !ok || len(match.Params) != 2 {
			r.bad(rule, "match", p.pos(match.Pos()), fnName(match), "cannot enumerate paths (undecided)")
		} else {
			pat, s := match.Params[0], match.Params[1]
			isEq := func(v ssa.Value) bool {
				bo, ok := v.(*ssa.BinOp)
				return ok && bo.Op == token.EQL && ((bo.X == ssa.Value(pat) && bo.Y == ssa.Value(s)) || (bo.X == ssa.Value(s) && bo.Y == ssa.Value(pat)))
			}
			isStar := func(v ssa.Value) bool {
				c, ok := v.(*ssa.Call)
				if !ok || !isCallTo(c, "strings.HasSuffix") || c.Call.Args[0] != ssa.Value(pat) {
					return false
				}
				st, ok := constString(c.Call.Args[1])
				return ok && st == "*"
			}
			isPrefix := func(v ssa.Value) bool {
				c, ok := v.(*ssa.Call)
				if !ok || !isCallTo(c, "strings.HasPrefix") || c.Call.Args[0] != ssa.Value(s) {
					return false
				}
				sl, ok := c.Call.Args[1].(*ssa.Slice)
				if !ok || sl.X != ssa.Value(pat) || sl.Low != nil || sl.High == nil {
					return false
				}
				bo, ok := sl.High.(*ssa.BinOp)
				if !ok || bo.Op != token.SUB {
					return false
				}
				one, ok := constInt(bo.Y)
				return ok && one == 1
			}
			bad := 0
			for _, pa := range paths {
				if pa.Ret == nil {
					continue
				}
				rv := pa.Resolve(unspill(pa.Ret.Results[0]))
				eq := pa.HasFact(true, isEq)
				star := pa.HasFact(true, isStar)
				pre := pa.HasFact(true, isPrefix)
				neq := pa.HasFact(false, isEq)
				nstar := pa.HasFact(false, isStar)
				npre := pa.HasFact(false, isPrefix)
				got, isC := constBool(rv)
				if !isC {
					// tail form `return HasSuffix && HasPrefix`
					if isPrefix(rv) && star && neq {
						continue
					}
					bad++
					continue
				}
				if got && !(eq || (star && pre)) {
					bad++
				}
				if !got && !(neq && (nstar || npre)) {
					bad++
				}
			}
			r.check(bad == 0 && len(paths) >= 3, rule, "match: true iff equal or trailing-* prefix", p.pos(match.Pos()), fnName(match), itoa(len(paths))+" paths; true only under pattern==s or (HasSuffix(pattern,\"*\") && HasPrefix(s, pattern[:len-1])); false only when both fail", itoa(bad)+" path(s) of match() return a value not justified by pattern==s / trailing-* prefix facts (e.g. an extra early `return false`): a label equal to the prefix of `go*`, or another documented case, is mismatched")
		}
		// HasAllLabels: false on first miss, true only after the loop
		okAll := false
		for _, l := range sliceRangeLoops(hasAll) {
			if !l.iterationSkips(func(i ssa.Instruction) bool { return callsFn(i, hasLabel) }) {
				okAll = true
			}
		}
		badAll := 0
		for _, rc := range returnCases(hasAll, 0) {
			b, isC := constBool(rc.Vals[0])
			miss := false
			for _, f := range rc.Facts {
				if c, ok := f.V.(*ssa.Call); ok && callsFn(c, hasLabel) && !f.Val {
					miss = true
				}
			}
			if !isC || (miss && b) || (!miss && !b) {
				badAll++
			}
		}
		r.check(okAll && badAll == 0, rule, "HasAllLabels: every label of the group must be present", p.pos(hasAll.Pos()), fnName(hasAll), "false exactly on a failed HasLabel, true after the loop", "HasAllLabels does not require every label of a comma-separated group")
		labelsField := p.Field("core", "BuildTarget", "Labels")
		okAny := false
		for _, l := range sliceRangeLoops(hasLabel) {
			if derivesFromField(l.over, labelsField) && !l.iterationSkips(func(i ssa.Instruction) bool { return callsFn(i, match) }) {
				okAny = true
			}
		}
		r.check(okAny, rule, "HasLabel tries every label of the target", p.pos(hasLabel.Pos()), fnName(hasLabel), "loop over target.Labels calls match every iteration", "HasLabel does not compare the pattern with every label of the target")
	}
	importRules(p, r, checkC20, "labels/", "E1.prefixbound", "E5.pattern-true-needs-package-test")
}

// receiverOf: the struct value (or its address) a field access instruction reads from.
func receiverOf(v ssa.Value) ssa.Value {
	switch x := v.(type) {
	case *ssa.Field:
		return x.X
	case *ssa.FieldAddr:
		return x.X
	case *ssa.UnOp:
		if fa, ok := x.X.(*ssa.FieldAddr); ok {
			return fa.X
		}
	}
	return nil
}
