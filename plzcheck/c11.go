package main

import (
	"go/token"
	"strings"

	"golang.org/x/tools/go/ssa"
)

func init() {
	register("C11", []string{"./src/..."}, checkC11)
}

// closuresCalling returns the closures nested in fn that directly call target.
func closuresCalling(fn *ssa.Function, pred func(i ssa.Instruction) bool) []*ssa.Function {
	var out []*ssa.Function
	for _, c := range withAnon(fn) {
		found := false
		eachInstr(c, false, func(_ *ssa.Function, i ssa.Instruction) {
			if pred(i) {
				found = true
			}
		})
		if found {
			out = append(out, c)
		}
	}
	return out
}

// localCallSites: call instructions (in the top-level function and all its
// closures) that call closure c.
func localCallSites(c *ssa.Function) []ssa.Instruction {
	var out []ssa.Instruction
	for _, g := range withAnon(topFunc(c)) {
		eachInstr(g, false, func(_ *ssa.Function, i ssa.Instruction) {
			if cc := callCommon(i); cc != nil && resolveCalleeDeep(cc) == c {
				out = append(out, i)
			}
		})
	}
	return out
}

// guardedBy: instruction s (inside closure c or a top-level function) is
// reached only when pred holds: either by the branch facts inside its own
// function, or — if the function is a local closure — at every one of its call sites.
func guardedBy(s ssa.Instruction, pred func(facts []Fact) bool, depth int) bool {
	if pred(condFacts(s.Block())) {
		return true
	}
	c := s.Parent()
	if c.Parent() == nil || depth > 3 {
		return false
	}
	sites := localCallSites(c)
	if len(sites) == 0 {
		return false
	}
	for _, cs := range sites {
		if !guardedBy(cs, pred, depth+1) {
			return false
		}
	}
	return true
}

func checkC11(p *Prog, r *Report) {
	r.Explanation = "(1) E5: in test.test every Cache.Store and every move of the results file into plz-out (the on-disk result cache) is guarded — inside its closure or at every call site of the closure — by a sufficient success test (AllSucceeded()==true, or Failures()==0 && Errors()==0) and by `len(state.TestArgs) == 0`; (2) the closure that returns cached results returns non-nil only on the AllSucceeded()==true edge with a nil parse error, and its result is used only under needToRun()==false; (3) the reuse decision returns false only on the verifyHash(results file, hash)==true edge or as the negation of retrieveFromCache(hash), and returns true when ForceRerun is set; (4) the hash used by verifyHash/retrieve/store/move derives from runtimeHash; build.RuntimeHash is RuleHash(runtime=true) for pre and post build, the config hash, and a hash.Hash fed with PathHasher.Hash (content mode) of every file from IterRuntimeFiles, and file hashes reach the result only through that hash.Hash (no order-insensitive folding); (5) E2 with the runtime table on ruleHash (adds data, test outputs, test sandbox, test command, args placeholder); (6) IterRuntimeFiles yields paths derived from Outputs(), runtime dependencies, AllData() and AllTestTools()."
	r.NotCovered = []string{"outcome equality with a fresh run", "remote execution result reuse", "flaky-retry accounting (C26)"}
	p.hardlinkMarkerRule(r, "fs/E9.hardlink-marker-protocol")
	importRules(p, r, checkC09, "fs/", "E3.symlink-target")
	p.entryPointCoversAllOutputs(r)
	test := p.Fn("test", "test")
	if test == nil {
		r.unresolved("E5.store-under-success", "test.test")
		return
	}
	allSucc := p.Fn("core", "TestCases.AllSucceeded")
	failures := p.Fn("core", "TestSuite.Failures")
	errorsFn := p.Fn("core", "TestSuite.Errors")
	moveOut := p.Fn("test", "moveOutputFile")
	resultsFile := p.Fn("core", "BuildTarget.TestResultsFile")
	verify := p.Fn("test", "verifyHash")
	retrieve := p.Fn("test", "retrieveFromCache")
	rtHash := p.Fn("test", "runtimeHash")
	parseRes := p.Fn("test", "parseTestResultsFile")
	if allSucc == nil || failures == nil || errorsFn == nil || moveOut == nil || resultsFile == nil || verify == nil || retrieve == nil || rtHash == nil || parseRes == nil {
		r.unresolved("E5.store-under-success", "AllSucceeded/Failures/Errors/moveOutputFile/TestResultsFile/verifyHash/retrieveFromCache/runtimeHash/parseTestResultsFile")
		return
	}
	isZeroCmp := func(f Fact, fn *ssa.Function) bool { // fact establishes fn() == 0
		b, ok := f.V.(*ssa.BinOp)
		if !ok {
			return false
		}
		c, isC := constInt(b.Y)
		cx, isCall := b.X.(*ssa.Call)
		if !isC || !isCall || !callsFn(cx, fn) || c != 0 {
			return false
		}
		switch b.Op {
		case token.GTR, token.NEQ:
			return !f.Val
		case token.EQL, token.LEQ:
			return f.Val
		}
		return false
	}
	success := func(facts []Fact) bool {
		f0, e0 := false, false
		for _, f := range facts {
			if c, ok := f.V.(*ssa.Call); ok && callsFn(c, allSucc) && f.Val {
				return true
			}
			if isZeroCmp(f, failures) {
				f0 = true
			}
			if isZeroCmp(f, errorsFn) {
				e0 = true
			}
		}
		return f0 && e0
	}
	noArgs := func(facts []Fact) bool {
		for _, f := range facts {
			b, ok := f.V.(*ssa.BinOp)
			if !ok {
				continue
			}
			c, isC := constInt(b.Y)
			lc, isCall := b.X.(*ssa.Call)
			if !isC || !isCall || c != 0 {
				continue
			}
			if bi, ok := lc.Call.Value.(*ssa.Builtin); !ok || bi.Name() != "len" || !derivesFromNamedField(lc.Call.Args[0], "core.BuildState.TestArgs") {
				continue
			}
			if (b.Op == token.GTR || b.Op == token.NEQ) && !f.Val || (b.Op == token.EQL || b.Op == token.LEQ) && f.Val {
				return true
			}
		}
		return false
	}
	// (1) sinks
	rule := "E5.store-under-success"
	nSinks := 0
	for _, c := range withAnon(test) {
		eachInstr(c, false, func(_ *ssa.Function, i ssa.Instruction) {
			cc := callCommon(i)
			if cc == nil {
				return
			}
			what := ""
			if cc.IsInvoke() && cc.Method.Name() == "Store" && typeString(cc.Value.Type()) == "core.Cache" {
				what = "Cache.Store of test results"
			} else if callsFn(i, moveOut) && len(cc.Args) >= 4 {
				for x := range backSlice(cc.Args[3], SliceOpts{}) {
					if cx, ok := x.(*ssa.Call); ok && callsFn(cx, resultsFile) {
						what = "move of the results file into plz-out"
					}
				}
			}
			if what == "" {
				return
			}
			nSinks++
			r.check(guardedBy(i, success, 0), rule, what+" guarded by success", p.pos(i.Pos()), fnName(c),
				"reached only when AllSucceeded() (or Failures()==0 && Errors()==0) holds, in the closure or at all its call sites",
				what+" is reachable without a sufficient success test (AllSucceeded()==true, or Failures()==0 and Errors()==0): a failing or erroring result would be reused by later runs")
			r.check(guardedBy(i, noArgs, 0), "E5.no-cache-with-args", what+" guarded by len(TestArgs)==0", p.pos(i.Pos()), fnName(c),
				"reached only when no test arguments were given",
				what+" is reachable when test arguments were given: a partial (filtered) passing run would later be reported as the cached result of the full test")
		})
	}
	if nSinks < 2 {
		r.unresolved(rule, "Cache.Store / results-file move in test.test")
	}
	// (2) cached results closure
	rule = "E5.cached-results-revalidated"
	cachedCs := closuresCalling(test, func(i ssa.Instruction) bool { return callsFn(i, parseRes) })
	if len(cachedCs) != 1 || cachedCs[0] == test {
		r.unresolved(rule, "closure of test.test that parses the cached results file")
	} else {
		cc := cachedCs[0]
		bad, n := 0, 0
		var site token.Pos
		for _, rc := range returnCases(cc, 0) {
			if isNilConst(rc.Vals[0]) {
				continue
			}
			n++
			okk := false
			for _, f := range rc.Facts {
				if c, ok := f.V.(*ssa.Call); ok && callsFn(c, allSucc) && f.Val {
					okk = true
				}
			}
			errNil := false
			for _, f := range rc.Facts {
				if x, eq, ok := isNilCmp(f.V); ok && isResultOfFn(x, parseRes) && eq == f.Val {
					errNil = true
				}
			}
			if !okk || !errNil {
				bad++
				site = rc.Site
			}
		}
		if n == 0 {
			r.bad(rule, "cached results", p.pos(cc.Pos()), fnName(cc), "no non-nil return found (shape changed; undecided)")
		} else {
			r.check(bad == 0, rule, "cached results returned only if parsed and all succeeded", p.pos(cc.Pos()), fnName(cc), itoa(n)+" non-nil return(s), each on the AllSucceeded()==true and err==nil edges",
				"cached results are returned on a path without AllSucceeded()==true and parse error == nil: a stored failing/corrupt result would be reported instead of re-running (site "+p.pos(site)+")")
		}
		// use of cached results only when needToRun() is false
		needCs := closuresCalling(test, func(i ssa.Instruction) bool { return callsFn(i, verify) })
		if len(needCs) != 1 {
			r.unresolved("E5.reuse-decision", "closure of test.test calling verifyHash")
		} else {
			need := needCs[0]
			for _, cs := range localCallSites(cc) {
				okk := false
				for _, f := range condFacts(cs.Block()) {
					if c, ok := f.V.(*ssa.Call); ok && resolveCalleeDeep(&c.Call) == need && !f.Val {
						okk = true
					}
				}
				r.check(okk, rule, "cached results consulted only when the reuse decision says so", p.pos(cs.Pos()), fnName(cs.Parent()), "dominated by needToRun()==false", "cached results are used without the reuse decision (hash check) having returned false")
			}
			p.reuseDecision(r, need, verify, retrieve, resultsFile)
		}
	}
	// (4) hash provenance
	rule = "E7.runtime-hash-provenance"
	nProv := 0
	for _, c := range withAnon(test) {
		eachInstr(c, false, func(_ *ssa.Function, i ssa.Instruction) {
			cc := callCommon(i)
			if cc == nil {
				return
			}
			var hv ssa.Value
			switch {
			case callsFn(i, verify) && len(cc.Args) >= 3:
				hv = cc.Args[2]
			case callsFn(i, retrieve) && len(cc.Args) >= 3:
				hv = cc.Args[2]
			case callsFn(i, moveOut) && len(cc.Args) >= 2:
				hv = cc.Args[1]
			case cc.IsInvoke() && cc.Method.Name() == "Store" && typeString(cc.Value.Type()) == "core.Cache" && len(cc.Args) >= 2:
				hv = cc.Args[1]
			default:
				return
			}
			nProv++
			from := false
			for x := range backSlice(hv, SliceOpts{}) {
				if isResultOfFn(x, rtHash) {
					from = true
				}
			}
			r.check(from, rule, "key/hash argument derives from runtimeHash()", p.pos(i.Pos()), fnName(c), "data-derived from the runtimeHash call", "the hash passed here is not derived from runtimeHash(): results could be matched under a key that does not cover the runtime inputs")
		})
	}
	if nProv < 4 {
		r.unresolved(rule, "verifyHash/retrieveFromCache/moveOutputFile/Store call sites in test.test")
	}
	if bh := p.Fn("build", "RuntimeHash"); bh != nil {
		okk := false
		eachInstr(rtHash, true, func(_ *ssa.Function, i ssa.Instruction) {
			if callsFn(i, bh) {
				okk = true
			}
		})
		r.check(okk, rule, "runtimeHash uses build.RuntimeHash", p.pos(rtHash.Pos()), fnName(rtHash), "calls build.RuntimeHash", "runtimeHash no longer calls build.RuntimeHash for local tests")
		p.runtimeHashRule(r, bh)
	} else {
		r.unresolved(rule, "build.RuntimeHash")
	}
	// (5) E2 runtime table
	if rh, runtime := ruleHashAnchors(p, r, "E2.hashcover-runtime"); rh != nil {
		p.runHashCover(r, "E2.hashcover-runtime", rh, map[ssa.Value]bool{runtime: true}, append(append([]mustHash{}, buildRelevant...), runtimeRelevant...))
		r.floor("E2.hashcover-runtime", 35)
	}
	// (6) IterRuntimeFiles sources
	p.runtimeFilesRule(r)
}

// reuseDecision: rules on the closure that decides whether the test must run.
func (p *Prog) reuseDecision(r *Report, need, verify, retrieve, resultsFile *ssa.Function) {
	rule := "E5.reuse-decision"
	nFalse, bad, nOther := 0, 0, 0
	var site token.Pos
	forceOK := true
	for _, rc := range returnCases(need, 0) {
		v := rc.Vals[0]
		// ForceRerun edge must return true
		force := false
		for _, f := range rc.Facts {
			if f.Val && derivesFromNamedField(f.V, "core.BuildState.ForceRerun") {
				force = true
			}
		}
		if b, isC := constBool(v); isC {
			if force && !b {
				forceOK = false
			}
			if b {
				continue
			}
			nFalse++
			okk := false
			for _, f := range rc.Facts {
				c, ok := f.V.(*ssa.Call)
				if !ok || !callsFn(c, verify) || !f.Val {
					continue
				}
				for x := range backSlice(c.Call.Args[1], SliceOpts{}) {
					if cx, ok := x.(*ssa.Call); ok && callsFn(cx, resultsFile) {
						okk = true
					}
				}
			}
			if !okk {
				bad++
				site = rc.Site
			}
			continue
		}
		// non-constant: must be the negation of retrieveFromCache
		nOther++
		u, ok := v.(*ssa.UnOp)
		if !ok || u.Op != token.NOT || !isResultOfFn(u.X, retrieve) {
			bad++
			site = rc.Site
		}
	}
	if nFalse+nOther == 0 {
		r.bad(rule, "needToRun", p.pos(need.Pos()), fnName(need), "no reuse-returning path found (shape changed; undecided)")
		return
	}
	r.check(bad == 0, rule, "no-run only on hash match", p.pos(need.Pos()), fnName(need), itoa(nFalse)+" `return false` path(s) on the verifyHash(results file)==true edge, "+itoa(nOther)+" negated retrieveFromCache",
		"the reuse decision can say \"no need to run\" without verifyHash(TestResultsFile, hash)==true or a successful retrieveFromCache: a result recorded for other runtime inputs would be reused (site "+p.pos(site)+")")
	r.check(forceOK, rule, "ForceRerun => run", p.pos(need.Pos()), fnName(need), "the ForceRerun edge returns true", "with ForceRerun set the decision can still return false")
}

// runtimeHashRule: composition of build.RuntimeHash.
func (p *Prog) runtimeHashRule(r *Report, bh *ssa.Function) {
	rule := "E2.runtime-hash-composition"
	ruleHashFn := p.Fn("build", "RuleHash")
	iterRt := p.Fn("core", "IterRuntimeFiles")
	hashFn := p.Fn("fs", "PathHasher.Hash")
	if ruleHashFn == nil || iterRt == nil || hashFn == nil {
		r.unresolved(rule, "build.RuleHash / core.IterRuntimeFiles / fs.PathHasher.Hash")
		return
	}
	// RuleHash(runtime=true) pre and post build
	pre, post := false, false
	eachInstr(bh, true, func(_ *ssa.Function, i ssa.Instruction) {
		if callsFn(i, ruleHashFn) {
			cc := callCommon(i)
			rt, ok1 := constBool(cc.Args[2])
			pb, ok2 := constBool(cc.Args[3])
			if ok1 && ok2 && rt {
				if pb {
					post = true
				} else {
					pre = true
				}
			}
		}
	})
	// RuleHash itself must honour runtime=true: under that assumption only returns of ruleHash(…, runtime) are reachable
	if inner := p.Fn("build", "ruleHash"); inner != nil && len(ruleHashFn.Params) >= 3 {
		rtParam := ssa.Value(ruleHashFn.Params[2])
		badRet := 0
		for _, ret := range returnsOf(ruleHashFn) {
			okv := false
			if c, ok := ret.Results[0].(*ssa.Call); ok && callsFn(c, inner) && len(c.Call.Args) >= 3 && c.Call.Args[2] == rtParam {
				okv = true
			}
			if !okv && existsPathAssuming(ruleHashFn, nil, ret, nil, map[ssa.Value]bool{rtParam: true}) {
				badRet++
			}
		}
		r.check(badRet == 0, rule, "RuleHash(runtime=true) never returns the memoised build hash", p.pos(ruleHashFn.Pos()), fnName(ruleHashFn), "with runtime==true every reachable return is ruleHash(…, runtime)", "with runtime==true RuleHash can return something other than ruleHash(…, runtime) (e.g. the memoised non-runtime hash): runtime attributes would not invalidate test results or change detection")
	}
	r.check(pre && post, rule, "RuleHash(runtime=true) pre- and post-build", p.pos(bh.Pos()), fnName(bh), "both calls present with constant runtime=true", "RuntimeHash does not include RuleHash(runtime=true) for both the pre- and post-build rule: test command/data/test outputs would not invalidate results")
	// result derives from those calls and the config hash
	var retVals []ssa.Value
	for _, f := range withAnon(bh) {
		for _, ret := range returnsOf(f) {
			if f == bh && len(ret.Results) > 0 {
				retVals = append(retVals, ret.Results[0])
			}
		}
	}
	fromRule, fromCfg, fromSum, bypass := false, false, false, false
	for _, rv := range retVals {
		// (through the results of helpers of the package: the loop over the runtime files may be a function of its own)
		for x := range backSlice(rv, SliceOpts{Interproc: 2, Prog: p, StopAtCall: func(c *ssa.Call) bool { return callsFn(c, ruleHashFn) }}) {
			if c, ok := x.(*ssa.Call); ok {
				if callsFn(c, ruleHashFn) {
					fromRule = true
				}
				if c.Call.IsInvoke() && c.Call.Method.Name() == "Sum" {
					fromSum = true
				}
			}
			if fieldKey(x) == "struct.Config" || derivesFromNamedFieldShallow(x, "core.BuildState.Hashes") {
				fromCfg = true
			}
			if ex, ok := x.(*ssa.Extract); ok && ex.Index == 0 {
				if c, ok := ex.Tuple.(*ssa.Call); ok && callsFn(c, hashFn) {
					// a file hash reaches the result without passing through a hash.Hash; allowed only on the error return
					bypass = true
				}
			}
		}
	}
	r.check(fromRule && fromCfg && fromSum, rule, "result = rule hashes ++ config hash ++ Sum(file hashes)", p.pos(bh.Pos()), fnName(bh), "all three parts flow into the returned slice", "the returned hash is not composed of RuleHash results, the config hash and the Sum of the file-hash stream")
	// every PathHasher.Hash result is written to the hash.Hash, content mode
	nHash := 0
	for _, f := range withAnon(bh) {
		eachInstr(f, false, func(_ *ssa.Function, i ssa.Instruction) {
			c, ok := i.(*ssa.Call)
			if !ok || !callsFn(c, hashFn) {
				return
			}
			nHash++
			written := false
			for _, s := range p.hashSinks(bh) {
				for _, a := range s.args {
					for x := range backSlice(a, SliceOpts{}) {
						if ex, ok := x.(*ssa.Extract); ok && ex.Tuple == c {
							written = true
						}
					}
				}
			}
			r.check(written, rule, "file hash written to the hash.Hash", p.pos(c.Pos()), fnName(f), "PathHasher.Hash result flows into h.Write", "a runtime file's hash is computed but never written to the hash.Hash")
			// path derives from IterRuntimeFiles
			fromIter := false
			for x := range backSlice(c.Call.Args[1], SliceOpts{}) {
				if cx, ok := x.(*ssa.Call); ok && callsFn(cx, iterRt) {
					fromIter = true
				}
			}
			r.check(fromIter, rule, "hashed paths come from IterRuntimeFiles", p.pos(c.Pos()), fnName(f), "path argument derives from core.IterRuntimeFiles(...)", "the hashed path does not come from core.IterRuntimeFiles")
			if ts, ok := constBool(c.Call.Args[len(c.Call.Args)-1]); !ok || ts {
				r.bad(rule, "content (not timestamp) hashing", p.pos(c.Pos()), fnName(f), "PathHasher.Hash is called with timestamp mode (or a non-constant) for runtime files: edits that keep mtime would be missed / touches would invalidate")
			} else {
				r.ok(rule, "content (not timestamp) hashing", p.pos(c.Pos()), fnName(f), "constant timestamp=false")
			}
		})
	}
	if nHash == 0 {
		r.unresolved(rule, "PathHasher.Hash call in RuntimeHash")
	}
	// bypass: file hashes combined outside the hash.Hash. The error return `return result, err` is the only allowed direct flow.
	if bypass {
		// allowed iff every return carrying the raw file hash is an error return (second result non-nil on that path)
		okErrOnly := true
		for _, f := range withAnon(bh) {
			eachInstr(f, false, func(_ *ssa.Function, i ssa.Instruction) {
				// stores of a raw file hash into the captured result variable must be on the err != nil edge
				st, ok := i.(*ssa.Store)
				if !ok {
					return
				}
				ex, ok := st.Val.(*ssa.Extract)
				if !ok || ex.Index != 0 {
					// any other value built from the raw file hash (xor-fold, append) that is stored or returned
					raw := false
					for x := range backSlice(st.Val, SliceOpts{}) {
						if e2, ok := x.(*ssa.Extract); ok && e2.Index == 0 {
							if c, ok := e2.Tuple.(*ssa.Call); ok && callsFn(c, hashFn) {
								raw = true
							}
						}
					}
					if raw {
						okErrOnly = false
					}
					return
				}
				c, ok := ex.Tuple.(*ssa.Call)
				if !ok || !callsFn(c, hashFn) {
					return
				}
				onErr := false
				for _, fa := range condFacts(st.Block()) {
					if x, eq, ok := isNilCmp(fa.V); ok && eq != fa.Val {
						if e1, ok := x.(*ssa.Extract); ok && e1.Tuple == c && e1.Index == 1 {
							onErr = true
						}
					}
				}
				if !onErr {
					okErrOnly = false
				}
			})
		}
		r.check(okErrOnly, rule, "file hashes reach the result only through the hash.Hash", p.pos(bh.Pos()), fnName(bh), "the only direct flow is the error return", "file hashes are combined into the result outside the hash.Hash (e.g. folded with XOR/append): combinations of edits that cancel out, or reorderings, leave the runtime hash unchanged")
	} else {
		r.ok(rule, "file hashes reach the result only through the hash.Hash", p.pos(bh.Pos()), fnName(bh), "no direct flow from PathHasher.Hash results to the returned value")
	}
}

func derivesFromNamedFieldShallow(x ssa.Value, key string) bool { return fieldKey(x) == key }

// runtimeFilesRule: IterRuntimeFiles yields outputs, runtime deps, data and test tools.
func (p *Prog) runtimeFilesRule(r *Report) {
	rule := "E2.runtime-files-cover"
	it := p.Fn("core", "IterRuntimeFiles")
	if it == nil {
		r.unresolved(rule, "core.IterRuntimeFiles")
		return
	}
	want := map[string]*ssa.Function{
		"outputs":              p.Fn("core", "BuildTarget.Outputs"),
		"runtime dependencies": p.Fn("core", "BuildTarget.IterAllRuntimeDependencies"),
		"data":                 p.Fn("core", "BuildTarget.AllData"),
		"test tools":           p.Fn("core", "BuildTarget.AllTestTools"),
	}
	got := map[string]bool{}
	// values passed to the yield parameter (directly or through a local closure)
	for _, f := range withAnon(it) {
		eachInstr(f, false, func(_ *ssa.Function, i ssa.Instruction) {
			cc := callCommon(i)
			if cc == nil || len(cc.Args) == 0 {
				return
			}
			// a call of a function-typed parameter/free variable = yield
			isYield := false
			switch v := cc.Value.(type) {
			case *ssa.Parameter:
				isYield = true
			case *ssa.UnOp:
				if fv, ok := v.X.(*ssa.FreeVar); ok {
					if b := freeVarBinding(fv); b != nil {
						if a, ok := b.(*ssa.Alloc); ok {
							for _, s := range storesTo(a) {
								if _, ok := s.(*ssa.Parameter); ok {
									isYield = true
								}
							}
						}
					}
				}
			case *ssa.FreeVar:
				isYield = true
			}
			if !isYield {
				return
			}
			// a graph lookup (TargetOrDie(label)...) yields another target's files: do not look through it,
			// so that "data" means the data entries' own paths, not only their runtime dependencies
			stopAtGraph := func(c *ssa.Call) bool {
				n := calleeName(&c.Call)
				return len(n) > 18 && n[:18] == "(*core.BuildGraph)"
			}
			for x := range backSlice(cc.Args[0], SliceOpts{StopAtCall: stopAtGraph}) {
				if c, ok := x.(*ssa.Call); ok {
					for n, fn := range want {
						if fn != nil && callsFn(c, fn) {
							got[n] = true
						}
					}
				}
			}
		})
	}
	for n, fn := range want {
		if fn == nil {
			r.unresolved(rule, "accessor for "+n)
			continue
		}
		r.check(got[n], rule, "runtime files include "+n, p.pos(it.Pos()), fnName(it), "a yielded path derives from "+fn.Name()+"()", "no path yielded by IterRuntimeFiles derives from "+fn.Name()+"(): changes to the test's "+n+" would not change the runtime hash, so a stale result is reused")
	}
}

// entryPointCoversAllOutputs: a tool referenced as `//tools:checker|run` is the whole target: what is hashed for it (and
// what is prepared for it) is every output of the target, not only the file the entry point names - the tool runs from
// plz-out and finds its sibling files there whether or not they were hashed.
func (p *Prog) entryPointCoversAllOutputs(r *Report) {
	rule := "E2.runtime-files-cover"
	n := 0
	for _, m := range []string{"Paths", "FullPaths", "LocalPaths"} {
		fn := p.Fn("core", "AnnotatedOutputLabel."+m)
		if fn == nil {
			continue
		}
		n++
		okk := false
		for _, rc := range returnCases(fn, 0) {
			ep := false
			for _, f := range rc.Facts {
				if e, ok := f.V.(*ssa.Extract); ok && e.Index == 1 && f.Val {
					if lk, ok := e.Tuple.(*ssa.Lookup); ok && fieldKeyOfLoad(lk.X) == "core.BuildTarget.EntryPoints" {
						ep = true
					}
				}
			}
			if !ep {
				continue
			}
			if c, ok := rc.Vals[0].(*ssa.Call); ok && strings.HasPrefix(calleeName(&c.Call), "(core.BuildLabel).") {
				okk = true
			}
		}
		r.check(okk, rule, "AnnotatedOutputLabel."+m+": an entry-point annotation stands for all outputs of the target", p.pos(fn.Pos()), fnName(fn), "under EntryPoints[annotation] the result is BuildLabel."+m+"(...)", "for a label annotated with an entry point, "+m+" no longer returns the target's full outputs (e.g. only the entry-point file): the runtime hash of a test covers one file of its tool, so rebuilding the tool with a change in another output leaves the cached test result in place")
	}
	if n == 0 {
		r.unresolved(rule, "core.AnnotatedOutputLabel.Paths / FullPaths / LocalPaths")
	}
}
