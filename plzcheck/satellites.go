package main

import (
	"go/token"
	"sort"

	"golang.org/x/tools/go/ssa"
)

// Satellites. A rule that looks at "function F and its closures" should not care whether a piece of F's body is
// written inline, as a closure, or as a private helper that exists only for F (extract-function / closure-to-method
// refactorings leave behaviour alone). A satellite of F is a top-level function of F's own package, not exported,
// never used as a value, every static call of which is in F, in F's closures or in another satellite of F. Wherever
// the helpers below descend into closures (anon == true, withAnon) they descend into satellites as well.
var theProg *Prog

type satIndex struct {
	callers  map[*ssa.Function][]*ssa.Function // callee -> functions holding a static call
	sites    map[*ssa.Function][]ssa.Instruction
	asValue  map[*ssa.Function]bool            // referenced other than as the callee of a static call
	memo     map[*ssa.Function][]*ssa.Function
	disabled bool
}

var sats *satIndex

func buildSatIndex(p *Prog) *satIndex {
	ix := &satIndex{sites: map[*ssa.Function][]ssa.Instruction{}, callers: map[*ssa.Function][]*ssa.Function{}, asValue: map[*ssa.Function]bool{}, memo: map[*ssa.Function][]*ssa.Function{}}
	for _, f := range p.allFuncs {
		for _, b := range f.Blocks {
			for _, i := range b.Instrs {
				var callee *ssa.Function
				if cc := callCommon(i); cc != nil {
					callee = cc.StaticCallee()
					if callee != nil {
						if o := callee.Origin(); o != nil {
							callee = o
						}
						ix.callers[callee] = append(ix.callers[callee], f)
						ix.sites[callee] = append(ix.sites[callee], i)
					}
				}
				for _, op := range i.Operands(nil) {
					if op == nil || *op == nil {
						continue
					}
					g, ok := (*op).(*ssa.Function)
					if !ok {
						continue
					}
					if cc := callCommon(i); cc != nil && cc.Value == ssa.Value(g) && !cc.IsInvoke() {
						// callee position; but the same function may also be an argument
						n := 0
						for _, a := range cc.Args {
							if a == ssa.Value(g) {
								n++
							}
						}
						if n == 0 {
							continue
						}
					}
					ix.asValue[g] = true
				}
			}
		}
	}
	return ix
}

func satelliteCandidate(g, root *ssa.Function) bool {
	if g == nil || g.Blocks == nil || g.Parent() != nil || g.Pkg == nil || g.Pkg != topFunc(root).Pkg {
		return false
	}
	if g.Synthetic != "" || g.TypeParams().Len() > 0 || g.Origin() != nil {
		return false
	}
	if token.IsExported(g.Name()) || g.Name() == "init" || g.Name() == "main" {
		return false
	}
	return true
}

// satellitesOf lists the satellites of fn (not fn itself, not closures), in source order.
func satellitesOf(fn *ssa.Function) []*ssa.Function {
	if sats == nil || sats.disabled || fn == nil {
		return nil
	}
	if s, ok := sats.memo[fn]; ok {
		return s
	}
	sats.memo[fn] = nil // recursion guard
	region := map[*ssa.Function]bool{}
	var addAnon func(f *ssa.Function)
	addAnon = func(f *ssa.Function) {
		region[f] = true
		for _, a := range f.AnonFuncs {
			addAnon(a)
		}
	}
	addAnon(fn)
	var out []*ssa.Function
	for round := 0; round < 3; round++ {
		var found []*ssa.Function
		cands := map[*ssa.Function]bool{}
		for f := range region {
			for _, b := range f.Blocks {
				for _, i := range b.Instrs {
					if cc := callCommon(i); cc != nil {
						if g := cc.StaticCallee(); g != nil && !region[g] && satelliteCandidate(g, fn) && !sats.asValue[g] {
							cands[g] = true
						}
					}
				}
			}
		}
		for g := range cands {
			all := true
			for _, c := range sats.callers[g] {
				if !region[c] && c != g {
					all = false
					break
				}
			}
			// a function that calls itself is still a satellite; one that calls fn back is not
			if all {
				found = append(found, g)
			}
		}
		if len(found) == 0 {
			break
		}
		for _, g := range found {
			addAnon(g)
			out = append(out, g)
		}
	}
	sort.Slice(out, func(i, j int) bool { return out[i].Pos() < out[j].Pos() })
	sats.memo[fn] = out
	return out
}

// isSatelliteOf: g is a satellite of the top-level function enclosing f.
func isSatelliteOf(g, f *ssa.Function) bool {
	for _, s := range satellitesOf(topFunc(f)) {
		if s == g {
			return true
		}
	}
	return false
}

// privateCallSites: every call of g, when all of them are known: g is a top-level, unexported function that is never
// used as a value and is called (synchronously: no go, no defer) at least once. Nil otherwise.
func privateCallSites(g *ssa.Function) []ssa.Instruction {
	if sats == nil || sats.disabled || g == nil || g.Parent() != nil || !satelliteCandidate(g, g) || sats.asValue[g] {
		return nil
	}
	sites := sats.sites[g]
	for _, s := range sites {
		if _, ok := s.(*ssa.Call); !ok {
			return nil
		}
		if s.Parent() == g {
			return nil // recursive
		}
	}
	return sites
}
