package main

import (
	"go/types"
	"strings"

	"golang.org/x/tools/go/ssa"
)

func init() {
	register("C07", []string{"./src/..."}, checkC07)
}

func (p *Prog) hashRoots() []*ssa.Function {
	var roots []*ssa.Function
	for _, n := range [][2]string{{"build", "ruleHash"}, {"build", "RuleHash"}, {"build", "sourceHash"}, {"build", "secretHash"}, {"build", "RuntimeHash"}, {"build", "outputHash"}, {"build", "targetHash"}, {"build", "PrintHashes"}, {"core", "Configuration.Hash"}, {"build", "hashMap"}} {
		if f := p.Fn(n[0], n[1]); f != nil {
			roots = append(roots, f)
		}
	}
	return roots
}

func checkC07(p *Prog, r *Report) {
	r.Explanation = "E4 maporder over the static call closure (depth 5, packages build/core/fs) of the hash roots ruleHash, RuleHash, sourceHash, secretHash, RuntimeHash, outputHash, targetHash, PrintHashes, hashMap and Configuration.Hash: every `range` over a map is classified by the effects of its body (including closures created in it); writes to a hash/stream, appends that are never sorted, yields/sends, string accumulation and reads of a map the loop also writes are order-sensitive and violate determinism; per-key writes, membership tests, commutative reductions and append-then-sort are order-insensitive. Plus: every accessor called from the rule hash that returns a label slice built from BuildTarget.dependencies sorts it before returning; the memoised BuildTarget.RuleHash is stored only from ruleHash(runtime=false)."
	r.NotCovered = []string{"equality of printed hashes across real runs", "file-system races while hashing", "order of BuildTarget.dependencies itself when dependencies are added from concurrently parsed packages (source hash order)"}
	roots := p.hashRoots()
	if len(roots) < 8 {
		r.unresolved("E4.maporder", "hash roots in packages build/core (found "+itoa(len(roots))+")")
		return
	}
	// what the hashes and expanded commands are computed from: dependency resolution and require/provide
	for _, n := range [][2]string{{"core", "BuildTarget.provideFor"}, {"core", "BuildTarget.ProvideFor"}, {"core", "BuildTarget.resolveOneDependency"}, {"core", "BuildTarget.resolveDependencies"}, {"core", "BuildTarget.DependenciesFor"}, {"core", "IterInputs"}, {"core", "IterSources"}, {"core", "IterRuntimeFiles"}, {"core", "replaceSequenceLabel"}} {
		if f := p.Fn(n[0], n[1]); f != nil {
			roots = append(roots, f)
		}
	}
	n := p.runMapOrder(r, "E4.maporder", roots, 5, inRepoPkgs("build", "core", "fs"))
	if n < 8 {
		r.unresolved("E4.maporder", "map ranges in the hash closure (found "+itoa(n)+")")
	}
	// sorted dependency accessors
	rule := "E5.sorted-accessor"
	rh := p.Fn("build", "ruleHash")
	nAcc := 0
	if rh != nil {
		seen := map[*ssa.Function]bool{}
		eachInstr(rh, true, func(_ *ssa.Function, i ssa.Instruction) {
			cc := callCommon(i)
			if cc == nil {
				return
			}
			g := cc.StaticCallee()
			if g == nil || g.Blocks == nil || seen[g] || !strings.HasPrefix(fnPkg(g), modPath+"/src/core") {
				return
			}
			seen[g] = true
			// does g return a slice built (element by element) from BuildTarget.dependencies?
			for _, ret := range returnsOf(g) {
				if len(ret.Results) == 0 {
					continue
				}
				rv := ret.Results[0]
				built, fromDeps := false, false
				for x := range backSlice(rv, SliceOpts{}) {
					switch y := x.(type) {
					case *ssa.MakeSlice:
						built = true
					case *ssa.Call:
						if b, ok := y.Call.Value.(*ssa.Builtin); ok && b.Name() == "append" {
							built = true
						}
					}
					if fieldKey(x) == "core.BuildTarget.dependencies" {
						fromDeps = true
					}
				}
				if !built || !fromDeps {
					continue
				}
				nAcc++
				sorted := false
				eachInstr(g, false, func(_ *ssa.Function, j ssa.Instruction) {
					c, ok := j.(*ssa.Call)
					if !ok || !sortCallees[calleeName(&c.Call)] || len(c.Call.Args) == 0 {
						return
					}
					// same storage as the returned value, and the sort dominates the return
					shared := false
					rs := backSlice(rv, SliceOpts{})
					for y := range backSlice(c.Call.Args[0], SliceOpts{}) {
						if _, isMk := y.(*ssa.MakeSlice); isMk && rs[y] {
							shared = true
						}
						if cc2, isC := y.(*ssa.Call); isC && rs[y] {
							if b, ok := cc2.Call.Value.(*ssa.Builtin); ok && b.Name() == "append" {
								shared = true
							}
						}
					}
					if shared && instrDominates(c, ret) {
						sorted = true
					}
				})
				r.check(sorted, rule, g.Name()+" returns a sorted list", p.pos(g.Pos()), fnName(g), "the slice built from BuildTarget.dependencies is sorted before it is returned to the rule hash", "a label list built from BuildTarget.dependencies is written to the rule hash without being sorted: the hash depends on the order in which dependencies happened to be added")
			}
		})
	}
	if nAcc == 0 {
		r.unresolved(rule, "accessor over BuildTarget.dependencies called from ruleHash")
	}
	// memoised rule hash only from the non-runtime hash
	rule = "E7.memoised-rulehash"
	nSt := 0
	for _, f := range p.Funcs("build", "core") {
		eachInstr(f, false, func(_ *ssa.Function, i ssa.Instruction) {
			st, ok := i.(*ssa.Store)
			if !ok {
				return
			}
			fa, ok := st.Addr.(*ssa.FieldAddr)
			if !ok || fieldKey(fa) != "core.BuildTarget.RuleHash" {
				return
			}
			nSt++
			okk := false
			if c, ok := st.Val.(*ssa.Call); ok && rh != nil && callsFn(c, rh) {
				if b, isC := constBool(c.Call.Args[2]); isC && !b {
					okk = true
				}
			}
			if isNilConst(st.Val) {
				okk = true
			}
			r.check(okk, rule, "store to BuildTarget.RuleHash", p.pos(st.Pos()), fnName(f), "memoised value is ruleHash(…, runtime=false)", "the memoised rule hash is stored from something other than ruleHash(runtime=false): later callers asking for the build hash would get a hash that depends on who asked first")
		})
	}
	if nSt == 0 {
		r.unresolved(rule, "store to BuildTarget.RuleHash")
	}
	p.walkSortedRule(r, "fs/E5.walk-sorted")
	// two clauses owned by other properties whose violation shows as order-dependence of hashes: a hash taken from the
	// memo instead of the file depends on who hashed the path first; a package that writes into a shared config
	// overlay changes what later packages hash
	importRules(p, r, checkC02, "build/", "E5.restore-verified")
	importRules(p, r, checkC17, "asp/", "E8.no-adoption-of-frozen-storage")
	// state recycled between BUILD evaluations is fully reset
	rule = "E5.recycled-state-reset"
	nPut := 0
	for _, f := range p.Funcs("parse/asp", "parse", "core", "build") {
		eachInstr(f, false, func(g *ssa.Function, i ssa.Instruction) {
			cc := callCommon(i)
			if cc == nil || calleeName(cc) != "(*sync.Pool).Put" || len(cc.Args) < 2 {
				return
			}
			var sl ssa.Value
			if mi, ok := cc.Args[1].(*ssa.MakeInterface); ok {
				if _, ok := mi.X.Type().Underlying().(*types.Slice); ok {
					sl = mi.X
				}
			}
			if sl == nil {
				return
			}
			nPut++
			fn := i.Parent()
			okk := false
			// clear(x)
			eachInstr(fn, false, func(_ *ssa.Function, j ssa.Instruction) {
				if c, ok := j.(*ssa.Call); ok {
					if b, ok := c.Call.Value.(*ssa.Builtin); ok && b.Name() == "clear" && rootOf(c.Call.Args[0]) == rootOf(sl) && instrDominates(c, i) {
						okk = true
					}
				}
			})
			for _, l := range sliceRangeLoops(fn) {
				if rootOf(l.over) != rootOf(sl) || l.blocks[i.Block()] || len(l.header.Instrs) == 0 || !instrDominates(l.header.Instrs[0], i) {
					continue
				}
				if !l.iterationSkips(func(j ssa.Instruction) bool {
					st, ok := j.(*ssa.Store)
					if !ok || !isZeroValue(st.Val) {
						return false
					}
					ia, ok := st.Addr.(*ssa.IndexAddr)
					return ok && rootOf(ia.X) == rootOf(sl)
				}) {
					okk = true
				}
			}
			r.check(okk, rule, "pooled slice is cleared in full before it is put back", p.pos(i.Pos()), fnName(fn), "every element of the slice is reset (a loop over the whole slice storing nil unconditionally, or clear) before (*sync.Pool).Put", "a slice goes back into a sync.Pool without every element having been reset: what one BUILD-language call left in it (an argument rewritten in place, e.g. build_rule setting local=True) is seen by the next call that draws it, so a target's attributes and rule hash depend on which package was evaluated before it")
		})
	}
	if nPut == 0 {
		r.okTrivial(rule, "no slice is recycled through a sync.Pool", "-", "", "no (*sync.Pool).Put of a slice in packages asp/parse/core/build")
	}
}
