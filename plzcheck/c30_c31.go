package main

import (
	"go/token"
	"strings"

	"golang.org/x/tools/go/ssa"
)

func init() {
	register("C30", []string{"./src/..."}, checkC30, "darwin", "freebsd")
	register("C31", []string{"./src/..."}, checkC31)
}

func checkC30(p *Prog, r *Report) {
	r.Explanation = "Structural clauses of 'timed-out actions are killed with their children'. (1) every *exec.Cmd returned by Executor.ExecCommand carries a SysProcAttr whose Setpgid is the constant true on every path (also in build-tagged siblings, analysed per GOOS in the thorough tier). (2) the signal is sent to the negative pid (the group) in sendSignal. (3) escalation: killProcess sends SIGTERM and then, unconditionally, SIGKILL (the second sendSignal is not control-dependent on the first one's result). (4) in ExecWithTimeout the context is derived with WithTimeout(timeout), the ctx.Done() case reaches KillProcess before the return, the error reported is ctx.Err(), and the process is registered before it can be waited for. (5) who-may-call exec.Command in packages build and test: only through process.Executor. (6) after the command has finished on its own, its process group is signalled as well (violated by the pinned code: recorded finding)."
	r.NotCovered = []string{"promptness (the 30 ms / 1 s waits are runtime quantities)", "grandchildren that move themselves to another process group or session", "sandbox tool behaviour"}
	ec := p.Fn("process", "Executor.ExecCommand")
	ewt := p.Fn("process", "Executor.ExecWithTimeout")
	kp := p.Fn("process", "Executor.killProcess")
	KP := p.Fn("process", "Executor.KillProcess")
	ss := p.Fn("process", "sendSignal")
	if ec == nil || ewt == nil || kp == nil || KP == nil || ss == nil {
		r.unresolved("E5.process-group-set", "process.Executor.ExecCommand / ExecWithTimeout / KillProcess / killProcess / sendSignal")
		return
	}
	// (1)
	rule := "E5.process-group-set"
	{
		// every store to the SysProcAttr field of a Cmd: the stored struct must have Setpgid = true
		n, bad := 0, 0
		var site token.Pos
		for _, fn := range p.Funcs("process") {
			eachInstr(fn, false, func(_ *ssa.Function, i ssa.Instruction) {
				st, ok := i.(*ssa.Store)
				if !ok || fieldKey(st.Addr) != "os/exec.Cmd.SysProcAttr" {
					return
				}
				n++
				okk := false
				// the value is &syscall.SysProcAttr{...} built in this function: a field store Setpgid = true
				for x := range backSlice(st.Val, SliceOpts{Interproc: 2, Prog: p}) {
					a, isA := x.(*ssa.Alloc)
					if !isA {
						continue
					}
					if refs := a.Referrers(); refs != nil {
						for _, u := range *refs {
							if fa, ok := u.(*ssa.FieldAddr); ok && fieldKey(fa) == "syscall.SysProcAttr.Setpgid" {
								for _, v := range storesTo(fa) {
									if b, isC := constBool(v); isC && b {
										okk = true
									}
								}
							}
						}
					}
				}
				if !okk {
					bad++
					site = st.Pos()
				}
			})
		}
		r.check(n > 0 && bad == 0, rule, "every SysProcAttr given to a command sets Setpgid", p.pos(ec.Pos()), fnName(ec), itoa(n)+" assignment(s) of Cmd.SysProcAttr, each a literal with Setpgid: true", "a command can be started with a SysProcAttr that lacks Setpgid: true (assignment at "+p.pos(site)+"): the kill on timeout signals -pid, which then reaches nobody, so the action and its children keep running after being reported failed")
		// and ExecCommand always assigns it before returning
		skip := existsPath(ec, nil, nil, func(j ssa.Instruction) bool {
			st, ok := j.(*ssa.Store)
			return ok && fieldKey(st.Addr) == "os/exec.Cmd.SysProcAttr"
		})
		r.check(!skip, rule, "ExecCommand always assigns SysProcAttr", p.pos(ec.Pos()), fnName(ec), "every path to return stores Cmd.SysProcAttr", "ExecCommand can return a command without a SysProcAttr (no process group)")
		// later overwrite of Setpgid with false
		eachInstr(ec, true, func(in *ssa.Function, i ssa.Instruction) {
			if st, ok := i.(*ssa.Store); ok && fieldKey(st.Addr) == "syscall.SysProcAttr.Setpgid" {
				if b, isC := constBool(st.Val); !isC || !b {
					r.bad(rule, "Setpgid overwritten", p.pos(st.Pos()), fnName(in), "Setpgid is reset to a value that is not the constant true")
				}
			}
		})
	}
	// (2)
	rule = "E5.signal-the-group"
	{
		n := 0
		for _, fn := range p.Funcs("process") {
			eachInstr(fn, false, func(_ *ssa.Function, i ssa.Instruction) {
				c, ok := i.(*ssa.Call)
				if !ok || !isCallTo(c, "syscall.Kill") {
					return
				}
				n++
				neg := false
				if u, ok := c.Call.Args[0].(*ssa.UnOp); ok && u.Op == token.SUB {
					neg = tagsOf(u.X, SliceOpts{})["os.Process.Pid"]
				}
				r.check(neg, rule, "syscall.Kill(-pid, sig)", p.pos(c.Pos()), fnName(fn), "the target is the negated pid of the command's process", "the signal goes to the process itself, not to its process group: children of the action survive the timeout")
			})
		}
		if n == 0 {
			r.unresolved(rule, "syscall.Kill in package process")
		}
	}
	// (2b) sendSignal reports "gone" only after it has signalled the group, and the wait after a kill is bounded
	{
		nT, badT := 0, 0
		var site token.Pos
		isKill := func(i ssa.Instruction) bool {
			c, ok := i.(*ssa.Call)
			return ok && isCallTo(c, "syscall.Kill")
		}
		for _, ret := range returnsOf(ss) {
			if len(ret.Results) != 1 {
				continue
			}
			if b, isC := constBool(unspill(ret.Results[0])); !isC || !b {
				continue
			}
			nT++
			if existsPath(ss, nil, ret, isKill) {
				badT++
				site = ret.Pos()
			}
		}
		r.check(nT > 0 && badT == 0, rule, "sendSignal returns true only after signalling the group", p.pos(site), fnName(ss), itoa(nT)+" `return true`, each behind syscall.Kill(-pid, sig)", "sendSignal can report the process as gone without having sent the signal (e.g. when a lookup of the leader fails because it was already reaped): background children in the group that still hold the output pipes are never signalled and outlive the timed-out action")
		// after KillProcess nothing waits without a bound
		kpPub := p.Fn("process", "Executor.KillProcess")
		unbounded := false
		for _, kf := range []*ssa.Function{kpPub, kp} {
			if kf == nil {
				continue
			}
			for _, kc := range callsInFn(ewt, kf) {
				eachInstr(ewt, false, func(_ *ssa.Function, i ssa.Instruction) {
					if u, ok := i.(*ssa.UnOp); ok && u.Op == token.ARROW && existsPath(ewt, kc, u, nil) {
						unbounded = true
						site = u.Pos()
					}
				})
			}
		}
		r.check(!unbounded, "E5.timeout-kills", "no unbounded wait after the kill", p.pos(site), fnName(ewt), "after KillProcess the function returns without a blocking receive", "after killing a timed-out action ExecWithTimeout blocks on a channel receive with no timeout: cmd.Wait only returns when every holder of the output pipes has exited, so a descendant outside the process group (setsid, job control) keeps the timeout from being reported until it exits by itself")
	}
	p.timeoutReportingRules(r)
	// (3)
	rule = "E5.term-then-kill"
	{
		var term, kill *ssa.Call
		for _, ci := range callsInFn(kp, ss) {
			c, ok := ci.(*ssa.Call)
			if !ok {
				continue
			}
			for _, a := range c.Call.Args {
				if v, ok := constInt(a); ok {
					switch v {
					case 15:
						term = c
					case 9:
						kill = c
					}
				}
			}
		}
		okk := term != nil && kill != nil && instrDominates(term, kill)
		if okk {
			// SIGKILL must be sent on every path through killProcess
			okk = !existsPath(kp, nil, nil, func(j ssa.Instruction) bool { return j == ssa.Instruction(kill) })
		}
		r.check(okk, rule, "SIGTERM then unconditional SIGKILL", p.pos(kp.Pos()), fnName(kp), "sendSignal(SIGKILL) is on every path of killProcess, after sendSignal(SIGTERM)", "SIGKILL to the group is skipped on some path (e.g. when the shell exits promptly on SIGTERM): a child that ignores SIGTERM keeps running after the action was reported as timed out")
		fwd := len(callsInFn(KP, kp)) > 0
		r.check(fwd, rule, "KillProcess goes through killProcess", p.pos(KP.Pos()), fnName(KP), "forwards", "KillProcess no longer escalates through killProcess")
	}
	// (4)
	rule = "E5.timeout-kills"
	{
		var wt *ssa.Call
		eachInstr(ewt, false, func(_ *ssa.Function, i ssa.Instruction) {
			if c, ok := i.(*ssa.Call); ok && isCallTo(c, "context.WithTimeout") {
				wt = c
			}
		})
		var timeoutPrm *ssa.Parameter
		for _, prm := range ewt.Params {
			if typeString(prm.Type()) == "time.Duration" {
				timeoutPrm = prm
			}
		}
		r.check(wt != nil && timeoutPrm != nil && wt.Call.Args[1] == ssa.Value(timeoutPrm), rule, "deadline = the action's timeout", p.pos(ewt.Pos()), fnName(ewt), "context.WithTimeout(ctx, timeout)", "ExecWithTimeout does not derive its deadline from the timeout parameter")
		// the select: the Done() arm reaches KillProcess before return
		var sel *ssa.Select
		eachInstr(ewt, false, func(_ *ssa.Function, i ssa.Instruction) {
			if s, ok := i.(*ssa.Select); ok {
				sel = s
			}
		})
		if sel == nil {
			r.bad(rule, "select on completion and deadline", p.pos(ewt.Pos()), fnName(ewt), "ExecWithTimeout no longer waits on both the command and the deadline")
		} else {
			doneIdx := -1
			for k, st := range sel.States {
				if c, ok := st.Chan.(*ssa.Call); ok && c.Call.IsInvoke() && c.Call.Method.Name() == "Done" {
					doneIdx = k
				}
			}
			// blocks control-dependent on `index == doneIdx`
			killed := false
			var doneFirst ssa.Instruction
			for _, b := range ewt.Blocks {
				for _, f := range condFacts(b) {
					if bo, ok := f.V.(*ssa.BinOp); ok && bo.Op == token.EQL && f.Val {
						if k, ok := constInt(bo.Y); ok && int(k) == doneIdx {
							if e, ok := bo.X.(*ssa.Extract); ok && e.Tuple == ssa.Value(sel) && doneFirst == nil && len(b.Instrs) > 0 {
								doneFirst = b.Instrs[0]
							}
						}
					}
				}
			}
			if doneFirst != nil {
				isKill := func(j ssa.Instruction) bool { return callsFn(j, KP, kp) }
				killed = isKill(doneFirst) || !existsPath(ewt, doneFirst, nil, isKill)
			}
			r.check(doneIdx >= 0 && killed, rule, "deadline arm kills before returning", p.pos(sel.Pos()), fnName(ewt), "every path from the ctx.Done() arm to return passes KillProcess", "on timeout ExecWithTimeout can return without killing the process group")
			// the completion arm: the group is signalled too (recorded finding on the pinned tree)
			compIdx := -1
			for k := range sel.States {
				if k != doneIdx {
					compIdx = k
				}
			}
			groupSignalled := false
			for _, b := range ewt.Blocks {
				for _, f := range condFacts(b) {
					if bo, ok := f.V.(*ssa.BinOp); ok && bo.Op == token.EQL && f.Val {
						if k, ok := constInt(bo.Y); ok && int(k) == compIdx && len(b.Instrs) > 0 {
							first := b.Instrs[0]
							sig := func(j ssa.Instruction) bool { return callsFn(j, KP, kp, ss) || isCallTo(j, "syscall.Kill") }
							if sig(first) || !existsPath(ewt, first, nil, sig) {
								groupSignalled = true
							}
						}
					}
				}
			}
			rule2 := "E5.no-survivors-after-completion"
			st := "violated"
			if groupSignalled {
				st = "discharged"
			}
			r.add(Obligation{Rule: rule2, Instance: "process group signalled after the command finished on its own", Site: p.pos(sel.Pos()), Func: fnName(ewt), Status: st, Path: true, Key: rule2 + "|" + fnName(ewt) + "|completion arm",
				Detail: "the arm of the select that receives the command's exit status returns without signalling the process group: `sleep 30 >/dev/null 2>&1 & exit 0` is reported finished while sleep keeps running"})
		}
		// error reported on timeout is ctx.Err()
		// process registered before the wait goroutine and removal deferred
		reg := p.Fn("process", "Executor.registerProcess")
		okReg := false
		if reg != nil {
			for _, ci := range callsInFn(ewt, reg) {
				eachInstr(ewt, false, func(_ *ssa.Function, i ssa.Instruction) {
					if g, ok := i.(*ssa.Go); ok && instrDominates(ci, g) && strings.Contains(calleeName(&g.Call), "runCommand") {
						okReg = true
					}
				})
			}
		}
		r.check(okReg, rule, "process registered before it is waited for", p.pos(ewt.Pos()), fnName(ewt), "registerProcess dominates `go runCommand`", "the process is not registered with the executor before the wait goroutine starts: KillProcess would find no channel for it")
	}
	// (5) who may call exec.Command
	rule = "E7.spawn-only-through-executor"
	{
		n := 0
		for _, fn := range p.Funcs("build", "test") {
			eachInstr(fn, false, func(_ *ssa.Function, i ssa.Instruction) {
				if isCallTo(i, "os/exec.Command", "os/exec.CommandContext", "os.StartProcess", "syscall.ForkExec") {
					n++
					r.bad(rule, calleeName(callCommon(i))+" in "+fnName(fn), p.pos(i.Pos()), fnName(fn), "package build/test spawns a process directly instead of through process.Executor: no process group, no timeout kill")
				}
			})
		}
		if n == 0 {
			r.ok(rule, "no direct spawn in packages build and test", "-", "", "all "+itoa(len(p.Funcs("build", "test")))+" functions scanned")
		}
	}
}

func checkC31(p *Prog, r *Report) {
	r.Explanation = "Structural clauses of 'concurrent invocations do not corrupt outputs'. (1) pairing: at every call site of AcquireExclusiveFileLock the returned file is handed to a deferred ReleaseFileLock right after. (2) critical section: in buildTarget every call that mutates the target's tmp/out directories (prepareDirectories, prepareSources, build, moveOutputs, StoreTargetMetadata, calculateAndCheckRuleHash, writeRuleHash, retrieveArtifacts, buildFilegroup, needsBuilding) is dominated by the acquire or lies on the remote-execution edge; in test.test the acquire dominates the removal of old results and every test run. (3) the lock file is keyed by the target only (BuildLockFile/TestLockFile derive from TmpDir()/TestDir()) and is a sibling of, not inside, the directory that is wiped while the lock is held. (4) acquireFileLock returns nil only after a successful flock (non-blocking or blocking), with the requested mode; ReleaseFileLock unlocks before closing. (5) the invocation takes the repo lock before building."
	r.NotCovered = []string{"flock(2) semantics of the host filesystem", "outputs shared by several filegroups", "the failure-path RemoveOutputs in build.Build (outside the lock; noted)"}
	acq := p.Fn("core", "AcquireExclusiveFileLock")
	rel := p.Fn("core", "ReleaseFileLock")
	afl := p.Fn("core", "acquireFileLock")
	blf := p.Fn("core", "BuildTarget.BuildLockFile")
	tlf := p.Fn("core", "BuildTarget.TestLockFile")
	bt := p.Fn("build", "buildTarget")
	tt := p.Fn("test", "test")
	if acq == nil || rel == nil || afl == nil || blf == nil || tlf == nil || bt == nil || tt == nil {
		r.unresolved("E5.lock-pairing", "core lock functions / buildTarget / test.test")
		return
	}
	// (1)
	rule := "E5.lock-pairing"
	sites := p.callers(acq)
	for _, ci := range sites {
		c, ok := ci.(*ssa.Call)
		fn := ci.Parent()
		if !ok {
			continue
		}
		paired := false
		eachInstr(fn, false, func(_ *ssa.Function, i ssa.Instruction) {
			d, ok := i.(*ssa.Defer)
			if !ok || !callsFn(d, rel) || len(d.Call.Args) != 1 {
				return
			}
			if d.Call.Args[0] == ssa.Value(c) && instrDominates(c, d) {
				// nothing that can return lies between
				if !existsPath(fn, c, nil, func(j ssa.Instruction) bool { return j == ssa.Instruction(d) }) {
					paired = true
				}
			}
		})
		r.check(paired, rule, "acquire is followed by defer ReleaseFileLock", p.pos(c.Pos()), fnName(fn), "every path from the acquire to a return passes the deferred release", "a lock acquired here is not released on every path (no deferred ReleaseFileLock of the same file right after): other invocations wait for ever, or the release happens before the work is done")
	}
	r.floor(rule, 3)
	// (2)
	rule = "E5.mutations-under-lock"
	{
		var ac *ssa.Call
		for _, ci := range callsInFn(bt, acq) {
			ac, _ = ci.(*ssa.Call)
		}
		if ac == nil {
			r.bad(rule, "buildTarget acquires the target lock", p.pos(bt.Pos()), fnName(bt), "buildTarget no longer takes the per-target file lock")
		} else {
			var remotePrm *ssa.Parameter
			for _, prm := range bt.Params {
				if prm.Name() == "runRemotely" {
					remotePrm = prm
				}
			}
			muts := []string{"prepareDirectories", "prepareSources", "build", "moveOutputs", "StoreTargetMetadata", "calculateAndCheckRuleHash", "writeRuleHash", "retrieveArtifacts", "buildFilegroup", "needsBuilding", "retrieveFromCache", "storeInCache"}
			n := 0
			for _, m := range muts {
				g := p.Fn("build", m)
				if g == nil {
					r.unresolved(rule, "build."+m)
					continue
				}
				for _, ci := range callsInFn(bt, g) {
					n++
					underLock := instrDominates(ac, ci)
					remote := remotePrm != nil && hasFact(factsAt(ci), true, func(v ssa.Value) bool { return v == ssa.Value(remotePrm) })
					if !underLock && !remote {
						// reachable only with runRemotely? (the acquire is inside the !runRemotely arm)
						assume := map[ssa.Value]bool{}
						if remotePrm != nil {
							assume[remotePrm] = false
						}
						underLock = !existsPathAssuming(bt, nil, ci, func(j ssa.Instruction) bool { return j == ssa.Instruction(ac) }, assume)
					}
					r.check(underLock || remote, rule, m+" only with the target lock held", p.pos(ci.Pos()), fnName(bt), "for local builds the acquire is on every path to this call", "for a local build "+m+" can run without the per-target lock (e.g. for some kinds of target): two plz processes then modify the same tmp/out directory at once")
				}
			}
			if n < 8 {
				r.unresolved(rule, "mutating calls in buildTarget (found "+itoa(n)+")")
			}
		}
		// test.test
		var tac *ssa.Call
		for _, ci := range callsInFn(tt, acq) {
			tac, _ = ci.(*ssa.Call)
		}
		if tac == nil {
			r.bad(rule, "test.test acquires the test lock", p.pos(tt.Pos()), fnName(tt), "test.test no longer takes the per-target test lock")
		} else {
			n := 0
			for _, m := range []string{"RemoveTestOutputs", "doFlakeRun", "doTest", "doTestResults", "prepareTestDir"} {
				g := p.Fn("test", m)
				if g == nil {
					continue
				}
				for _, f := range withAnon(tt) {
					for _, ci := range callsInFn(f, g) {
						n++
						under := f != tt || instrDominates(tac, ci)
						if f != tt {
							// closures defined before the acquire but only invoked after it
							under = true
							for _, use := range callsToClosure(tt, f) {
								if !instrDominates(tac, use) {
									under = false
								}
							}
						}
						r.check(under, rule, m+" only with the test lock held", p.pos(ci.Pos()), fnName(f), "dominated by the acquire", m+" can run without the per-target test lock")
					}
				}
			}
			if n < 2 {
				r.unresolved(rule, "test-running calls in test.test")
			}
		}
	}
	// (3)
	// two invocations may write the same destination (e.g. --out_dir exports happen outside any lock): the write helper
	// stages in a uniquely named temp file
	importRules(p, r, checkC32, "fs/", "E5.atomic-write")
	// outputs in plz-out are read by other invocations without the target's lock once the target is up to date: they are
	// removed only when a build has failed or cached artifacts were rejected, never ahead of a build
	if ro := p.Fn("build", "RemoveOutputs"); ro == nil {
		r.unresolved("E7.outputs-removed-only-on-failure", "build.RemoveOutputs")
	} else {
		allowed := map[string]bool{"build.Build": true, "build.retrieveArtifacts": true, "clean.cleanTarget": true, "clean.Targets": true}
		bad := ""
		n := 0
		for _, ci := range p.callers(ro) {
			n++
			f := topFunc(ci.Parent())
			if strings.HasSuffix(fnPkg(f), "/src/clean") {
				continue // `plz clean` is asked to remove them
			}
			okCaller := allowed[fnName(f)]
			// a private helper called from an allowed caller itself - and, for Build, only on the edge where buildTarget
			// has failed (the failure branch of Build written as a function); buildTarget and what it calls are satellites
			// of Build too and are NOT allowed
			bt := p.Fn("build", "buildTarget")
			for _, af := range []*ssa.Function{p.Fn("build", "Build"), p.Fn("build", "retrieveArtifacts")} {
				if af == nil || f == bt || !isSatelliteOf(f, af) {
					continue
				}
				sites := privateCallSites(f)
				all := len(sites) > 0
				for _, st := range sites {
					if st.Parent() != af {
						all = false
						continue
					}
					if af.Name() == "Build" {
						failed := false
						for _, fc := range factsAt(st) {
							if x, eq, ok := isNilCmp(fc.V); ok && eq != fc.Val && isResultOfFn(resolveLoad(x), bt) {
								failed = true
							}
						}
						if !failed {
							all = false
						}
					}
				}
				if all {
					okCaller = true
				}
			}
			if !okCaller {
				bad = fnName(f)
			}
		}
		r.check(n > 0 && bad == "", "E7.outputs-removed-only-on-failure", "RemoveOutputs is called only after a failed build, for rejected cached artifacts, or by plz clean", p.pos(ro.Pos()), fnName(ro), itoa(n)+" call site(s), all in Build's failure path, retrieveArtifacts or package clean", "outputs are also removed by "+bad+" (e.g. while preparing a forced rebuild): another invocation that has found the target up to date reads plz-out/gen without the target's lock, and for the whole run time of the rebuilt command its inputs are missing")
	}
	// lock files are never unlinked: a process that holds (or waits on) the old inode and one that creates the name
	// afresh would each hold "the" lock
	{
		n := 0
		for _, fn := range p.Funcs("build", "core", "plz", "test", "fs", "clean") {
			eachInstr(fn, false, func(_ *ssa.Function, i ssa.Instruction) {
				c, ok := i.(*ssa.Call)
				if !ok || !isCallTo(c, "os.Remove", "os.RemoveAll", "fs.RemoveAll") || len(c.Call.Args) == 0 {
					return
				}
				tg := tagsOf(c.Call.Args[0], SliceOpts{})
				isLock := tg["call:(*core.BuildTarget).BuildLockFile"] || tg["call:(*core.BuildTarget).TestLockFile"]
				for _, f := range factsAt(c) {
					if hc, ok := f.V.(*ssa.Call); ok && f.Val && isCallTo(hc, "strings.HasSuffix") {
						if sfx, ok := constString(hc.Call.Args[1]); ok && sfx == ".lock" {
							isLock = true
						}
					}
				}
				if isLock {
					n++
					r.bad("E7.lock-files-never-unlinked", "a lock file is removed", p.pos(c.Pos()), fnName(fn), "a target lock file is unlinked: an invocation that is building the target keeps its flock on the old inode while a later one creates the file anew, locks that at once, and wipes the temporary directory under the running command")
				}
			})
		}
		if n == 0 {
			r.ok("E7.lock-files-never-unlinked", "no lock file is ever removed", "-", "", "no os.Remove / RemoveAll on a BuildLockFile() / TestLockFile() / *.lock path in build, core, plz, test, fs, clean")
		}
	}
	rule = "E7.lock-path"
	for _, spec := range []struct {
		fn  *ssa.Function
		dir string
	}{{blf, "call:(*core.BuildTarget).TmpDir"}, {tlf, "call:(*core.BuildTarget).TestDir"}} {
		okk, inside := false, false
		for _, ret := range returnsOf(spec.fn) {
			v := unspill(ret.Results[0])
			if tagsOf(v, SliceOpts{})[spec.dir] {
				okk = true
			}
			// inside the directory: filepath.Join(dir, ...) or dir + "/..."
			for x := range backSlice(v, SliceOpts{}) {
				if c, ok := x.(*ssa.Call); ok && isCallTo(c, "path/filepath.Join", "path.Join") {
					for y := range backSlice(c.Call.Args[0], SliceOpts{}) {
						if cc, ok := y.(*ssa.Call); ok && "call:"+calleeName(&cc.Call) == spec.dir {
							inside = true
						}
					}
				}
				if bo, ok := x.(*ssa.BinOp); ok && bo.Op == token.ADD {
					if s, ok := constString(bo.Y); ok && strings.HasPrefix(s, "/") {
						inside = true
					}
				}
			}
			// other inputs: only the target (receiver) and constants
			for x := range backSlice(v, SliceOpts{}) {
				if g, ok := x.(*ssa.Global); ok && !strings.HasPrefix(g.Name(), "lockFile") {
					_ = g
				}
				if c, ok := x.(*ssa.Call); ok && isCallTo(c, "os.Getpid", "time.Now", "os.Getenv") {
					okk = false
				}
			}
		}
		r.check(okk && !inside, rule, spec.fn.Name()+" is a sibling of the directory it protects, keyed by the target only", p.pos(spec.fn.Pos()), fnName(spec.fn), "derived from the target's directory plus a suffix; not a path inside it", "the lock file lives inside the directory that is wiped while the lock is held (or is not a function of the target alone): a later invocation opens a fresh inode at the same path, takes the lock at once and runs concurrently with the first")
	}
	// (4)
	rule = "E5.flock-discipline"
	{
		var flocks []*ssa.Call
		eachInstr(afl, false, func(_ *ssa.Function, i ssa.Instruction) {
			if c, ok := i.(*ssa.Call); ok && isCallTo(c, "syscall.Flock") {
				flocks = append(flocks, c)
			}
		})
		bad := 0
		flockOK := func(f Fact) bool {
			x, eq, ok := isNilCmp(f.V)
			if !ok || eq != f.Val {
				return false
			}
			x = resolveLoad(x)
			for _, c := range flocks {
				if x == ssa.Value(c) {
					return true
				}
			}
			return false
		}
		for _, ret := range returnsOf(afl) {
			if !isNilConst(unspill(ret.Results[0])) {
				continue
			}
			// the non-blocking attempt succeeded, or the blocking one did: two edges into the same return
			if !blockJustified(ret.Block(), flockOK, 4) {
				bad++
			}
		}
		var howPrm *ssa.Parameter
		for _, prm := range afl.Params {
			if typeString(prm.Type()) == "int" {
				howPrm = prm
			}
		}
		modeOK := len(flocks) >= 2
		for _, c := range flocks {
			if howPrm == nil || !derivesFromValue(c.Call.Args[1], howPrm) {
				modeOK = false
			}
		}
		r.check(bad == 0 && modeOK, rule, "acquireFileLock succeeds only after a successful flock in the requested mode", p.pos(afl.Pos()), fnName(afl), "every nil return is under a nil Flock error; both Flock calls use the mode parameter", "acquireFileLock can report success without holding the lock (or locks in another mode)")
		// exclusive mode constant
		ex := false
		eachInstr(acq, false, func(_ *ssa.Function, i ssa.Instruction) {
			if c, ok := i.(*ssa.Call); ok {
				for _, a := range c.Call.Args {
					if v, ok := constInt(a); ok && v == 2 { // LOCK_EX
						ex = true
					}
				}
			}
		})
		r.check(ex, rule, "AcquireExclusiveFileLock uses LOCK_EX", p.pos(acq.Pos()), fnName(acq), "mode constant is LOCK_EX", "the per-target lock is no longer exclusive")
		// release: unlock dominates close
		var un, cl ssa.Instruction
		eachInstr(rel, false, func(_ *ssa.Function, i ssa.Instruction) {
			if isCallTo(i, "syscall.Flock") {
				un = i
			}
			if isCallTo(i, "(*os.File).Close") {
				cl = i
			}
		})
		r.check(un != nil && cl != nil && instrDominates(un, cl), rule, "release unlocks then closes", p.pos(rel.Pos()), fnName(rel), "Flock(LOCK_UN) dominates Close", "ReleaseFileLock does not unlock before closing the descriptor")
	}
	// (5)
	rule = "E5.repo-lock"
	{
		sh := p.Fn("core", "AcquireSharedRepoLock")
		n := 0
		if sh != nil {
			n = len(p.callers(sh))
		}
		r.check(n > 0, rule, "the invocation takes the repo lock", "-", "", itoa(n)+" call site(s) of AcquireSharedRepoLock", "no code path takes the shared repo lock any more: plz clean / update can run under a build")
	}
}

// callsToClosure lists the call instructions in outer (and its closures) that invoke closure f.
func callsToClosure(outer, f *ssa.Function) []ssa.Instruction {
	var out []ssa.Instruction
	for _, g := range withAnon(outer) {
		eachInstr(g, false, func(_ *ssa.Function, i ssa.Instruction) {
			cc := callCommon(i)
			if cc != nil && resolveCalleeDeep(cc) == f && g == outer {
				out = append(out, i)
			}
		})
	}
	return out
}

// timeoutReportingRules: (a) a run that ended with any error (a timeout comes back as context.DeadlineExceeded, not as an
// exit status) and whose results file reports no failure gets a synthetic failure: the guard is runError != nil and
// Failures() == 0, not narrowed to a kind of error. (b) a test's timeout defaults to the [test] timeout of the
// configuration, the build's to the [build] one.
func (p *Prog) timeoutReportingRules(r *Report) {
	pto := p.Fn("test", "parseTestOutput")
	if pto == nil {
		r.unresolved("E5.timeout-kills", "test.parseTestOutput")
	} else {
		var runErr *ssa.Parameter
		for _, prm := range pto.Params {
			if prm.Name() == "runError" {
				runErr = prm
			}
		}
		n, narrowed := 0, ""
		eachInstr(pto, false, func(_ *ssa.Function, i ssa.Instruction) {
			c, ok := i.(*ssa.Call)
			if !ok || !strings.HasSuffix(calleeName(&c.Call), "TestSuite).Add") {
				return
			}
			// under Failures() == 0 ?
			underNoFailures := false
			for _, f := range factsAt(c) {
				if bo, ok := f.V.(*ssa.BinOp); ok && bo.Op == token.EQL && f.Val {
					if fc, ok := bo.X.(*ssa.Call); ok && strings.HasSuffix(calleeName(&fc.Call), ".Failures") {
						underNoFailures = true
					}
				}
			}
			if !underNoFailures {
				return
			}
			n++
			for _, f := range factsAt(c) {
				switch v := f.V.(type) {
				case *ssa.Call:
					if isCallTo(v, "errors.As", "errors.Is") {
						narrowed = calleeName(&v.Call)
					}
				case *ssa.Extract:
					if ta, ok := v.Tuple.(*ssa.TypeAssert); ok && runErr != nil && ta.X == ssa.Value(runErr) {
						narrowed = "a type assertion on runError"
					}
				}
			}
		})
		if n == 0 {
			r.unresolved("E5.timeout-kills", "the synthetic failure added under Failures() == 0 in parseTestOutput")
		} else {
			r.check(narrowed == "", "E5.timeout-kills", "any run error with no reported failure becomes a failure", p.pos(pto.Pos()), fnName(pto), "the synthetic failure is added under runError != nil && Failures() == 0, for every kind of error", "the synthetic failure for `the run failed but the results file reports no failure` is added only for some errors ("+narrowed+"): a test that wrote passing results and then overran its timeout comes back with context.DeadlineExceeded, gets no failure, and the timed-out (killed) test is reported as passed")
		}
	}
	ct := p.Fn("parse/asp", "createTarget")
	if ct == nil {
		r.unresolved("E10.timeout-defaults", "asp.createTarget")
		return
	}
	section := func(v ssa.Value) string {
		out := ""
		for x := range backSlice(v, SliceOpts{}) {
			if fa, ok := x.(*ssa.FieldAddr); ok {
				k := fieldKey(fa)
				if k == "core.Configuration.Test" {
					out += "Test "
				}
				if k == "core.Configuration.Build" {
					out += "Build "
				}
			}
		}
		return out
	}
	okT, okB, nT := false, false, 0
	eachInstr(ct, false, func(_ *ssa.Function, i ssa.Instruction) {
		st, ok := i.(*ssa.Store)
		if !ok {
			return
		}
		switch fieldKey(st.Addr) {
		case "core.TestFields.Timeout":
			nT++
			sec := section(st.Val)
			okT = strings.Contains(sec, "Test") && !strings.Contains(sec, "Build")
		case "core.BuildTarget.BuildTimeout":
			sec := section(st.Val)
			okB = strings.Contains(sec, "Build") && !strings.Contains(sec, "Test")
		}
	})
	if nT == 0 {
		r.unresolved("E10.timeout-defaults", "stores to Test.Timeout / BuildTimeout in createTarget")
		return
	}
	r.check(okT && okB, "E10.timeout-defaults", "test timeout defaults to [test] timeout, build timeout to [build] timeout", p.pos(ct.Pos()), fnName(ct), "each default is read from its own configuration section", "createTarget takes the default of a test's timeout from the wrong configuration section (e.g. [build] timeout for both): with `[test] timeout = 1m` a test without test_timeout or size runs on until the build timeout instead of being killed after a minute")
}
