package main

import (
	"go/token"
	"go/types"
	"strings"

	"golang.org/x/tools/go/ssa"
)

func init() {
	register("C21", []string{"./src/fs/...", "./src/parse/asp/..."}, checkC21)
}

// regexp metacharacters (RE2 syntax) and the glob operators that must keep their meaning
const regexMeta = "\\.+*?()|[]{}^$"
const globOps = "*?[]"

func checkC21(p *Prog, r *Report) {
	r.Explanation = "Structural clauses of glob(). (1) table agreement: on the regexp path (patterns containing **) toRegexString neutralises every regexp metacharacter that is not a glob operator — \\ . + ( ) | { } ^ $ — (constants of its strings.ReplaceAll / QuoteMeta calls), and leaves the bracket operators intact. (2) every match that is returned has passed, in Globber.glob, the sub-package test (isInDirectories false), the hidden test unless hidden files were asked for, and the exclude test (branch facts at the append). (3) isInDirectories is component-bounded (dir + \"/\" or equality). (4) the hidden test looks at directory components, not only at the base name. (5) the directory walk prunes sub-packages (SkipDir under the build-file test, never for the root package itself) and plz-out. (6) the cached walk depends only on what it is keyed by: every parameter of walkDir read by the walk callback is part of the walkedDirs key. (7) exclude patterns: a pattern without a slash is matched against the base name, every exclude is tried."
	r.NotCovered = []string{"equality with a reference matcher on generated trees", "semantics of filepath.Match and of the regexp engine", "symlink handling"}
	toRe := p.Fn("fs", "toRegexString")
	glob := p.Fn("fs", "Globber.glob")
	walkDir := p.Fn("fs", "Globber.walkDir")
	isIn := p.Fn("fs", "isInDirectories")
	isHidden := p.Fn("fs", "isHidden")
	shouldExcl := p.Fn("fs", "shouldExcludeMatch")
	if toRe == nil || glob == nil || walkDir == nil || isIn == nil || isHidden == nil || shouldExcl == nil {
		r.unresolved("E10.regex-metacharacters", "fs.toRegexString / Globber.glob / Globber.walkDir / isInDirectories / isHidden / shouldExcludeMatch")
		return
	}
	// (1)
	rule := "E10.regex-metacharacters"
	{
		neutralised := map[rune]bool{}
		quoteMeta := false
		unescaped := map[string]bool{}
		eachInstr(toRe, false, func(_ *ssa.Function, i ssa.Instruction) {
			c, ok := i.(*ssa.Call)
			if !ok {
				return
			}
			if isCallTo(c, "regexp.QuoteMeta") {
				quoteMeta = true
			}
			if isCallTo(c, "strings.ReplaceAll", "strings.Replace") {
				o, ok1 := constString(c.Call.Args[1])
				n, ok2 := constString(c.Call.Args[2])
				if ok1 && ok2 {
					if len(o) == 1 && n == "\\"+o {
						neutralised[rune(o[0])] = true
					}
					if len(o) == 2 && o[0] == '\\' {
						unescaped[o[1:]] = true // turns an escaped operator back into its translation
					}
				}
			}
		})
		missing := ""
		for _, ch := range regexMeta {
			if strings.ContainsRune(globOps, ch) {
				continue
			}
			if !neutralised[ch] && !quoteMeta {
				missing += string(ch)
			}
		}
		st := "discharged"
		if missing != "" {
			st = "violated"
		}
		r.add(Obligation{Rule: rule, Instance: "regexp metacharacters in file names are escaped", Site: p.pos(toRe.Pos()), Func: fnName(toRe), Status: st, Path: true, Key: rule + "|" + fnName(toRe) + "|escaped set",
			Detail: "toRegexString leaves " + strconvQuote(missing) + " unescaped: with a ** pattern `**/a(b).txt` matches ab.txt and not a(b).txt, `a|b` alternates, `$`/`^` anchor"})
		// today's escapes must stay
		for _, ch := range "+." {
			if !neutralised[ch] && !quoteMeta {
				r.bad(rule, "escape of "+string(ch)+" dropped", p.pos(toRe.Pos()), fnName(toRe), "toRegexString no longer escapes "+string(ch)+": `a.go` then also matches `axgo`")
			}
		}
		// glob operators keep their meaning
		brOK := !neutralised['['] && !neutralised[']'] && (!quoteMeta || (unescaped["["] && unescaped["]"]))
		r.check(brOK, rule, "[class] survives the translation", p.pos(toRe.Pos()), fnName(toRe), "brackets are not escaped (or are restored after QuoteMeta)", "the translation escapes [ and ] (e.g. through regexp.QuoteMeta) and does not restore them: `gen/**/[ab]?.go` matches nothing and as an exclude excludes nothing")
		// operator translations present: ? -> ., * -> [^/]*
		trans := map[string]string{}
		eachInstr(toRe, false, func(_ *ssa.Function, i ssa.Instruction) {
			if c, ok := i.(*ssa.Call); ok && isCallTo(c, "strings.ReplaceAll") {
				o, ok1 := constString(c.Call.Args[1])
				n, ok2 := constString(c.Call.Args[2])
				if ok1 && ok2 {
					trans[strings.TrimPrefix(o, "\\")] = n
				}
			}
		})
		r.check(trans["?"] == "." && trans["*"] == "[^/]*", rule, "? and * are translated within a path segment", p.pos(toRe.Pos()), fnName(toRe), "? -> . and * -> [^/]*", "`?`/`*` are not translated to single-segment matchers (.` and `[^/]*`): * would cross directory separators")
	}
	// (2)
	rule = "E5.match-filters"
	{
		var app *ssa.Call
		// the append into the result slice: the one control-dependent on shouldExcludeMatch
		eachInstrS(glob, func(_ *ssa.Function, i ssa.Instruction) {
			c, ok := i.(*ssa.Call)
			if !ok {
				return
			}
			if b, ok := c.Call.Value.(*ssa.Builtin); !ok || b.Name() != "append" {
				return
			}
			for _, f := range factsAt(c) {
				if e, ok := f.V.(*ssa.Extract); ok {
					if cc, ok := e.Tuple.(*ssa.Call); ok && callsFn(cc, shouldExcl) {
						app = c
					}
				}
			}
		})
		if app == nil {
			// fall back: last append whose result is returned
			r.bad(rule, "result append guarded by the exclude test", p.pos(glob.Pos()), fnName(glob), "no append in Globber.glob is control-dependent on shouldExcludeMatch: exclude patterns are not applied to the matches")
		} else {
			facts := factsAt(app)
			sub := callFact(facts, false, isIn) != nil
			var hiddenPrm *ssa.Parameter
			for _, prm := range app.Parent().Params { // (the filtering loop may be a private helper with its own parameter)
				if prm.Name() == "includeHidden" {
					hiddenPrm = prm
				}
			}
			// hidden: on every way to the append either includeHidden is true or isHidden(m) is false
			hid := blockJustified(app.Block(), func(f Fact) bool {
				if c, ok := f.V.(*ssa.Call); ok && callsFn(c, isHidden) && !f.Val {
					return true
				}
				return hiddenPrm != nil && f.V == ssa.Value(hiddenPrm) && f.Val
			}, 4)
			exc := false
			for _, f := range facts {
				if e, ok := f.V.(*ssa.Extract); ok && e.Index == 0 && !f.Val {
					if cc, ok := e.Tuple.(*ssa.Call); ok && callsFn(cc, shouldExcl) {
						exc = true
					}
				}
			}
			r.check(sub, rule, "files of sub-packages are dropped", p.pos(app.Pos()), fnName(glob), "append is on the false edge of isInDirectories(m, subPackages)", "a match can be returned without the sub-package test: glob() returns files that belong to another package")
			r.check(hid, rule, "hidden files are dropped unless asked for", p.pos(app.Pos()), fnName(glob), "every way to the append has includeHidden or !isHidden(m)", "a match can be returned without the hidden-file test although hidden files were not asked for")
			r.check(exc, rule, "excluded files are dropped", p.pos(app.Pos()), fnName(glob), "append is on the false edge of shouldExcludeMatch", "a match can be returned although an exclude pattern matched it")
		}
	}
	// (3)
	p.runPrefixRuleFns(r, "E1.prefixbound", []*ssa.Function{isIn}, 1)
	// (4)
	rule = "E5.hidden-components"
	{
		// structural test: the hidden predicate (or the walk callback) must look at something other than the
		// base name: a split of the path, a loop over components, or a DirEntry.Name() test in the walk
		componentAware := false
		eachInstr(isHidden, false, func(_ *ssa.Function, i ssa.Instruction) {
			if isCallTo(i, "strings.Split", "strings.SplitSeq", "strings.Contains", "strings.Index", "path/filepath.Dir", "strings.FieldsFunc", "strings.Cut") {
				componentAware = true
			}
		})
		for _, g := range withAnon(walkDir) {
			eachInstr(g, false, func(_ *ssa.Function, i ssa.Instruction) {
				c, ok := i.(*ssa.Call)
				if !ok || !isCallTo(c, "strings.HasPrefix") {
					return
				}
				if s, ok := constString(c.Call.Args[1]); ok && s == "." {
					for x := range backSlice(c.Call.Args[0], SliceOpts{}) {
						if cc, ok := x.(*ssa.Call); ok && cc.Call.IsInvoke() && cc.Call.Method.Name() == "Name" {
							componentAware = true
						}
					}
				}
			})
		}
		st := "discharged"
		if !componentAware {
			st = "violated"
		}
		r.add(Obligation{Rule: rule, Instance: "hidden test covers directory components", Site: p.pos(isHidden.Pos()), Func: fnName(isHidden), Status: st, Path: true, Key: rule + "|" + fnName(isHidden) + "|components",
			Detail: "isHidden only looks at filepath.Base(name) and the walk does not prune dot-directories: glob([\"**/*.txt\"]) returns .hidden/a.txt"})
	}
	// (5)
	rule = "E5.walk-prunes"
	{
		var cb *ssa.Function
		for _, ci := range callsIn(walkDir, false, "io/fs.WalkDir") {
			for _, a := range callCommon(ci).Args {
				if g := closureOfArg(a); g != nil && g.Parent() != nil {
					cb = g
				}
			}
		}
		if cb == nil {
			r.unresolved(rule, "WalkDir callback in Globber.walkDir")
		} else {
			isBF := p.Fn("fs", "isBuildFile")
			subSkip, plzSkip, rootKept := false, false, false
			for _, rc := range returnCases(cb, 0) {
				isSkip := false
				for x := range backSlice(rc.Vals[0], SliceOpts{}) {
					if g, ok := x.(*ssa.Global); ok && g.Name() == "SkipDir" {
						isSkip = true
					}
				}
				if !isSkip {
					continue
				}
				if callFact(rc.Facts, true, isBF) != nil {
					subSkip = true
					// and only when the package is not the root being globbed
					for _, f := range rc.Facts {
						if bo, ok := f.V.(*ssa.BinOp); ok && ((bo.Op == token.NEQ && f.Val) || (bo.Op == token.EQL && !f.Val)) {
							rootKept = true
						}
					}
				}
				for _, f := range rc.Facts {
					if bo, ok := f.V.(*ssa.BinOp); ok && bo.Op == token.EQL && f.Val {
						if s, ok := constString(bo.Y); ok && s == "plz-out" {
							plzSkip = true
						}
					}
				}
			}
			r.check(subSkip && rootKept, rule, "sub-packages are pruned, the globbed package is not", p.pos(cb.Pos()), fnName(cb), "SkipDir under isBuildFile && dir != root", "the walk does not prune directories that contain a BUILD file (or prunes the package being globbed)")
			r.check(plzSkip, rule, "plz-out is pruned", p.pos(cb.Pos()), fnName(cb), "SkipDir under name == \"plz-out\"", "the walk descends into plz-out")
		}
	}
	// (5b) the cached walk result is shared by every later pattern: nothing may overwrite its elements
	{
		rl := "E8.cached-walk-not-overwritten"
		var cachedD func(v ssa.Value, d int) bool
		cachedD = func(v ssa.Value, d int) bool {
			if d > 12 || v == nil {
				return false
			}
			switch x := v.(type) {
			case *ssa.Field:
				if st, ok := x.X.Type().Underlying().(*types.Struct); ok && strings.HasSuffix(typeString(x.X.Type()), "fs.walkedDir") {
					_ = st
					return true
				}
				return cachedD(x.X, d+1)
			case *ssa.UnOp:
				if x.Op != token.MUL {
					return false
				}
				if k := fieldKey(x.X); strings.HasPrefix(k, "fs.walkedDir.") {
					return true
				}
				if a, ok := x.X.(*ssa.Alloc); ok {
					for _, sv := range storesTo(a) {
						if cachedD(sv, d+1) {
							return true
						}
					}
				}
				return false
			case *ssa.Slice:
				return cachedD(x.X, d+1)
			case *ssa.Phi:
				for _, e := range x.Edges {
					if cachedD(e, d+1) {
						return true
					}
				}
				return false
			case *ssa.Call:
				if b, ok := x.Call.Value.(*ssa.Builtin); ok && b.Name() == "append" {
					return cachedD(x.Call.Args[0], d+1)
				}
				return false
			}
			return false
		}
		cached := func(v ssa.Value) bool { return cachedD(v, 0) }
		n, bad := 0, 0
		var site token.Pos
		for _, fn := range p.Funcs("fs") {
			if topFunc(fn).Name() == "walkDir" {
				continue // the function that fills the cache
			}
			eachInstr(fn, false, func(_ *ssa.Function, i ssa.Instruction) {
				switch x := i.(type) {
				case *ssa.Store:
					if ia, ok := x.Addr.(*ssa.IndexAddr); ok && cached(ia.X) {
						n++
						bad++
						site = x.Pos()
					}
				case *ssa.Call:
					b, ok := x.Call.Value.(*ssa.Builtin)
					if !ok || b.Name() != "append" || !cached(x.Call.Args[0]) {
						return
					}
					n++
					// appending behind the cached elements is harmless; appending onto a shortened view overwrites them
					for y := range backSlice(x.Call.Args[0], SliceOpts{}) {
						if sl, ok := y.(*ssa.Slice); ok && sl.High != nil && cached(sl.X) {
							bad++
							site = x.Pos()
						}
					}
				}
			})
		}
		r.check(bad == 0, rl, "no store into, or append onto a shortened view of, the cached file list", p.pos(site), "fs.Globber.glob", itoa(n)+" append/store site(s) on slices taken from the walk cache, none inside the cached length", "glob() filters in place on the slice held in the walk cache (`cached[:0]` + append, or an indexed store): every pattern overwrites the first entries of the cached listing with its own results, so later patterns and later glob() calls of the same BUILD file lose files or return duplicates")
	}
	p.globStateIsPerGlobber(r, "E7.walk-cache-is-per-globber")
	// the BUILD-language glob() looks at the file system through fs.Globber only: the package walk is what keeps
	// sub-packages, plz-out and symlinked directories out
	if gb := p.Fn("parse/asp", "glob"); gb == nil {
		r.unresolved("E7.glob-only-through-the-globber", "asp.glob")
	} else {
		direct := ""
		for _, g := range p.closure([]*ssa.Function{gb}, 2, inRepoPkgs("parse/asp")) {
			for _, gg := range withAnon(g) {
				eachInstr(gg, false, func(_ *ssa.Function, i ssa.Instruction) {
					if c, ok := i.(*ssa.Call); ok {
						switch n := calleeName(&c.Call); n {
						case "io/fs.ReadDir", "os.ReadDir", "os.Lstat", "os.Stat", "io/fs.Stat", "os.Open", "io/fs.WalkDir", "path/filepath.Walk", "path/filepath.WalkDir", "path/filepath.Glob", "io/fs.Glob":
							direct = n + " in " + gg.Name()
						}
					}
				})
			}
		}
		r.check(direct == "", "E7.glob-only-through-the-globber", "glob() does not read directories itself", p.pos(gb.Pos()), fnName(gb), "no direct directory / stat call in the builtin or its helpers", "the glob() builtin reads the file system directly ("+direct+") on some path (e.g. a fast path for patterns without wildcards) and so bypasses the package walk: glob([\"sub/c.txt\"]) returns a file that belongs to the nested package sub/, and files under plz-out or behind a symlinked directory leak in")
	}
	// a file system handed to the globber answers Stat for the link's target (io/fs.StatFS), so that a package directory
	// which is a symlink is still walked
	{
		lst := ""
		for _, fn := range p.Funcs("fs") {
			if fn.Name() != "Stat" || fn.Signature.Recv() == nil {
				continue
			}
			eachInstr(fn, false, func(_ *ssa.Function, i ssa.Instruction) {
				if c, ok := i.(*ssa.Call); ok && isCallTo(c, "os.Lstat") {
					lst = fnName(fn)
				}
			})
		}
		r.check(lst == "", "E9.statfs-follows-links", "no fs.FS implementation in package fs answers Stat with Lstat", "-", "fs", "Stat methods (if any) follow symlinks, as io/fs.StatFS requires", lst+" answers Stat with os.Lstat: io/fs.WalkDir asks the file system to stat its root, gets the link's own info for a package directory that is a symlink, does not treat it as a directory, and every glob in that package returns nothing")
	}
	// (6)
	rule = "E7.cache-key-covers-walk-inputs"
	{
		var prms []*ssa.Parameter
		for k, prm := range walkDir.Params {
			if k > 0 {
				prms = append(prms, prm)
			}
		}
		keyed := map[*ssa.Parameter]bool{}
		nUpd := 0
		eachInstr(walkDir, false, func(_ *ssa.Function, i ssa.Instruction) {
			mu, ok := i.(*ssa.MapUpdate)
			if !ok || fieldKeyOfLoad(mu.Map) != "fs.Globber.walkedDirs" {
				return
			}
			nUpd++
			for _, prm := range prms {
				if derivesFromValue(mu.Key, prm) {
					keyed[prm] = true
				}
			}
		})
		if nUpd == 0 {
			r.okTrivial(rule, "walk results are not cached", p.pos(walkDir.Pos()), fnName(walkDir), "no store into walkedDirs")
		}
		for _, prm := range prms {
			// is the parameter read by the walk (callback) at all?
			used := false
			for _, g := range walkDir.AnonFuncs {
				for _, fv := range g.FreeVars {
					if b := freeVarBinding(fv); b != nil {
						if resolveParam(b) == prm || b == ssa.Value(prm) {
							used = true
						}
					}
				}
			}
			if !used || nUpd == 0 {
				continue
			}
			r.check(keyed[prm], rule, "walk input "+prm.Name()+" is part of the cache key", p.pos(walkDir.Pos()), fnName(walkDir), "the walkedDirs key derives from it", "the cached directory walk depends on "+prm.Name()+" but is cached under a key that does not include it: the first glob() call in a package decides the answer for later calls with a different "+prm.Name())
		}
	}
	// (7)
	rule = "E5.exclude-semantics"
	{
		tried := false
		var exP *ssa.Parameter
		for _, prm := range shouldExcl.Params {
			if typeString(prm.Type()) == "[]string" {
				exP = prm
			}
		}
		for _, l := range sliceRangeLoops(shouldExcl) {
			if exP != nil && derivesFromValue(l.over, exP) {
				// (the per-pattern work may be a private helper that matches on every path)
				// (the per-pattern work may be a private helper; the loop goes on to the next pattern only when the helper
				// answered (false, nil), so those are the returns that must have passed Match)
				isMatch := func(i ssa.Instruction) bool {
					cc := callCommon(i)
					return cc != nil && cc.IsInvoke() && cc.Method.Name() == "Match"
				}
				tried = !l.iterationSkips(func(i ssa.Instruction) bool {
					if isMatch(i) {
						return true
					}
					c, ok := i.(*ssa.Call)
					if !ok {
						return false
					}
					g := c.Call.StaticCallee()
					if g == nil || g.Blocks == nil || !isSatelliteOf(g, shouldExcl) || g.Signature.Results().Len() != 2 {
						return false
					}
					for _, ret := range returnsOf(g) {
						r0, r1 := unspill(ret.Results[0]), unspill(ret.Results[1])
						if b, isC := constBool(r0); isC && b {
							continue // excluded: the caller returns
						}
						if !isNilConst(r1) && isSurelyNonNil(r1, condFacts(ret.Block())) {
							continue // error: the caller returns
						}
						if existsPath(g, nil, ret, isMatch) {
							return false
						}
					}
					return true
				})
			}
		}
		r.check(tried, rule, "every exclude pattern is matched", p.pos(shouldExcl.Pos()), fnName(shouldExcl), "each iteration over excludes reaches matcher.Match (or returns)", "an exclude pattern can be skipped without being matched against the file")
		base := false
		eachInstrS(shouldExcl, func(_ *ssa.Function, i ssa.Instruction) {
			if c, ok := i.(*ssa.Call); ok && isCallTo(c, "path/filepath.Base") {
				for _, f := range factsAt(c) {
					if cc, ok := f.V.(*ssa.Call); ok && isCallTo(cc, "strings.ContainsRune", "strings.Contains") && !f.Val {
						base = true
					}
				}
			}
		})
		r.check(base, rule, "slash-less excludes match the base name", p.pos(shouldExcl.Pos()), fnName(shouldExcl), "filepath.Base(match) is used on the edge where the exclude has no slash", "an exclude such as *_test.go is no longer applied to the base name of matches in sub-directories")
	}
}

// runPrefixRuleFns applies the component-boundary rule to the given functions only.
func (p *Prog) runPrefixRuleFns(r *Report, rule string, fns []*ssa.Function, floor int) {
	n := 0
	// sites the generic collector does not tag (plain string parameters): handle HasPrefix(name, dir+"/") directly
	for _, fn := range fns {
		// (closures and private helpers included: the loop may be slices.ContainsFunc(dirs, func(dir string) bool {...}))
		eachInstr(fn, true, func(_ *ssa.Function, i ssa.Instruction) {
			c, ok := i.(*ssa.Call)
			if !ok || !isCallTo(c, "strings.HasPrefix") {
				return
			}
			n++
			okb := false
			if bo, ok := c.Call.Args[1].(*ssa.BinOp); ok && bo.Op == token.ADD {
				if s, ok := constString(bo.Y); ok && strings.HasPrefix(s, "/") {
					okb = true
				}
			}
			if s, ok := constString(c.Call.Args[1]); ok && strings.HasSuffix(s, "/") {
				okb = true
			}
			r.check(okb, rule, fn.Name()+": HasPrefix(path, dir+\"/\")", p.pos(c.Pos()), fnName(fn), "needle ends with a separator", "directory prefix test without a trailing separator: files of a sibling directory sharing the prefix are treated as inside")
		})
	}
	if n < floor {
		r.unresolved(rule, "prefix tests in "+fnName(fns[0]))
	}
}

// globStateIsPerGlobber: directory listings are remembered in the Globber that made them and nowhere that outlives a
// parse: one process may parse the repository twice (`plz query changes --since` builds a before- and an after-graph), and
// a listing kept at package level would give the second parse the first one's files.
func (p *Prog) globStateIsPerGlobber(r *Report, rule string) {
	n, bad := 0, ""
	for _, fn := range p.Funcs("fs") {
		if p.fileOf(fn) != "glob.go" {
			continue
		}
		n++
		eachInstr(fn, false, func(_ *ssa.Function, i ssa.Instruction) {
			switch x := i.(type) {
			case *ssa.MapUpdate:
				if g, ok := rootOf(x.Map).(*ssa.Global); ok {
					bad = g.Name()
				}
			case *ssa.Store:
				if g, ok := x.Addr.(*ssa.Global); ok {
					bad = g.Name()
				}
			case *ssa.Call:
				n := calleeName(&x.Call)
				if (n == "(*sync.Map).Store" || n == "(*sync.Map).LoadOrStore") && len(x.Call.Args) > 0 {
					if g, ok := x.Call.Args[0].(*ssa.Global); ok {
						bad = g.Name()
					}
				}
			}
		})
	}
	if n == 0 {
		r.unresolved(rule, "functions of fs/glob.go")
		return
	}
	r.check(bad == "", rule, "glob keeps no state at package level", "-", "fs/glob.go", itoa(n)+" functions, none writes a package-level variable", "fs/glob.go writes package-level state ("+bad+", e.g. a process-wide cache of directory walks): a second parse in the same process (the after-graph of `plz query changes --since`, a watch cycle) sees the first parse's listing, so files added to or removed from a globbed directory are invisible and the targets that glob them drop out of the changed set")
}
