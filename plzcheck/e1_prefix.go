package main

import (
	"go/token"
	"go/types"
	"sort"
	"strings"

	"golang.org/x/tools/go/ssa"
)

// E1 prefixbound: a prefix/substring test between two package/directory paths
// must be component-bounded.

type pathSources struct {
	fields  map[*types.Var]string  // field identity -> tag
	walkCbs map[*ssa.Function]bool // callbacks passed to a directory walker: Params[0] is a path
}

var pathPassThrough = map[string]bool{
	"path/filepath.Join": true, "path/filepath.Dir": true, "path/filepath.Clean": true, "path/filepath.ToSlash": true, "path/filepath.FromSlash": true,
	"path.Join": true, "path.Dir": true, "path.Clean": true,
	"strings.TrimSuffix": true, "strings.TrimPrefix": true, "strings.TrimRight": true, "strings.TrimLeft": true, "strings.Trim": true,
	"strings.ToLower": true, "strings.Clone": true,
}

func (p *Prog) newPathSources() *pathSources {
	ps := &pathSources{fields: map[*types.Var]string{}, walkCbs: map[*ssa.Function]bool{}}
	add := func(v *types.Var, tag string) {
		if v != nil {
			ps.fields[v] = tag
		}
	}
	add(p.Field("core", "BuildLabel", "PackageName"), "BuildLabel.PackageName")
	add(p.Field("core", "Package", "Name"), "Package.Name")
	add(p.Field("core", "packageKey", "Name"), "packageKey.Name")
	// the directory cache keeps its protection marks keyed by entry paths under cache.Dir
	add(p.Field("cache", "dirCache", "Dir"), "dirCache.Dir")
	add(p.Field("cache", "dirCache", "added"), "dirCache.added keys")
	if parse := p.Field("core", "Configuration", "Parse"); parse != nil {
		if st, ok := parse.Type().Underlying().(*types.Struct); ok {
			for i := 0; i < st.NumFields(); i++ {
				switch st.Field(i).Name() {
				case "ExperimentalDir", "BlacklistDirs":
					add(st.Field(i), "Config.Parse."+st.Field(i).Name())
				}
			}
		}
	}
	walkers := []string{"fs.Walk", "fs.WalkMode", "path/filepath.Walk", "path/filepath.WalkDir", "io/fs.WalkDir"}
	for _, f := range p.allFuncs {
		eachInstr(f, false, func(_ *ssa.Function, i ssa.Instruction) {
			if !isCallTo(i, walkers...) {
				return
			}
			for _, a := range callCommon(i).Args {
				switch a := a.(type) {
				case *ssa.MakeClosure:
					ps.walkCbs[a.Fn.(*ssa.Function)] = true
				case *ssa.Function:
					ps.walkCbs[a] = true
				}
			}
		})
	}
	return ps
}

// tags returns the path-source tags v is derived from.
func (ps *pathSources) tags(p *Prog, v ssa.Value) []string {
	set := map[string]bool{}
	opts := SliceOpts{
		StopAtCall: func(c *ssa.Call) bool {
			n := calleeName(&c.Call)
			return !pathPassThrough[n]
		},
		Visit: func(x ssa.Value, in *ssa.Function) {
			if f := fieldOf(x); f != nil {
				if t, ok := ps.fields[f]; ok {
					set[t] = true
				}
			}
			if prm, ok := x.(*ssa.Parameter); ok {
				fn := prm.Parent()
				if ps.walkCbs[fn] && len(fn.Params) > 0 && fn.Params[0] == prm {
					set["walk-callback path"] = true
				}
			}
		},
	}
	backSlice(v, opts)
	var out []string
	for t := range set {
		out = append(out, t)
	}
	sort.Strings(out)
	return out
}

// callSiteArgs returns, for a parameter of fn (possibly reached through a
// FreeVar binding), the argument values at every call site in the program.
func (p *Prog) callSiteArgs(prm *ssa.Parameter) []ssa.Value {
	fn := prm.Parent()
	idx := -1
	for k, q := range fn.Params {
		if q == prm {
			idx = k
		}
	}
	var out []ssa.Value
	for _, f := range p.allFuncs {
		eachInstr(f, false, func(_ *ssa.Function, i ssa.Instruction) {
			cc := callCommon(i)
			if cc == nil || cc.StaticCallee() != fn {
				return
			}
			k := idx
			if fn.Signature.Recv() != nil && !cc.IsInvoke() {
				// static method call: receiver is Args[0]
			}
			if k >= 0 && k < len(cc.Args) {
				out = append(out, cc.Args[k])
			}
		})
	}
	return out
}

// resolveParam: if v is (a free variable bound to) a parameter, return it.
func resolveParam(v ssa.Value) *ssa.Parameter {
	for d := 0; d < 10; d++ {
		switch x := v.(type) {
		case *ssa.Parameter:
			return x
		case *ssa.FreeVar:
			b := freeVarBinding(x)
			if b == nil {
				return nil
			}
			v = b
		case *ssa.UnOp:
			if x.Op != token.MUL {
				return nil
			}
			v = x.X
		case *ssa.Alloc:
			st := storesTo(x)
			if len(st) != 1 {
				return nil
			}
			v = st[0]
		default:
			return nil
		}
	}
	return nil
}

// needleBounded decides whether needle p of a prefix test is component-bounded.
func (p *Prog) needleBounded(call *ssa.Call, h, n ssa.Value) (bool, string) {
	if s, ok := constString(n); ok {
		return true, "constant needle " + strconvQuote(s)
	}
	if b, ok := n.(*ssa.BinOp); ok && b.Op == token.ADD {
		if s, ok := constString(b.Y); ok && strings.HasSuffix(s, "/") {
			return true, "needle is x + " + strconvQuote(s)
		}
		// (x + "/") + y is not bounded; x + ("/" ...) handled above
	}
	if phi, ok := n.(*ssa.Phi); ok {
		all := true
		for _, e := range phi.Edges {
			if okb, _ := p.needleBounded(call, h, e); !okb {
				all = false
			}
		}
		if all {
			return true, "every phi edge bounded"
		}
	}
	// separator check after the prefix (the isBathPathOf idiom): some string
	// index on TrimPrefix(h, n) / h[len(n):] compared with '/'.
	fn := call.Parent()
	sep := false
	eachInstr(fn, false, func(_ *ssa.Function, i ssa.Instruction) {
		bo, ok := i.(*ssa.BinOp)
		if !ok || (bo.Op != token.EQL && bo.Op != token.NEQ) {
			return
		}
		for _, pair := range [][2]ssa.Value{{bo.X, bo.Y}, {bo.Y, bo.X}} {
			c, isC := constInt(pair[1])
			if !isC || c != '/' {
				continue
			}
			lk, ok := pair[0].(*ssa.Lookup)
			if !ok {
				continue
			}
			for x := range backSlice(lk.X, SliceOpts{}) {
				switch x := x.(type) {
				case *ssa.Call:
					if isCallTo(x, "strings.TrimPrefix") && len(x.Call.Args) == 2 && x.Call.Args[0] == h && x.Call.Args[1] == n {
						sep = true
					}
				case *ssa.Slice:
					if x.X == h {
						sep = true
					}
				}
			}
		}
	})
	if sep {
		return true, "followed by a separator check on the remainder (rest == \"\" || rest[0] == '/')"
	}
	// parameter bound to "" at every call site: tautology
	if prm := resolveParam(n); prm != nil {
		args := p.callSiteArgs(prm)
		if len(args) > 0 {
			allEmpty, allBounded := true, true
			for _, a := range args {
				if s, ok := constString(a); !ok || s != "" {
					allEmpty = false
				}
				if okb, _ := p.needleBounded(call, h, a); !okb {
					allBounded = false
				}
			}
			if allEmpty {
				return true, "needle parameter is the empty string at all call sites (tautology)"
			}
			if allBounded {
				return true, "needle parameter bounded at all call sites"
			}
		}
	}
	return false, ""
}

func strconvQuote(s string) string { return "\"" + s + "\"" }

type prefixSite struct {
	call   *ssa.Call
	fn     *ssa.Function
	callee string
	tagsH  []string
	tagsN  []string
	ok     bool
	why    string
}

// prefixSites finds every prefix/substring test between two path-derived
// values in the given functions.
func (p *Prog) prefixSites(funcs []*ssa.Function) []prefixSite {
	ps := p.newPathSources()
	var out []prefixSite
	for _, f := range funcs {
		eachInstr(f, false, func(in *ssa.Function, i ssa.Instruction) {
			c, ok := i.(*ssa.Call)
			if !ok || !isCallTo(c, "strings.HasPrefix", "strings.Contains", "strings.HasSuffix") || len(c.Call.Args) != 2 {
				return
			}
			h, n := c.Call.Args[0], c.Call.Args[1]
			th := ps.tags(p, h)
			if len(th) == 0 {
				return
			}
			tn := ps.tags(p, n)
			if len(tn) == 0 {
				// a needle that is a parameter: look at its call sites
				if prm := resolveParam(n); prm != nil {
					for _, a := range p.callSiteArgs(prm) {
						tn = append(tn, ps.tags(p, a)...)
					}
					if len(tn) == 0 && ps.walkCbs[in] {
						// inside a directory walk, a needle parameter of the enclosing function is a directory prefix
						tn = []string{"parameter " + prm.Name() + " of " + fnName(prm.Parent())}
					}
				}
			}
			if len(tn) == 0 {
				return
			}
			s := prefixSite{call: c, fn: in, callee: calleeName(&c.Call), tagsH: th, tagsN: tn}
			if s.callee == "strings.HasPrefix" {
				s.ok, s.why = p.needleBounded(c, h, n)
			} else if _, isC := constString(n); isC {
				s.ok, s.why = true, "constant needle"
			}
			out = append(out, s)
		})
	}
	return out
}

func (p *Prog) runPrefixRule(r *Report, rule string, funcs []*ssa.Function, floor int) {
	sites := p.prefixSites(funcs)
	perFn := map[string]int{}
	for _, s := range sites {
		inst := s.callee + "(" + strings.Join(s.tagsH, ",") + " ; " + strings.Join(s.tagsN, ",") + ")"
		key := rule + "|" + fnName(s.fn) + "|" + inst
		perFn[key]++
		if perFn[key] > 1 {
			key += "#" + string(rune('0'+perFn[key]))
		}
		o := Obligation{Rule: rule, Instance: inst, Site: p.pos(s.call.Pos()), Func: fnName(s.fn), Key: key, Path: true}
		if s.ok {
			o.Status, o.Detail = "discharged", s.why
		} else {
			o.Status = "violated"
			o.Detail = "prefix/substring test between two package/directory paths is not component-bounded: `//p/...` (or directory `p`) would also select sibling `pfoo`; needle must be x+\"/\" or be followed by a separator check"
		}
		r.add(o)
	}
	r.floor(rule, floor)
}

func init() {
	register("C20", []string{"./src/..."}, checkC20)
	register("C22", []string{"./src/..."}, checkC22)
}

func checkC20(p *Prog, r *Report) {
	r.Explanation = "E1 prefixbound over every function of the repository except the BUILD-file walker (C22): every strings.HasPrefix/Contains/HasSuffix whose two operands are both derived (SSA backward slice, through filepath/strings path helpers only) from package-path sources — field BuildLabel.PackageName, Package.Name, Config.Parse.ExperimentalDir/BlacklistDirs, the path parameter of a directory-walk callback — must have a component-bounded needle (x+\"/\", a constant sentinel, or a following separator check). Plus E5 path enumeration of BuildLabel.Includes/Matches and Package.IsIncludedIn: every path that returns true carries a package-equality fact, or a `...`-pattern fact together with an equality/bounded-prefix/root fact."
	r.NotCovered = []string{"label parse/print round trip (value property)", "patterns compared by means other than strings.HasPrefix/Contains/HasSuffix or == on the named fields"}
	var funcs []*ssa.Function
	walker := p.Fn("plz", "FindAllBuildFiles")
	for _, f := range p.allFuncs {
		top := f
		for top.Parent() != nil {
			top = top.Parent()
		}
		if top == walker && walker != nil {
			continue
		}
		funcs = append(funcs, f)
	}
	p.runPrefixRule(r, "E1.prefixbound", funcs, 4)
	p.patternReturnRule(r)
	p.subrepoCarriedRule(r)
	p.includesOperandRule(r)
	p.blacklistNotDerivedRule(r)
}

// blacklistNotDerivedRule: the BUILD-file walker matches blacklist entries by base name as well as by path (an entry
// `test` prunes every directory called test). That is the documented meaning of a *configured* entry; a value derived
// from a label pattern (//test/...) means one directory only, so nothing may append pattern-derived values to
// Config.Parse.BlacklistDirs.
func (p *Prog) blacklistNotDerivedRule(r *Report) {
	rule := "E7.blacklist-is-configuration-only"
	n := 0
	for _, f := range p.allFuncs {
		if !strings.HasPrefix(fnPkg(f), modPath+"/src/") {
			continue
		}
		eachInstr(f, false, func(_ *ssa.Function, i ssa.Instruction) {
			st, ok := i.(*ssa.Store)
			if !ok || !strings.HasSuffix(fieldKey(st.Addr), ".BlacklistDirs") {
				return
			}
			n++
			r.bad(rule, "Config.Parse.BlacklistDirs is written at run time", p.pos(st.Pos()), fnName(f), "code appends to the configured blacklist (e.g. the package of an --exclude //p/... pattern): the walker matches blacklist entries by base name too, so every directory called p anywhere in the tree is pruned and `//...` no longer selects those packages")
		})
	}
	if n == 0 {
		r.ok(rule, "the blacklist is only ever set by reading configuration", "-", "", "no store to Parse.BlacklistDirs in the repository's own code")
	}
}

// includesOperandRule: BuildLabel.Includes compares a pattern (receiver) with a concrete label or package
// (argument). Given a pattern as its argument it reads `//p/...` as a target called "..." in package p, so
// `//p:all`.Includes(`//p/...`) is true. No call site may pass a pattern: an element of a visibility list,
// of the include/exclude lists, or a parsed visibility string.
func (p *Prog) includesOperandRule(r *Report) {
	rule := "E7.includes-operand-is-concrete"
	patternSrc := []string{"core.BuildTarget.Visibility", "core.BuildState.Include", "core.BuildState.Exclude", "core.BuildState.ExcludeTargets", "call:parse/asp.parseVisibility", "core.Configuration.Gc.Keep", "core.BuildTarget.Requires", "core.BuildState.ExperimentalLabels"}
	n := 0
	for _, f := range p.allFuncs {
		if !strings.HasPrefix(fnPkg(f), modPath+"/src/") {
			continue
		}
		eachInstr(f, false, func(_ *ssa.Function, i ssa.Instruction) {
			c, ok := i.(*ssa.Call)
			if !ok || calleeName(&c.Call) != "(core.BuildLabel).Includes" || len(c.Call.Args) < 2 {
				return
			}
			n++
			tg := tagsOf(c.Call.Args[1], SliceOpts{StopAtCall: func(cc *ssa.Call) bool { return true }})
			bad := ""
			for _, s := range patternSrc {
				if tg[s] {
					bad = s
				}
			}
			r.check(bad == "", rule, "argument of Includes in "+topFunc(f).Name(), p.pos(c.Pos()), fnName(f), "the argument does not come from a list of patterns", "BuildLabel.Includes is asked whether a pattern covers another pattern (argument from "+bad+"): it treats `//p/...` as a target named `...` of package p, so `//p:all` is said to cover `//p/...` and the wider entry is dropped or ignored")
		})
	}
	if n < 6 {
		r.unresolved(rule, "call sites of BuildLabel.Includes (found "+itoa(n)+", expected at least 6)")
	}
}

// resultLeaves resolves result #idx of a value to the leaves it can come from, following calls into repository
// functions index-precisely (result idx of the callee's returns, parameters mapped back to the call's arguments).
// skip(ret) lets the caller ignore some returns of a callee (e.g. its failure returns).
func resultLeaves(v ssa.Value, depth int, skip func(*ssa.Return) bool) []ssa.Value {
	var out []ssa.Value
	seen := map[ssa.Value]bool{}
	var walk func(v ssa.Value, bind map[*ssa.Parameter]ssa.Value, d int)
	walk = func(v ssa.Value, bind map[*ssa.Parameter]ssa.Value, d int) {
		if v == nil || seen[v] {
			return
		}
		seen[v] = true
		switch x := v.(type) {
		case *ssa.Phi:
			for _, e := range x.Edges {
				walk(e, bind, d)
			}
		case *ssa.Parameter:
			if a, ok := bind[x]; ok {
				walk(a, nil, d)
				return
			}
			out = append(out, x)
		case *ssa.Extract:
			c, ok := x.Tuple.(*ssa.Call)
			g := (*ssa.Function)(nil)
			if ok {
				g = c.Call.StaticCallee()
			}
			if g == nil || g.Blocks == nil || d == 0 {
				out = append(out, x)
				return
			}
			nb := map[*ssa.Parameter]ssa.Value{}
			for k, prm := range g.Params {
				if k < len(c.Call.Args) {
					nb[prm] = c.Call.Args[k]
				}
			}
			for _, ret := range returnsOf(g) {
				if skip != nil && skip(ret) {
					continue
				}
				if x.Index < len(ret.Results) {
					walk(unspill(ret.Results[x.Index]), nb, d-1)
				}
			}
		default:
			out = append(out, v)
		}
	}
	walk(v, nil, depth)
	return out
}

// subrepoCarriedRule: a label written with a subrepo prefix keeps that subrepo whatever its package/name part looks like.
func (p *Prog) subrepoCarriedRule(r *Report) {
	rule := "E7.subrepo-carried"
	fn := p.Fn("core", "parseBuildLabelSubrepo")
	if fn == nil || len(fn.Params) < 1 {
		r.unresolved(rule, "core.parseBuildLabelSubrepo")
		return
	}
	target := fn.Params[0]
	failure := func(ret *ssa.Return) bool { // a return whose name result is the constant "" signals an invalid label
		if len(ret.Results) < 2 {
			return false
		}
		s, ok := constString(unspill(ret.Results[1]))
		return ok && s == ""
	}
	n, bad := 0, 0
	var site token.Pos
	for _, ret := range returnsOf(fn) {
		if failure(ret) || len(ret.Results) < 3 {
			continue
		}
		n++
		for _, leaf := range resultLeaves(unspill(ret.Results[2]), 2, failure) {
			ok := false
			// the subrepo must be (a slice of) the text this function was given
			for x := range backSlice(leaf, SliceOpts{NoCallArgs: true}) {
				if x == ssa.Value(target) {
					ok = true
				}
			}
			if !ok {
				bad++
				site = ret.Pos()
			}
		}
	}
	r.check(n >= 2 && bad == 0, rule, "parseBuildLabelSubrepo returns the subrepo prefix it parsed", p.pos(fn.Pos()), fnName(fn), itoa(n)+" successful returns; the subrepo result is always a slice of the label text", "on some successful path (return at "+p.pos(site)+") the subrepo of a label written as ///sub//pkg... comes from somewhere else than its own prefix (e.g. from a helper that returns \"\" for `//pkg/...`): the printed form of a subrepo wildcard label parses back to a label in the host repo")
}

// patternReturnRule: path-sensitive rule on the pattern predicates.
func (p *Prog) patternReturnRule(r *Report) {
	rule := "E5.pattern-true-needs-package-test"
	ps := p.newPathSources()
	isPkg := func(v ssa.Value) bool { return len(ps.tags(p, v)) > 0 }
	nameField := p.Field("core", "BuildLabel", "Name")
	isNameLoad := func(v ssa.Value) bool {
		for x := range backSlice(v, SliceOpts{StopAtCall: func(*ssa.Call) bool { return true }}) {
			if f := fieldOf(x); f != nil && f == nameField {
				return true
			}
		}
		return false
	}
	isEq := func(v ssa.Value) bool { // equality of two package paths, or whole-label equality
		b, ok := v.(*ssa.BinOp)
		if !ok || b.Op != token.EQL {
			return false
		}
		if isPkg(b.X) && isPkg(b.Y) {
			return true
		}
		// struct equality of two BuildLabels (label == other.Parent())
		if n, ok := b.X.Type().(*types.Named); ok && n.Obj().Name() == "BuildLabel" {
			return true
		}
		return false
	}
	isRoot := func(v ssa.Value) bool { // package path compared with "" or "."
		b, ok := v.(*ssa.BinOp)
		if !ok || b.Op != token.EQL {
			return false
		}
		for _, pr := range [][2]ssa.Value{{b.X, b.Y}, {b.Y, b.X}} {
			if s, ok := constString(pr[1]); ok && (s == "" || s == ".") && isPkg(pr[0]) {
				return true
			}
		}
		return false
	}
	isBoundedPrefix := func(v ssa.Value) bool {
		c, ok := v.(*ssa.Call)
		if !ok || !isCallTo(c, "strings.HasPrefix") {
			return false
		}
		okb, _ := p.needleBounded(c, c.Call.Args[0], c.Call.Args[1])
		return okb && isPkg(c.Call.Args[0])
	}
	isSubpkgs := func(v ssa.Value) bool {
		if c, ok := v.(*ssa.Call); ok && isCallTo(c, "(core.BuildLabel).IsAllSubpackages") {
			return true
		}
		if b, ok := v.(*ssa.BinOp); ok && b.Op == token.EQL {
			for _, pr := range [][2]ssa.Value{{b.X, b.Y}, {b.Y, b.X}} {
				if s, ok := constString(pr[1]); ok && s == "..." && isNameLoad(pr[0]) {
					return true
				}
			}
		}
		return false
	}
	for _, spec := range [][2]string{{"core", "BuildLabel.Includes"}, {"core", "BuildLabel.Matches"}, {"core", "Package.IsIncludedIn"}} {
		fn := p.Fn(spec[0], spec[1])
		if fn == nil {
			r.unresolved(rule, spec[0]+"."+spec[1])
			continue
		}
		paths, ok := enumeratePaths(fn, 4000)
		if !ok {
			r.bad(rule, spec[1], p.pos(fn.Pos()), fnName(fn), "too many paths to enumerate (analysis undecided)")
			continue
		}
		nTrue, bad := 0, 0
		rootTrue := false
		var badSite token.Pos
		for _, pa := range paths {
			if pa.Ret == nil || len(pa.Ret.Results) != 1 {
				continue
			}
			rv := pa.Resolve(pa.Ret.Results[0])
			if b, isC := constBool(rv); isC && !b {
				continue
			}
			nTrue++
			// facts on this path (+ the returned comparison itself when the result is a non-constant test)
			eq := pa.HasFact(true, isEq)
			root := pa.HasFact(true, isRoot)
			pre := pa.HasFact(true, isBoundedPrefix)
			sub := pa.HasFact(true, isSubpkgs)
			if _, isC := constBool(rv); !isC {
				// `return a || b`-style tail: the value itself is the last test
				eq = eq || isEq(rv)
				root = root || isRoot(rv)
				pre = pre || isBoundedPrefix(rv)
			}
			if root {
				rootTrue = true
			}
			if fn.Name() == "IsIncludedIn" {
				sub = true // by contract the argument is a `...` label (callers checked below by E1)
			}
			if eq || (sub && (root || pre)) {
				continue
			}
			bad++
			badSite = pa.Ret.Pos()
		}
		inst := spec[1] + ": every true-returning path has a package test"
		if nTrue == 0 {
			r.bad(rule, inst, p.pos(fn.Pos()), fnName(fn), "no path returns true (anchor changed shape; undecided)")
		} else if bad > 0 {
			r.bad(rule, inst, p.pos(badSite), fnName(fn), itoa(bad)+" of "+itoa(nTrue)+" true-returning paths have neither a package-equality fact nor (`...` fact and equality/bounded-prefix/root fact): the pattern would select targets outside its package tree")
		} else {
			r.ok(rule, inst, p.pos(fn.Pos()), fnName(fn), itoa(nTrue)+" true-returning paths of "+itoa(len(paths))+" enumerated, all justified")
		}
		// the dual, for the one pattern a bounded prefix cannot express: `//...` has an empty package, and ""+"/" prefixes no package name
		r.check(rootTrue, "E9.root-wildcard-handled", spec[1]+": the root pattern //... is answered by an explicit empty-package test", p.pos(fn.Pos()), fnName(fn), "a true-returning path carries the fact PackageName == \"\" (or \".\")", spec[1]+" decides `...` patterns by equality or HasPrefix(pkg, pattern+\"/\") only: for the root pattern //... the needle is \"/\", which prefixes no package name, so //... selects the root package alone (its sibling predicates special-case the empty package)")
	}
}

func checkC22(p *Prog, r *Report) {
	r.Explanation = "E1 prefixbound over package plz (label expansion: findOriginalTasks and helpers, FindAllBuildFiles and its walk callback with the blacklist and prefix tests) and presence of the prune conditions: the callback returns filepath.SkipDir under a test on core.OutDir, under a hidden-directory (\".\" prefix of the base name) test and inside the blacklist loop."
	r.NotCovered = []string{"the set of directories actually visited at run time", "completion helper in query/completions.go uses base-name equality (component exact by construction)"}
	fn := p.Fn("plz", "FindAllBuildFiles")
	if fn == nil {
		r.unresolved("E1.prefixbound", "plz.FindAllBuildFiles")
		return
	}
	funcs := p.closure([]*ssa.Function{fn}, 0, nil)
	var all []*ssa.Function
	var collect func(f *ssa.Function)
	collect = func(f *ssa.Function) {
		all = append(all, f)
		for _, a := range f.AnonFuncs {
			collect(a)
		}
	}
	for _, f := range funcs {
		collect(f)
	}
	for _, f := range p.Funcs("plz") {
		dup := false
		for _, g := range all {
			if g == f {
				dup = true
			}
		}
		if !dup {
			all = append(all, f)
		}
	}
	p.runPrefixRule(r, "E1.prefixbound", all, 2)
	p.blacklistNotDerivedRule(r)
	// label expansion strips the walked prefix from clean walk names: the prefix of a subrepo comes from Subrepo.Dir (which
	// cleans), never from the raw Root string as written in subrepo(path=...)
	{
		raw := ""
		for _, f := range p.Funcs("plz") {
			eachInstr(f, false, func(_ *ssa.Function, i ssa.Instruction) {
				if v, ok := i.(ssa.Value); ok && fieldKeyOfLoad(v) == "core.Subrepo.Root" {
					raw = fnName(f)
				}
			})
		}
		r.check(raw == "", "E7.subrepo-prefix-is-cleaned", "package plz reads a subrepo's directory through Subrepo.Dir only", "-", "plz", "no direct read of Subrepo.Root", raw+" uses Subrepo.Root as written (path = \"third_party/vendored/\" or \"./third_party/vendored\"): the walk yields clean names, stripping the unclean prefix fails, and `///sub//...` expands to packages with the subrepo's own path in their name")
	}
	// prune conditions
	rule := "E5.walk-prunes"
	var cb *ssa.Function
	ps := p.newPathSources()
	for _, f := range all {
		if ps.walkCbs[f] {
			cb = f
		}
	}
	if cb == nil {
		r.unresolved(rule, "walk callback of FindAllBuildFiles")
		return
	}
	isSkipDir := func(v ssa.Value) bool {
		for x := range backSlice(v, SliceOpts{}) {
			if g, ok := x.(*ssa.Global); ok && g.Name() == "SkipDir" {
				return true
			}
		}
		return false
	}
	// the walk is pruned for reasons that belong to the tree and the configuration only: no SkipDir is decided by a
	// callback handed in from outside (an `is this directory excluded` predicate prunes whole sub-trees that a pattern
	// such as //foo:all does not cover)
	{
		dyn := ""
		for _, ret := range returnsOf(cb) {
			if len(ret.Results) == 0 || !isSkipDir(ret.Results[0]) {
				continue
			}
			for _, f := range factsAt(ret) {
				if c, ok := f.V.(*ssa.Call); ok && c.Call.StaticCallee() == nil && !c.Call.IsInvoke() {
					if _, isB := c.Call.Value.(*ssa.Builtin); !isB {
						dyn = c.Call.Value.Name()
					}
				}
			}
		}
		r.check(dyn == "", rule, "no SkipDir is decided by a caller-supplied predicate", p.pos(cb.Pos()), fnName(cb), "every SkipDir return is under tests on the name, the configuration or the prefix", "the BUILD-file walker prunes a directory when a caller-supplied predicate ("+dyn+") says so: an `excluded` test built from --exclude //foo:all is true for the directory foo itself, the walk never descends, and //foo/bar, //foo/bar/baz vanish from `//...` although the exclude does not cover them")
	}
	type prune struct {
		name string
		pred func(v ssa.Value) bool
	}
	outDir := func(v ssa.Value) bool {
		b, ok := v.(*ssa.BinOp)
		if !ok || b.Op != token.EQL {
			return false
		}
		for _, x := range []ssa.Value{b.X, b.Y} {
			if s, ok := constString(x); ok && s == "plz-out" {
				return true
			}
		}
		return false
	}
	hidden := func(v ssa.Value) bool {
		c, ok := v.(*ssa.Call)
		if !ok || !isCallTo(c, "strings.HasPrefix") {
			return false
		}
		s, ok := constString(c.Call.Args[1])
		return ok && s == "."
	}
	blfield := func(v ssa.Value) bool {
		// any comparison / prefix test whose operands derive from Config.Parse.BlacklistDirs
		var ops []ssa.Value
		switch x := v.(type) {
		case *ssa.BinOp:
			ops = []ssa.Value{x.X, x.Y}
		case *ssa.Call:
			ops = x.Call.Args
		}
		for _, o := range ops {
			for _, t := range ps.tags(p, o) {
				if t == "Config.Parse.BlacklistDirs" {
					return true
				}
			}
		}
		return false
	}
	prunes := []prune{{"plz-out", outDir}, {"hidden directory", hidden}, {"blacklisted directory", blfield}}
	paths, ok := enumeratePaths(cb, 20000)
	if !ok {
		r.bad(rule, "enumerate", p.pos(cb.Pos()), fnName(cb), "too many paths")
		return
	}
	for _, pr := range prunes {
		found := false
		for _, pa := range paths {
			if pa.Ret == nil || len(pa.Ret.Results) == 0 {
				continue
			}
			rv := pa.Resolve(pa.Ret.Results[len(pa.Ret.Results)-1])
			if !isSkipDir(rv) {
				continue
			}
			if pa.HasFact(true, pr.pred) {
				found = true
				break
			}
		}
		r.check(found, rule, pr.name+" => SkipDir", p.pos(cb.Pos()), fnName(cb), "a SkipDir-returning path exists under this test", "no path of the walk callback returns filepath.SkipDir under the "+pr.name+" test: the directory would be descended into")
	}
	// blacklist / experimental entries are repo-relative: they must be compared with the walked path as the
	// walker reports it (or with its base name), not with a re-based or otherwise transformed copy
	rule = "E7.blacklist-operand"
	{
		namePrm := cb.Params[0]
		n, bad := 0, ""
		eachInstr(cb, false, func(_ *ssa.Function, i ssa.Instruction) {
			var ops []ssa.Value
			switch x := i.(type) {
			case *ssa.BinOp:
				if x.Op == token.EQL {
					ops = []ssa.Value{x.X, x.Y}
				}
			case *ssa.Call:
				if isCallTo(x, "strings.HasPrefix") {
					ops = x.Call.Args
				}
			}
			if len(ops) != 2 {
				return
			}
			for k, o := range ops {
				isBL := false
				for _, t := range ps.tags(p, o) {
					if t == "Config.Parse.BlacklistDirs" {
						isBL = true
					}
				}
				if !isBL {
					continue
				}
				other := ops[1-k]
				n++
				ok := other == ssa.Value(namePrm)
				if c, isC := other.(*ssa.Call); isC && isCallTo(c, "path/filepath.Base", "path.Base") && c.Call.Args[0] == ssa.Value(namePrm) {
					ok = true
				}
				if !ok {
					bad = describeValue(other)
				}
			}
		})
		r.check(n >= 2 && bad == "", rule, "blacklist entries are compared with the walked path itself (or its base name)", p.pos(cb.Pos()), fnName(cb), itoa(n)+" comparisons, each against the callback's path parameter or filepath.Base of it", "a blacklist entry is compared with "+bad+" instead of the repo-relative path the walker reports: when the expansion starts in a sub-directory (//third_party/...), multi-component entries such as third_party/js/node_modules never match")
	}
	// a directory is a package exactly when it holds a file whose name equals a configured BUILD file name
	rule = "E5.build-file-detection"
	{
		ibf := p.Fn("core", "Configuration.IsABuildFile")
		if ibf == nil {
			r.unresolved(rule, "core.Configuration.IsABuildFile")
		} else {
			nT, bad := 0, 0
			for _, rc := range returnCases(ibf, 0) {
				b, isC := constBool(rc.Vals[0])
				if isC && !b {
					continue
				}
				nT++
				exact := false
				for _, f := range rc.Facts {
					if bo, ok := f.V.(*ssa.BinOp); ok && bo.Op == token.EQL && f.Val {
						tx, ty := tagsOf(bo.X, SliceOpts{}), tagsOf(bo.Y, SliceOpts{})
						if (bo.X == ssa.Value(ibf.Params[1]) && hasSuffixKey(ty, ".BuildFileName")) || (bo.Y == ssa.Value(ibf.Params[1]) && hasSuffixKey(tx, ".BuildFileName")) {
							exact = true
						}
					}
				}
				if !exact {
					bad++
				}
			}
			r.check(nT > 0 && bad == 0, rule, "IsABuildFile is exact string equality with a configured name", p.pos(ibf.Pos()), fnName(ibf), "true only on `name == buildFileName`", "IsABuildFile accepts names that merely resemble a configured BUILD file name (case-insensitive / prefix / pattern match): a directory holding `build` or `Build.plz` is expanded as a package")
			// and the walker uses it on the base name of non-directories
			used := false
			eachInstr(cb, false, func(_ *ssa.Function, i ssa.Instruction) {
				if c, ok := i.(*ssa.Call); ok && callsFn(c, ibf) {
					if bc, ok := c.Call.Args[1].(*ssa.Call); ok && isCallTo(bc, "path/filepath.Base") {
						used = true
					}
				}
			})
			// the emission is guarded by exactly: a BUILD file name, not a directory, none of the skip conditions
			nSend := 0
			eachInstr(cb, false, func(_ *ssa.Function, i ssa.Instruction) {
				snd, ok := i.(*ssa.Send)
				if !ok {
					return
				}
				nSend++
				isBuild, notDir := false, false
				extra := ""
				facts := factsAt(snd)
				for _, f := range facts {
					facts = append(facts, shortCircuitFacts(f, 0)...) // `case a && b:` of a tagless switch is a phi
				}
				for _, f := range facts {
					switch v := f.V.(type) {
					case *ssa.Call:
						if callsFn(v, ibf) {
							if f.Val {
								isBuild = true
							}
							continue
						}
						if isCallTo(v, "strings.HasPrefix") || strings.HasSuffix(calleeName(&v.Call), "cli.ContainsString") {
							continue // negations of the directory skip rules
						}
						extra = calleeName(&v.Call)
					case *ssa.Parameter:
						if !f.Val && v.Name() == "isDir" {
							notDir = true
						}
					case *ssa.BinOp:
						// comparisons of the name with constants / the prefix (skip rules)
					case *ssa.Phi:
						if v.Comment == "&&" || v.Comment == "||" {
							continue // a case condition of a tagless switch: its operands are facts of their own when definite
						}
						extra = f.V.String()
					default:
						if fv := resolveParam(f.V); fv != nil && !f.Val {
							notDir = true
						} else {
							extra = f.V.String()
						}
					}
				}
				r.check(isBuild && notDir && extra == "", rule, "a BUILD file is emitted for every non-directory with a BUILD file name", p.pos(snd.Pos()), fnName(cb), "the send is guarded by IsABuildFile(base) and !isDir (as given by the walker) and by nothing else", "the walker emits a BUILD file under an extra or different condition ("+extra+"): entries the rest of Please accepts as a package's BUILD file (fs.IsPackage asks only for a non-directory, so a symlinked BUILD file counts) are not found by `...`")
			})
			if nSend == 0 {
				r.unresolved(rule, "channel send of the BUILD file name in the walk callback")
			}
			r.check(used, rule, "the walker tests the base name with IsABuildFile", p.pos(cb.Pos()), fnName(cb), "config.IsABuildFile(filepath.Base(name))", "the walker no longer recognises BUILD files through Configuration.IsABuildFile on the base name")
		}
	}
}

func hasSuffixKey(t map[string]bool, suffix string) bool {
	for k := range t {
		if strings.HasSuffix(k, suffix) {
			return true
		}
	}
	return false
}

func itoa(n int) string {
	if n == 0 {
		return "0"
	}
	neg := n < 0
	if neg {
		n = -n
	}
	var b []byte
	for n > 0 {
		b = append([]byte{byte('0' + n%10)}, b...)
		n /= 10
	}
	if neg {
		b = append([]byte{'-'}, b...)
	}
	return string(b)
}
