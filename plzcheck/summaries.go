package main

import (
	"go/token"

	"golang.org/x/tools/go/ssa"
)

// Summaries of private helpers, so that a rule about function F gives the same answer whether a piece of F is
// written inline or extracted into a helper (Min et al.: a wrapper "takes the lock" when all its paths do).
//
//  (1) path rules: a call of a satellite of F counts as an instruction that satisfies `avoid` when every path
//      through the satellite to a normal return executes one (must-summary), to depth 2.
//  (2) branch facts: a fact about the result of a same-package helper - `helper(x)` is true/false, its error is
//      nil/non-nil - implies the facts common to every return of the helper that can produce that result.

var summaryDepth = 0

func withCallSummaries(fn *ssa.Function, avoid func(ssa.Instruction) bool) func(ssa.Instruction) bool {
	if avoid == nil || sats == nil || sats.disabled || summaryDepth >= 2 {
		return avoid
	}
	top := topFunc(fn)
	return func(in ssa.Instruction) bool {
		if avoid(in) {
			return true
		}
		c, ok := in.(*ssa.Call)
		if !ok {
			return false
		}
		g := c.Call.StaticCallee()
		if g == nil || g.Blocks == nil || g == fn || !isSatelliteOf(g, top) {
			return false
		}
		summaryDepth++
		defer func() { summaryDepth-- }()
		if summaryAssume != nil {
			return !existsPathAssuming(g, nil, nil, avoid, summaryAssume)
		}
		return !existsPath(g, nil, nil, avoid)
	}
}

// summaryAssume: branch assumptions that also hold inside the summarised helpers (set around one query by the rule).
var summaryAssume map[ssa.Value]bool

type impliedKey struct {
	g    *ssa.Function
	idx  int
	kind byte // 'b' bool result, 'n' nil-ness of a result
	want bool
}

var impliedMemo = map[impliedKey][]Fact{}
var impliedBusy = map[*ssa.Function]bool{}

// callResult: v is the idx-th result of a static call of a function with a body.
func callResult(v ssa.Value) (*ssa.Call, int) {
	switch x := v.(type) {
	case *ssa.Call:
		if x.Call.Signature().Results().Len() == 1 {
			return x, 0
		}
	case *ssa.Extract:
		if c, ok := x.Tuple.(*ssa.Call); ok {
			return c, x.Index
		}
	}
	return nil, 0
}

func expandFacts(in []Fact) []Fact {
	if sats == nil || sats.disabled || len(in) == 0 {
		return in
	}
	out := in
	for _, f := range in {
		out = append(out, impliedFacts(f)...)
	}
	return out
}

// shortCircuitFacts: `switch { case a && b: }` (unlike `if a && b`) materialises the condition as a phi; the phi being
// true means control came along the one edge that does not carry the constant false, so the last operand is true and
// so is everything known in the block that evaluated it (dually for || being false).
func shortCircuitFacts(f Fact, depth int) []Fact {
	phi, ok := f.V.(*ssa.Phi)
	if !ok || depth > 3 || (phi.Comment != "&&" && phi.Comment != "||") {
		return nil
	}
	if (phi.Comment == "&&") != f.Val {
		return nil // a false && (a true ||) says nothing definite
	}
	var out []Fact
	n := 0
	for k, e := range phi.Edges {
		if b, isC := constBool(e); isC && b != f.Val {
			continue // the short-circuit edge
		}
		n++
		if n > 1 {
			return nil
		}
		nf := normFact(e, f.Val)
		out = append(out, nf)
		out = append(out, shortCircuitFacts(nf, depth+1)...)
		if k < len(phi.Block().Preds) {
			pred := phi.Block().Preds[k]
			fc := factsFor(pred.Parent())
			for _, iff := range fc.ifs {
				ib := iff.Block()
				if len(ib.Succs) != 2 || ib.Succs[0] == ib.Succs[1] {
					continue
				}
				for s := 0; s < 2; s++ {
					if fc.edgeDominates(ib, s, pred) {
						pf := normFact(iff.Cond, s == 0)
						out = append(out, pf)
						out = append(out, shortCircuitFacts(pf, depth+1)...)
					}
				}
			}
		}
	}
	return out
}

func impliedFacts(f Fact) []Fact {
	var c *ssa.Call
	var idx int
	kind, want := byte('b'), f.Val
	if x, eq, ok := isNilCmp(f.V); ok {
		c, idx = callResult(resolveLoad(x))
		kind, want = 'n', eq == f.Val // want: the result is nil
	} else {
		c, idx = callResult(f.V)
	}
	if c == nil {
		return nil
	}
	g := c.Call.StaticCallee()
	if g == nil || g.Blocks == nil || g.Pkg == nil || c.Parent() == nil || g.Pkg != topFunc(c.Parent()).Pkg || token.IsExported(g.Name()) || g.Parent() != nil {
		return nil
	}
	if idx >= g.Signature.Results().Len() {
		return nil
	}
	k := impliedKey{g, idx, kind, want}
	if r, ok := impliedMemo[k]; ok {
		return r
	}
	if impliedBusy[g] || len(impliedBusy) >= 2 {
		return nil
	}
	impliedBusy[g] = true
	defer delete(impliedBusy, g)
	var common map[Fact]bool
	n := 0
	for _, rc := range returnCases(g, idx) {
		v := rc.Vals[idx]
		possible := true
		if kind == 'b' {
			if b, isC := constBool(v); isC && b != want {
				possible = false
			}
		} else {
			switch {
			case isNilConst(v):
				possible = want
			case isSurelyNonNil(v, rc.Facts):
				possible = !want
			}
		}
		if !possible {
			continue
		}
		n++
		set := map[Fact]bool{}
		for _, cf := range rc.Facts {
			set[cf] = true
		}
		if common == nil {
			common = set
		} else {
			for cf := range common {
				if !set[cf] {
					delete(common, cf)
				}
			}
		}
	}
	var res []Fact
	if n > 0 {
		for _, rc := range returnCases(g, idx) { // keep a deterministic order
			for _, cf := range rc.Facts {
				if common[cf] {
					res = append(res, cf)
					delete(common, cf)
				}
			}
		}
	}
	impliedMemo[k] = res
	return res
}

// isSurelyNonNil: an error value that cannot be nil - built on the spot, or tested on the way.
func isSurelyNonNil(v ssa.Value, facts []Fact) bool {
	if _, mk := v.(*ssa.MakeInterface); mk || isResultOf(v, "fmt.Errorf", "errors.New") {
		return true
	}
	known, isNil := errKnown(facts, []ssa.Value{v})
	return known && !isNil
}
