package main

import (
	"go/token"
	"go/types"

	"golang.org/x/tools/go/ssa"
)

// E6 lockset: forward dataflow of the state of one mutex field over a
// function's CFG.

type lockState int

const (
	lsUnlocked lockState = iota
	lsRead
	lsWrite
	lsConflict // differs between predecessors
	lsUnset
)

func (s lockState) String() string {
	return [...]string{"unlocked", "read-locked", "write-locked", "inconsistent", "unset"}[s]
}

type lockInfo struct {
	before   map[ssa.Instruction]lockState
	deferred map[ssa.Instruction]bool // at this instruction a deferred unlock is registered on all paths
	relock   []ssa.Instruction        // Lock/RLock while already held
	badUnl   []ssa.Instruction        // Unlock in wrong state
	retHeld  []ssa.Instruction        // return while held without deferred unlock
	nLockOps int
}

// lockOp classifies an instruction as an operation on the mutex field.
func lockOp(i ssa.Instruction, field *types.Var) (op string, deferred bool) {
	cc := callCommon(i)
	if cc == nil || cc.IsInvoke() {
		return "", false
	}
	n := calleeName(cc)
	var which string
	switch n {
	case "(*sync.RWMutex).Lock", "(*sync.Mutex).Lock":
		which = "Lock"
	case "(*sync.RWMutex).RLock":
		which = "RLock"
	case "(*sync.RWMutex).Unlock", "(*sync.Mutex).Unlock":
		which = "Unlock"
	case "(*sync.RWMutex).RUnlock":
		which = "RUnlock"
	default:
		return "", false
	}
	if len(cc.Args) == 0 {
		return "", false
	}
	fa, ok := cc.Args[0].(*ssa.FieldAddr)
	if !ok || fieldOf(fa) == nil || !sameField(fieldOf(fa), field) {
		return "", false
	}
	_, isDefer := i.(*ssa.Defer)
	return which, isDefer
}

// sameField compares struct fields modulo generic instantiation (by position+name in the origin type).
func sameField(a, b *types.Var) bool {
	if a == b {
		return true
	}
	return a != nil && b != nil && a.Origin() == b.Origin()
}

func analyseLock(fn *ssa.Function, field *types.Var) *lockInfo {
	li := &lockInfo{before: map[ssa.Instruction]lockState{}, deferred: map[ssa.Instruction]bool{}}
	if len(fn.Blocks) == 0 {
		return li
	}
	type st struct {
		s   lockState
		def bool // a deferred unlock is pending
	}
	in := make([]st, len(fn.Blocks))
	for i := range in {
		in[i] = st{s: lsUnset}
	}
	in[0] = st{s: lsUnlocked}
	join := func(a, b st) st {
		if a.s == lsUnset {
			return b
		}
		if b.s == lsUnset {
			return a
		}
		r := a
		if a.s != b.s {
			r.s = lsConflict
		}
		r.def = a.def && b.def
		return r
	}
	transfer := func(b *ssa.BasicBlock, s st, record bool) st {
		for _, i := range b.Instrs {
			if record {
				li.before[i] = s.s
				li.deferred[i] = s.def
			}
			op, isDef := lockOp(i, field)
			switch {
			case op == "":
				if _, ok := i.(*ssa.Return); ok && record {
					if (s.s == lsRead || s.s == lsWrite) && !s.def {
						li.retHeld = append(li.retHeld, i)
					}
				}
			case isDef:
				if op == "Unlock" || op == "RUnlock" {
					s.def = true
				}
			case op == "Lock" || op == "RLock":
				if record {
					li.nLockOps++
					if s.s != lsUnlocked {
						li.relock = append(li.relock, i)
					}
				}
				if op == "Lock" {
					s.s = lsWrite
				} else {
					s.s = lsRead
				}
			case op == "Unlock":
				if record && s.s != lsWrite {
					li.badUnl = append(li.badUnl, i)
				}
				s.s = lsUnlocked
			case op == "RUnlock":
				if record && s.s != lsRead {
					li.badUnl = append(li.badUnl, i)
				}
				s.s = lsUnlocked
			}
		}
		return s
	}
	changed := true
	for iter := 0; changed && iter < 50; iter++ {
		changed = false
		for _, b := range fn.Blocks {
			out := transfer(b, in[b.Index], false)
			for _, sc := range b.Succs {
				n := join(in[sc.Index], out)
				if n != in[sc.Index] {
					in[sc.Index] = n
					changed = true
				}
			}
		}
	}
	for _, b := range fn.Blocks {
		if in[b.Index].s == lsUnset {
			continue // unreachable
		}
		transfer(b, in[b.Index], true)
	}
	return li
}

// derivesFromField: v's backward slice (no calls) contains a load of the given field.
func isMOf(v ssa.Value, field *types.Var) bool {
	if _, isMap := v.Type().Underlying().(*types.Map); !isMap {
		return false
	}
	return derivesFromField(v, field)
}

func derivesFromField(v ssa.Value, field *types.Var) bool {
	found := false
	backSlice(v, SliceOpts{StopAtCall: func(*ssa.Call) bool { return true }, Visit: func(x ssa.Value, _ *ssa.Function) {
		if f := fieldOf(x); f != nil && sameField(f, field) {
			found = true
		}
	}})
	return found
}

// isNilTest recognises v as `x.<field> == nil` (eq=true) or `!= nil`.
func isFieldNilTest(v ssa.Value, field *types.Var) (eq bool, ok bool) {
	x, eq, ok := isNilCmp(v)
	if !ok {
		return false, false
	}
	if !derivesFromField(x, field) {
		return false, false
	}
	return eq, true
}

func init() {
	register("C15", []string{"./src/cmap/..."}, checkC15)
}

func checkC15(p *Prog, r *Report) {
	r.Explanation = "E6 lockset over every function of package cmap: (1) every read of shard.m (lookup, range/next, len) happens with shard.l held in read or write mode and every write (map update, delete) in write mode, on all paths (forward dataflow of the lock state; deferred unlocks honoured); (2) lock balance: no Lock while held, no Unlock in the wrong mode, no return while held without a deferred unlock; (3) close discipline: every close of an entry's Wait channel is under the write lock, the channel comes from a lookup of shard.m, and the entry is overwritten in the same critical section; (4) no lost wake-up: on every enumerated path, a map update of shard.m is justified by a key-absent fact established in the same critical section, a Wait==nil fact, or a close of the looked-up entry's Wait channel on the same path; (5) placeholder awareness: every function that reads entries of shard.m and reports presence or values also tests the entry's Wait field; (6) ErrMap.GetOrSet: on the first-caller branch every normal path reaches Map.Set for the key."
	r.NotCovered = []string{"linearizability of whole histories", "fairness / timing of wake-ups", "panics inside the GetOrSet callback (analysed in DESIGN.md section 7 row 18: not a violation)"}
	mField := p.Field("cmap", "shard", "m")
	lField := p.Field("cmap", "shard", "l")
	waitField := p.Field("cmap", "awaitableValue", "Wait")
	if mField == nil || lField == nil || waitField == nil {
		r.unresolved("E6.guarded-access", "cmap.shard.m / shard.l / awaitableValue.Wait")
		return
	}
	funcs := p.Funcs("cmap")
	nAccessFns := 0
	for _, fn := range funcs {
		// collect accesses to shard.m
		type access struct {
			i     ssa.Instruction
			write bool
			what  string
		}
		var accs []access
		var closes []*ssa.Call
		isM := func(v ssa.Value) bool { return derivesFromField(v, mField) }
		eachInstr(fn, false, func(_ *ssa.Function, i ssa.Instruction) {
			switch x := i.(type) {
			case *ssa.Lookup:
				if _, isMap := x.X.Type().Underlying().(*types.Map); isMap && isM(x.X) {
					accs = append(accs, access{i, false, "lookup"})
				}
			case *ssa.MapUpdate:
				if isM(x.Map) {
					accs = append(accs, access{i, true, "map update"})
				}
			case *ssa.Range:
				if isM(x.X) {
					accs = append(accs, access{i, false, "range"})
				}
			case *ssa.Next:
				if rg, ok := x.Iter.(*ssa.Range); ok && isM(rg.X) {
					accs = append(accs, access{i, false, "range next"})
				}
			case *ssa.Call:
				if b, ok := x.Call.Value.(*ssa.Builtin); ok {
					switch b.Name() {
					case "len":
						if len(x.Call.Args) == 1 && isM(x.Call.Args[0]) {
							if _, isMap := x.Call.Args[0].Type().Underlying().(*types.Map); isMap {
								accs = append(accs, access{i, false, "len"})
							}
						}
					case "delete", "clear":
						if len(x.Call.Args) >= 1 && isM(x.Call.Args[0]) {
							accs = append(accs, access{i, true, b.Name()})
						}
					case "close":
						if len(x.Call.Args) == 1 && derivesFromField(x.Call.Args[0], waitField) {
							closes = append(closes, x)
						}
					}
				}
			}
		})
		li := analyseLock(fn, lField)
		if len(accs) == 0 && li.nLockOps == 0 && len(closes) == 0 {
			continue
		}
		// constructors initialise the map before the shard is shared: a store of a fresh map is not an access (not matched above)
		nAccessFns++
		for k, a := range accs {
			s := li.before[a.i]
			okk := s == lsWrite || (!a.write && s == lsRead)
			inst := a.what + " of shard.m #" + itoa(k+1)
			r.add(Obligation{Rule: "E6.guarded-access", Instance: inst, Site: p.pos(a.i.Pos()), Func: fnName(fn), Path: true,
				Status: map[bool]string{true: "discharged", false: "violated"}[okk],
				Detail: map[bool]string{true: "lock is " + s.String() + " on every path reaching this access", false: "shard.m " + a.what + " while shard.l is " + s.String() + " on some path: data race / torn map access"}[okk],
				Key:    "E6.guarded-access|" + fnName(fn) + "|" + a.what + "#" + itoa(k+1)})
		}
		bal := len(li.relock) == 0 && len(li.badUnl) == 0 && len(li.retHeld) == 0
		detail := itoa(li.nLockOps) + " lock operations balanced on all paths"
		site := p.pos(fn.Pos())
		if !bal {
			detail = ""
			for _, i := range li.relock {
				detail += "lock acquired while already held at " + p.pos(i.Pos()) + " (self-deadlock); "
				site = p.pos(i.Pos())
			}
			for _, i := range li.badUnl {
				detail += "unlock in state " + li.before[i].String() + " at " + p.pos(i.Pos()) + "; "
				site = p.pos(i.Pos())
			}
			for _, i := range li.retHeld {
				detail += "return with lock held and no deferred unlock at " + p.pos(i.Pos()) + "; "
				site = p.pos(i.Pos())
			}
		}
		if li.nLockOps > 0 {
			r.check(bal, "E6.lock-balance", "shard.l in "+fn.Name(), site, fnName(fn), detail, detail)
		}
		// close discipline
		for k, c := range closes {
			inst := "close(entry.Wait) #" + itoa(k+1)
			s := li.before[c]
			fromLookup := false
			var lk *ssa.Lookup
			for x := range backSlice(c.Call.Args[0], SliceOpts{StopAtCall: func(*ssa.Call) bool { return true }}) {
				if l, ok := x.(*ssa.Lookup); ok && isM(l.X) {
					fromLookup = true
					lk = l
				}
			}
			overwritten := false
			if lk != nil {
				for _, a := range accs {
					mu, ok := a.i.(*ssa.MapUpdate)
					if !ok || mu.Key != lk.Index {
						continue
					}
					// same critical section: one dominates the other and no unlock op in between on the dominance path (approximated: both write-locked and same function with a single Lock op)
					if (instrDominates(mu, c) || instrDominates(c, mu)) && li.before[mu] == lsWrite {
						overwritten = true
					}
				}
			}
			okk := s == lsWrite && fromLookup && overwritten
			why := "under write lock, channel read from shard.m[key], entry overwritten in the same critical section"
			if !okk {
				why = "close of a Wait channel must be under the write lock (is " + s.String() + "), on a channel read from shard.m in this function (" + boolStr(fromLookup) + ") and with shard.m[key] overwritten in the same critical section (" + boolStr(overwritten) + "): otherwise double close or a waiter that re-reads before the value is stored"
			}
			r.check(okk, "E6.close-discipline", inst, p.pos(c.Pos()), fnName(fn), why, why)
		}
		// no lost wake-up: path enumeration
		hasUpdate := false
		for _, a := range accs {
			if _, ok := a.i.(*ssa.MapUpdate); ok {
				hasUpdate = true
			}
		}
		if hasUpdate {
			paths, ok := enumeratePaths(fn, 5000)
			if !ok {
				r.bad("E5.no-lost-wakeup", fn.Name(), p.pos(fn.Pos()), fnName(fn), "too many paths (undecided)")
			} else {
				nUpd, nBad := 0, 0
				var badPos token.Pos
				for _, pa := range paths {
					instrs := pa.Instrs()
					for _, i := range instrs {
						mu, isMU := i.(*ssa.MapUpdate)
						if !isMU || !isM(mu.Map) {
							continue
						}
						nUpd++
						// the lookup that established absence must be in the same critical
						// section as the update: no release of shard.l between them on this path
						lastRelease, muIdx := -1, -1
						lookupIdx := map[*ssa.Lookup]int{}
						for n, j := range instrs {
							if j == i {
								muIdx = n
								break
							}
							if op, isDef := lockOp(j, lField); !isDef && (op == "Unlock" || op == "RUnlock") {
								lastRelease = n
							}
							if l, ok := j.(*ssa.Lookup); ok {
								lookupIdx[l] = n
							}
						}
						_ = muIdx
						absent := pa.HasFact(false, func(v ssa.Value) bool {
							ex, ok := v.(*ssa.Extract)
							if !ok || ex.Index != 1 {
								return false
							}
							l, ok := ex.Tuple.(*ssa.Lookup)
							if !ok || !isM(l.X) || l.Index != mu.Key {
								return false
							}
							n, seen := lookupIdx[l]
							return seen && n > lastRelease
						})
						// what is known about the entry (its Wait field) must have been read in the critical section
						// of the update: an entry read before the lock was last released may have been replaced since
						inSection := func(v ssa.Value) bool {
							found, fresh := false, true
							for x := range backSlice(v, SliceOpts{}) {
								if l, ok := x.(*ssa.Lookup); ok && isM(l.X) {
									found = true
									if n, seen := lookupIdx[l]; !seen || n <= lastRelease {
										fresh = false
									}
								}
							}
							return found && fresh
						}
						noWaiter := pa.HasFact(true, func(v ssa.Value) bool {
							eq, ok := isFieldNilTest(v, waitField)
							return ok && eq && inSection(v)
						}) || pa.HasFact(false, func(v ssa.Value) bool {
							eq, ok := isFieldNilTest(v, waitField)
							return ok && !eq && inSection(v)
						})
						closed := false
						for _, j := range instrs {
							if c, ok := j.(*ssa.Call); ok {
								if b, ok := c.Call.Value.(*ssa.Builtin); ok && b.Name() == "close" && derivesFromField(c.Call.Args[0], waitField) && inSection(c.Call.Args[0]) {
									closed = true
								}
							}
						}
						if !(absent || noWaiter || closed) {
							nBad++
							badPos = mu.Pos()
						}
					}
				}
				if nBad > 0 {
					r.bad("E5.no-lost-wakeup", "map update in "+fn.Name(), p.pos(badPos), fnName(fn), itoa(nBad)+" path(s) overwrite an entry that may carry a Wait channel without closing the channel of the entry as read in that critical section, and without a key-absent or Wait==nil fact from that section (an entry read before the lock was last released may have been replaced by a waiter's placeholder since): a goroutine blocked on that channel is never released")
				} else {
					r.ok("E5.no-lost-wakeup", "map update in "+fn.Name(), p.pos(fn.Pos()), fnName(fn), itoa(nUpd)+" (path, update) pairs over "+itoa(len(paths))+" paths justified by key-absent fact, Wait==nil fact or close on the path")
				}
			}
		}
		// placeholder awareness: functions returning something derived from an entry / presence
		readsEntries := false
		for _, a := range accs {
			if !a.write && (a.what == "lookup" || a.what == "range next") {
				readsEntries = true
			}
		}
		if readsEntries && fn.Signature.Results().Len()+boolInt(callsParamFunc(fn)) > 0 {
			aware := false
			eachInstr(fn, false, func(_ *ssa.Function, i ssa.Instruction) {
				if v, ok := i.(ssa.Value); ok {
					if f := fieldOf(v); f != nil && sameField(f, waitField) {
						aware = true
					}
				}
			})
			r.check(aware, "E9.placeholder-aware", "reader "+fn.Name(), p.pos(fn.Pos()), fnName(fn),
				"reads the Wait field of the entries it reports on",
				"reads entries of shard.m and reports presence/values without ever looking at the entry's Wait field: a placeholder inserted by a waiting Get is reported as if the key had been added")
		}
	}
	// add-or-get returns what the map holds: a (V, bool) function of the package that can
	// report "not inserted" must hand back the value it read from shard.m in that critical
	// section (or forward another such function's pair), never a value it constructed itself.
	nPair := 0
	for _, fn := range funcs {
		res := fn.Signature.Results()
		if fn.Parent() != nil || res.Len() != 2 || typeString(res.At(1).Type()) != "bool" {
			continue
		}
		if _, isTP := res.At(0).Type().(*types.TypeParam); !isTP && fn.Origin() == nil && fn.TypeParams().Len() == 0 {
			continue
		}
		nPair++
		bad := 0
		var site token.Pos
		for _, rc := range returnCases(fn, 1) {
			if b, isC := constBool(rc.Vals[1]); isC && b {
				continue // inserted: the value is the caller's own
			}
			v := rc.Vals[0]
			okv := false
			// forwarded pair
			if e0, ok := v.(*ssa.Extract); ok {
				if e1, ok := rc.Vals[1].(*ssa.Extract); ok && e0.Tuple == e1.Tuple {
					okv = true
				}
			}
			for x := range backSlice(v, SliceOpts{NoCallArgs: true}) {
				if l, ok := x.(*ssa.Lookup); ok && isMOf(l.X, mField) {
					okv = true
				}
			}
			if !okv {
				bad++
				site = rc.Site
			}
		}
		r.check(bad == 0, "E7.returns-map-state", fn.Name()+": value returned with inserted==false comes from the map", p.pos(fn.Pos()), fnName(fn),
			"every return that may report 'not inserted' returns the value looked up in shard.m (or forwards such a pair)",
			"can return (own value, false): the caller is told another goroutine's value is in the map but is handed a value that is not the one stored; in please the loser of SyncParsePackage/WaitForBuiltTarget then waits on a channel nobody closes (site "+p.pos(site)+")")
	}
	r.floor("E7.returns-map-state", 2)
	r.Stats["functions_touching_shard"] = nAccessFns
	r.floor("E6.guarded-access", 6)
	r.floor("E6.lock-balance", 3)
	r.floor("E6.close-discipline", 1)
	r.floor("E5.no-lost-wakeup", 2)
	r.floor("E9.placeholder-aware", 2)
	p.valuesVisitsEveryShard(r, "E5.values-complete")
	// Values reports every added entry it visits: in whatever function walks shard.m on behalf of Map.Values, an
	// iteration can leave a value out only because the entry is a waiter's placeholder (Wait != nil)
	if mv := p.Fn("cmap", "Map.Values"); mv == nil {
		r.unresolved("E5.values-complete", "cmap.Map.Values")
	} else {
		rl := "E5.values-complete"
		collects := func(i ssa.Instruction) bool {
			switch x := i.(type) {
			case *ssa.Call:
				b, ok := x.Call.Value.(*ssa.Builtin)
				return ok && b.Name() == "append"
			case *ssa.Store:
				_, isIdx := x.Addr.(*ssa.IndexAddr)
				return isIdx
			}
			return false
		}
		nLoops := 0
		for _, g := range p.closure([]*ssa.Function{mv}, 3, inRepoPkgs("cmap")) {
			for _, gg := range withAnon(g) {
				// (a) a range over shard.m that collects values
				for _, l := range mapRangeLoops(gg) {
					hasCollect := false
					for b := range l.blocks {
						for _, i := range b.Instrs {
							if collects(i) {
								hasCollect = true
							}
						}
					}
					if !hasCollect {
						continue
					}
					nLoops++
					// walk one iteration; at a test of the entry's Wait field only the "added" side is followed
					skip := false
					seen := map[*ssa.BasicBlock]bool{}
					st := []*ssa.BasicBlock{l.body}
					for len(st) > 0 && !skip {
						b := st[len(st)-1]
						st = st[:len(st)-1]
						if seen[b] {
							continue
						}
						seen[b] = true
						if b == l.header {
							skip = true
							break
						}
						if !l.blocks[b] {
							continue
						}
						blocked := false
						for _, i := range b.Instrs {
							if collects(i) {
								blocked = true
							}
						}
						if blocked {
							continue
						}
						succs := b.Succs
						if iff, ok := lastIf(b); ok && len(succs) == 2 {
							if eq, ok := isFieldNilTest(iff.Cond, waitField); ok {
								if eq {
									succs = succs[:1]
								} else {
									succs = succs[1:]
								}
							}
						}
						st = append(st, succs...)
					}
					r.check(!skip, rl, gg.Name()+" collects every added entry of the shard", p.pos(gg.Pos()), fnName(gg), "an iteration over shard.m leaves a value out only when the entry is a placeholder", "the walk that collects the map's values can skip an entry that has been added (e.g. a result buffer sized in an earlier sweep is full): a key present throughout the call is missing from Values()")
				}
				// (b) a callback that receives each value and stores it
				if gg.Parent() != nil && len(gg.Params) > 0 {
					stores := false
					eachInstr(gg, false, func(_ *ssa.Function, i ssa.Instruction) { stores = stores || collects(i) })
					if stores && topFunc(gg) == mv {
						nLoops++
						r.check(!existsPath(gg, nil, nil, collects), rl, gg.Name()+" keeps every value it is handed", p.pos(gg.Pos()), fnName(gg), "no return without storing the value", "the callback that collects values for Values() drops some of them (a cut-off against a length counted earlier): values of keys that were present throughout the call are lost when other keys are added concurrently")
					}
				}
			}
		}
		if nLoops == 0 {
			r.unresolved(rl, "the loop or callback that collects values for Map.Values")
		}
	}

	// ErrMap.GetOrSet first-caller rule
	rule := "E5.first-caller-sets"
	gos := p.Fn("cmap", "ErrMap.GetOrSet")
	if gos == nil {
		r.unresolved(rule, "cmap.ErrMap.GetOrSet")
		return
	}
	paths, ok := enumeratePaths(gos, 5000)
	if !ok {
		r.bad(rule, "GetOrSet", p.pos(gos.Pos()), fnName(gos), "too many paths")
		return
	}
	nFirst, nBad := 0, 0
	for _, pa := range paths {
		first := pa.HasFact(true, func(v ssa.Value) bool {
			ex, ok := v.(*ssa.Extract)
			if !ok || ex.Index != 2 {
				return false
			}
			c, ok := ex.Tuple.(*ssa.Call)
			return ok && callsFn(c, p.Fn("cmap", "Map.GetOrWait"), p.Fn("cmap", "shard.Get"))
		})
		if !first {
			continue
		}
		nFirst++
		sets := false
		for _, i := range pa.Instrs() {
			if callsFn(i, p.Fn("cmap", "Map.Set"), p.Fn("cmap", "ErrMap.Set"), p.Fn("cmap", "ErrMap.SetError"), p.Fn("cmap", "shard.Set")) {
				sets = true
			}
		}
		if !sets {
			nBad++
		}
	}
	if nFirst == 0 {
		r.bad(rule, "GetOrSet", p.pos(gos.Pos()), fnName(gos), "no path carries a first-caller fact (anchor changed shape; undecided)")
	} else {
		r.check(nBad == 0, rule, "GetOrSet first branch reaches Set", p.pos(gos.Pos()), fnName(gos),
			itoa(nFirst)+" first-caller paths all store a value/error for the key",
			itoa(nBad)+" first-caller path(s) return without storing a value or error for the key: every other caller waits on the placeholder channel forever")
	}
}

func boolStr(b bool) string {
	if b {
		return "yes"
	}
	return "no"
}

func boolInt(b bool) int {
	if b {
		return 1
	}
	return 0
}

// callsParamFunc: fn calls one of its own function-typed parameters (a visitor).
func callsParamFunc(fn *ssa.Function) bool {
	found := false
	eachInstr(fn, false, func(_ *ssa.Function, i ssa.Instruction) {
		if cc := callCommon(i); cc != nil {
			if prm, ok := cc.Value.(*ssa.Parameter); ok && prm.Parent() == fn {
				found = true
			}
		}
	})
	return found
}

// valuesVisitsEveryShard: Map.Values and Map.Range go over all shards: every loop that indexes m.shards in them is
// bounded by len(m.shards) itself (not by the mask, a count taken elsewhere, or a constant).
func (p *Prog) valuesVisitsEveryShard(r *Report, rule string) {
	for _, name := range []string{"Map.Values", "Map.Range"} {
		fn := p.Fn("cmap", name)
		if fn == nil {
			r.unresolved(rule, "cmap."+name)
			continue
		}
		n, bad := 0, 0
		for _, g := range withAnon(fn) {
			eachInstr(g, false, func(_ *ssa.Function, i ssa.Instruction) {
				ia, ok := i.(*ssa.IndexAddr)
				if !ok || fieldKeyOfLoad(ia.X) != "cmap.Map.shards" {
					return
				}
				n++
				// the enclosing loop's bound
				okb := false
				for _, l := range sliceRangeLoops(g) {
					if l.blocks[ia.Block()] && fieldKeyOfLoad(l.over) == "cmap.Map.shards" {
						okb = true
					}
				}
				if !okb {
					bad++
				}
			})
		}
		if n == 0 {
			// a range over m.shards by value has no IndexAddr on the field: fine if such a loop exists
			for _, g := range withAnon(fn) {
				for _, l := range sliceRangeLoops(g) {
					if fieldKeyOfLoad(l.over) == "cmap.Map.shards" {
						n++
					}
				}
			}
		}
		// and the sweep cannot be bypassed: no return before the loop over the shards (a side flag such as "nothing was
		// ever added" is not updated under the shard locks, so a reader that has seen a key added can still see it unset)
		bypass := false
		for _, l := range sliceRangeLoops(fn) {
			if fieldKeyOfLoad(l.over) != "cmap.Map.shards" || len(l.header.Instrs) == 0 {
				continue
			}
			for _, ret := range returnsOf(fn) {
				if !instrDominates(l.header.Instrs[0], ret) {
					bypass = true
				}
			}
		}
		r.check(!bypass, rule, name+" cannot return without sweeping the shards", p.pos(fn.Pos()), fnName(fn), "the loop over m.shards dominates every return", name+" can return before looking at the shards (e.g. on a `populated` flag that is set only after the insert has completed and its waiters were woken): a goroutine released for a key then calls "+name+" and does not find it")
		r.check(n > 0 && bad == 0, rule, name+" visits every shard", p.pos(fn.Pos()), fnName(fn), "every access m.shards[i] is inside a loop bounded by len(m.shards)", name+" indexes the shards inside a loop that is not bounded by len(m.shards) (e.g. by the mask, which is one less): the last shard is never visited, so targets that hash into it are missing from AllTargets() - never used as roots by the cycle detector, never listed by queries")
	}
}
