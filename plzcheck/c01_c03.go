package main

import (
	"go/token"
	"strings"

	"golang.org/x/tools/go/ssa"
)

func init() {
	register("C01", []string{"./src/..."}, checkC01)
	register("C03", []string{"./src/..."}, checkC03)
}

// gateAnchors: the up-to-date predicate and what it compares.
type gateAnchors struct {
	needs, readX, ruleHash, sourceHash, secretHash, writeRule, targetHash *ssa.Function
	fileExists, pathExists, outputs, shouldRebuild                        *ssa.Function
	hashFn, moveOutput, moveOutputs, moveHash, buildTarget                *ssa.Function
}

func (p *Prog) gate(r *Report, rule string) *gateAnchors {
	a := &gateAnchors{
		needs:         p.Fn("build", "needsBuilding"),
		readX:         p.Fn("build", "readRuleHashFromXattrs"),
		ruleHash:      p.Fn("build", "RuleHash"),
		sourceHash:    p.Fn("build", "sourceHash"),
		secretHash:    p.Fn("build", "secretHash"),
		writeRule:     p.Fn("build", "writeRuleHash"),
		targetHash:    p.Fn("build", "targetHash"),
		fileExists:    p.Fn("fs", "FileExists"),
		pathExists:    p.Fn("fs", "PathExists"),
		outputs:       p.Fn("core", "BuildTarget.Outputs"),
		shouldRebuild: p.Fn("core", "BuildState.ShouldRebuild"),
		hashFn:        p.Fn("fs", "PathHasher.Hash"),
		moveOutput:    p.Fn("build", "moveOutput"),
		moveOutputs:   p.Fn("build", "moveOutputs"),
		moveHash:      p.Fn("fs", "PathHasher.MoveHash"),
		buildTarget:   p.Fn("build", "buildTarget"),
	}
	// the predicate is found by identity: the bool function of package build that calls readRuleHashFromXattrs
	if a.readX != nil {
		for _, fn := range p.Funcs("build") {
			res := fn.Signature.Results()
			if fn.Parent() == nil && res.Len() == 1 && typeString(res.At(0).Type()) == "bool" && len(callsInFn(fn, a.readX)) > 0 {
				a.needs = fn
			}
		}
	}
	miss := ""
	for n, f := range map[string]*ssa.Function{"needsBuilding": a.needs, "readRuleHashFromXattrs": a.readX, "RuleHash": a.ruleHash, "sourceHash": a.sourceHash, "secretHash": a.secretHash, "writeRuleHash": a.writeRule, "targetHash": a.targetHash,
		"fs.FileExists": a.fileExists, "fs.PathExists": a.pathExists, "Outputs": a.outputs, "ShouldRebuild": a.shouldRebuild, "PathHasher.Hash": a.hashFn, "moveOutput": a.moveOutput, "moveOutputs": a.moveOutputs, "MoveHash": a.moveHash, "buildTarget": a.buildTarget} {
		if f == nil {
			miss += n + " "
		}
	}
	if miss != "" {
		r.unresolved(rule, "build gate anchors: "+miss)
		return nil
	}
	return a
}

// hashComparison is one bytes.Equal in the gate: which stored part vs which fresh value.
type hashComparison struct {
	call *ssa.Call
	part string // config | rule | source | secret
	ok   bool   // the other operand is the matching fresh hash
	why  string
}

func (p *Prog) gateComparisons(a *gateAnchors) []hashComparison {
	var out []hashComparison
	eachInstr(a.needs, false, func(_ *ssa.Function, i ssa.Instruction) {
		c, ok := i.(*ssa.Call)
		if !ok || !isCallTo(c, "bytes.Equal") || len(c.Call.Args) != 2 {
			return
		}
		t0 := tagsOf(c.Call.Args[0], SliceOpts{NoCallArgs: true})
		t1 := tagsOf(c.Call.Args[1], SliceOpts{NoCallArgs: true})
		for _, part := range []string{"config", "rule", "source", "secret"} {
			key := "build.ruleHashes." + part
			var other map[string]bool
			switch {
			case t0[key] && !t1[key]:
				other = t1
			case t1[key] && !t0[key]:
				other = t0
			default:
				continue
			}
			hc := hashComparison{call: c, part: part}
			switch part {
			case "config":
				hc.ok = hasTag(other, "core.BuildState.Hashes") || hasTag(other, "core.TargetHashes.Config") || hasTag(other, "struct.Config")
				for k := range other {
					if strings.HasSuffix(k, ".Config") {
						hc.ok = true
					}
				}
			case "rule":
				hc.ok = hasTag(other, "call:build.RuleHash")
			case "source":
				hc.ok = hasTag(other, "call:build.sourceHash")
			case "secret":
				hc.ok = hasTag(other, "call:build.secretHash")
			}
			hc.why = "other operand derives from {" + tagList(other) + "}"
			out = append(out, hc)
		}
	})
	return out
}

// gateRules are shared by C01 (no false "up to date") and C03 (no spurious rebuild).
func (p *Prog) gateRules(r *Report, a *gateAnchors, wantC01, wantC03 bool) {
	nb := a.needs
	comps := p.gateComparisons(a)
	byPart := map[string]hashComparison{}
	for _, c := range comps {
		if c.ok {
			byPart[c.part] = c
		}
	}
	cases := returnCases(nb, 0)
	if wantC01 {
		rule := "E5.gate-completeness"
		for _, part := range []string{"config", "rule", "source", "secret"} {
			hc, ok := byPart[part]
			if !ok {
				why := "no bytes.Equal between the stored " + part + " hash (readRuleHashFromXattrs) and the freshly computed one"
				for _, c := range comps {
					if c.part == part {
						why = "the stored " + part + " hash is compared with something else: " + c.why
					}
				}
				r.bad(rule, "stored "+part+" hash compared with current", p.pos(nb.Pos()), fnName(nb), why+": a change of the "+part+" inputs leaves the target 'up to date'")
				continue
			}
			// every way of not returning constant true carries the equality fact
			nBad := 0
			var site token.Pos
			for _, rc := range cases {
				if b, isC := constBool(rc.Vals[0]); isC && b {
					continue
				}
				if !hasFact(rc.Facts, true, func(v ssa.Value) bool { return v == hc.call }) {
					nBad++
					site = rc.Site
				}
			}
			r.check(nBad == 0, rule, "stored "+part+" hash compared with current", p.pos(hc.call.Pos()), fnName(nb),
				"every return that can say 'no need to build' is dominated by the equality edge of this comparison; "+hc.why,
				"a return at "+p.pos(site)+" can report 'up to date' without the "+part+" hashes having compared equal")
			// and the inequality edge says rebuild
			nBad = 0
			for _, rc := range cases {
				if hasFact(rc.Facts, false, func(v ssa.Value) bool { return v == hc.call }) {
					if b, isC := constBool(rc.Vals[0]); !isC || !b {
						nBad++
						site = rc.Site
					}
				}
			}
			r.check(nBad == 0, rule, part+" mismatch => rebuild", p.pos(hc.call.Pos()), fnName(nb), "the inequality edge returns true", "the inequality edge of the "+part+" comparison does not return true (return at "+p.pos(site)+")")
		}
		// errors of the fresh hashes mean rebuild
		for _, hf := range []*ssa.Function{a.sourceHash, a.secretHash} {
			for _, ci := range callsInFn(nb, hf) {
				c, ok := ci.(*ssa.Call)
				if !ok {
					continue
				}
				errs := resultsOf(c, 1)
				nBad := 0
				for _, rc := range cases {
					if b, isC := constBool(rc.Vals[0]); isC && b {
						continue
					}
					if known, isNil := errKnown(rc.Facts, errs); !known || !isNil {
						nBad++
					}
				}
				r.check(nBad == 0, rule, hf.Name()+" error => rebuild", p.pos(c.Pos()), fnName(nb), "'no need to build' requires err == nil", "'no need to build' can be returned although "+hf.Name()+" failed (inputs could not be hashed)")
			}
		}
		// metadata file must exist
		{
			nBad := 0
			for _, rc := range cases {
				if b, isC := constBool(rc.Vals[0]); isC && b {
					continue
				}
				if callFact(rc.Facts, true, a.fileExists, a.pathExists) == nil {
					nBad++
				}
			}
			r.check(nBad == 0, rule, "metadata file exists", p.pos(nb.Pos()), fnName(nb), "'no need to build' requires the metadata file existence test to have succeeded", "'no need to build' can be returned without the build metadata file existing (buildTarget then loads it unconditionally)")
		}
		// outputs exist: the final decision is only reached through the loop over Outputs()
		{
			var finals []ssa.Instruction
			for _, ret := range returnsOf(nb) {
				v := unspill(ret.Results[0])
				if b, isC := constBool(v); isC && b {
					continue
				}
				finals = append(finals, ret)
			}
			nBad := 0
			for _, f := range finals {
				if existsPath(nb, nil, f, func(i ssa.Instruction) bool { return callsFn(i, a.outputs) }) {
					nBad++
				}
			}
			sawExists := false
			eachInstr(nb, true, func(_ *ssa.Function, i ssa.Instruction) {
				c, ok := i.(*ssa.Call)
				if !ok || !isCallTo(c, "core.PathExists", "fs.PathExists", "fs.FileExists") {
					return
				}
				if derivedFromFn(c.Call.Args[0], a.outputs) {
					// its false edge must return true
					for _, rc := range cases {
						if hasFact(rc.Facts, false, func(v ssa.Value) bool { return v == c }) {
							if b, isC := constBool(rc.Vals[0]); isC && b {
								sawExists = true
							}
						}
					}
				}
			})
			r.check(nBad == 0 && len(finals) > 0 && sawExists, rule, "every declared output exists", p.pos(nb.Pos()), fnName(nb),
				"every path to a 'no need to build' return ranges over target.Outputs() and a missing output returns true",
				"'no need to build' can be returned without checking that each of target.Outputs() exists: a deleted output is never rebuilt")
		}
		r.floor(rule, 11)
	}
	if wantC03 {
		rule := "E5.rebuild-only-on-difference"
		// every constant-true return is under a failed comparison / missing file / error
		nTrue, nBad := 0, 0
		var site token.Pos
		justifies := func(f Fact) bool {
			if c, ok := f.V.(*ssa.Call); ok && !f.Val {
				if isCallTo(c, "bytes.Equal") || callsFn(c, a.fileExists, a.pathExists) || isCallTo(c, "core.PathExists") {
					return true
				}
			}
			if x, eq, ok := isNilCmp(f.V); ok && eq != f.Val {
				if e, ok := x.(*ssa.Extract); ok {
					if c, ok := e.Tuple.(*ssa.Call); ok && callsFn(c, a.sourceHash, a.secretHash) {
						return true
					}
				}
			}
			return false
		}
		// a block is justified if a failing test dominates it, or every edge into it carries one
		// (`err != nil || !bytes.Equal(..)` reaches the same return through two edges)
		var justified func(b *ssa.BasicBlock, depth int) bool
		justified = func(b *ssa.BasicBlock, depth int) bool {
			for _, f := range condFacts(b) {
				if justifies(f) {
					return true
				}
			}
			if depth == 0 || len(b.Preds) == 0 {
				return false
			}
			for _, pr := range b.Preds {
				okEdge := false
				for _, f := range edgeFacts(pr, b) {
					if justifies(f) {
						okEdge = true
					}
				}
				if !okEdge && !justified(pr, depth-1) {
					return false
				}
			}
			return true
		}
		for _, rc := range cases {
			b, isC := constBool(rc.Vals[0])
			if !isC || !b {
				continue
			}
			nTrue++
			ok := false
			for _, f := range rc.Facts {
				if justifies(f) {
					ok = true
				}
			}
			if !ok && !justified(rc.Ret.Block(), 3) {
				nBad++
				site = rc.Site
			}
		}
		r.check(nBad == 0 && nTrue >= 5, rule, "every 'needs building' answer is under a failed comparison", p.pos(nb.Pos()), fnName(nb),
			itoa(nTrue)+" constant-true returns, each on the failing edge of a hash comparison, an existence test or a hashing error",
			"a return at "+p.pos(site)+" says 'needs building' although no comparison failed: an unchanged tree re-runs the action")
		// the remaining answer is the forced-rebuild flag only
		for _, ret := range returnsOf(nb) {
			v := unspill(ret.Results[0])
			if _, isC := constBool(v); isC {
				continue
			}
			r.check(isResultOfFn(v, a.shouldRebuild), rule, "the non-constant answer is state.ShouldRebuild", p.pos(ret.Pos()), fnName(nb), "final return is ShouldRebuild(target)", "the final answer of the up-to-date predicate is not the forced-rebuild flag: an unchanged target may be rebuilt")
		}
	}
}

func derivedFromFn(v ssa.Value, fn *ssa.Function) bool {
	for x := range backSlice(v, SliceOpts{}) {
		if c, ok := x.(*ssa.Call); ok && callsFn(c, fn) {
			return true
		}
	}
	return false
}

// contentHashRule: hashes that decide incrementality are content hashes (timestamp=false).
func (p *Prog) contentHashRule(r *Report, a *gateAnchors, rule string, fns ...*ssa.Function) {
	n := 0
	var all []*ssa.Function
	for _, fn := range fns {
		all = append(all, withAnon(fn)...) // range-over-func bodies are closures
	}
	for _, fn := range all {
		for _, ci := range callsInFn(fn, a.hashFn) {
			cc := callCommon(ci)
			// (*PathHasher).Hash(path, recalc, store, timestamp): static call => receiver is Args[0]
			last := cc.Args[len(cc.Args)-1]
			b, isC := constBool(last)
			n++
			r.check(isC && !b, rule, fn.Name()+": PathHasher.Hash with timestamp=false", p.pos(ci.Pos()), fnName(fn), "content hash (timestamp argument is constant false)", "input hash of "+fn.Name()+" may include modification times: byte-identical rebuilt inputs then re-trigger dependents (and clean vs incremental builds diverge)")
		}
	}
	if n < 4 {
		r.unresolved(rule, "PathHasher.Hash calls in sourceHash/moveOutput")
	}
}

// sourceHashRule: sourceHash covers every source and tool, by content and name.
func (p *Prog) sourceHashRule(r *Report, a *gateAnchors) {
	rule := "E2.source-hash-coverage"
	sh := a.sourceHash
	iterSources := p.Fn("core", "IterSources")
	allTools := p.Fn("core", "BuildTarget.AllTools")
	if iterSources == nil || allTools == nil {
		r.unresolved(rule, "core.IterSources / BuildTarget.AllTools")
		return
	}
	fns := withAnon(sh)
	var hashCalls []*ssa.Call
	for _, g := range fns {
		for _, ci := range callsInFn(g, a.hashFn) {
			if c, ok := ci.(*ssa.Call); ok {
				hashCalls = append(hashCalls, c)
			}
		}
	}
	fromSources, fromTools := false, false
	for _, c := range hashCalls {
		path := c.Call.Args[1]
		tg := tagsOf(path, SliceOpts{})
		if tg["call:core.IterSources"] {
			fromSources = true
		}
		if tg["call:(*core.BuildTarget).AllTools"] {
			fromTools = true
		}
		// result written to the hash, error returned
		written := false
		for _, res := range resultsOf(c, 0) {
			for _, g := range fns {
				eachInstr(g, false, func(_ *ssa.Function, i ssa.Instruction) {
					if arg, ok := hashWriteArg(i); ok {
						for x := range backSlice(arg, SliceOpts{}) {
							if x == res {
								written = true
							}
						}
					}
				})
			}
		}
		r.check(written, rule, "content hash of each input is written", p.pos(c.Pos()), fnName(c.Parent()), "PathHasher.Hash result reaches h.Write", "the content hash computed here never reaches the source hash: edits to that input do not trigger a rebuild")
		errs := resultsOf(c, 1)
		okErr := len(errs) > 0
		// on err != nil the function (or the range-func body) must not continue silently
		for _, e := range errs {
			used := false
			if refs := e.Referrers(); refs != nil {
				for _, u := range *refs {
					if _, ok := u.(*ssa.BinOp); ok {
						used = true
					}
					if _, ok := u.(*ssa.Return); ok {
						used = true
					}
					if _, ok := u.(*ssa.Store); ok {
						used = true
					}
				}
			}
			if !used {
				okErr = false
			}
		}
		r.check(okErr, rule, "hashing error is not ignored", p.pos(c.Pos()), fnName(c.Parent()), "the error of PathHasher.Hash is tested/propagated", "the error of PathHasher.Hash is dropped: an unreadable input hashes like an empty one")
	}
	r.check(fromSources, rule, "ranges over IterSources", p.pos(sh.Pos()), fnName(sh), "a hashed path derives from core.IterSources(...)", "no hashed path derives from core.IterSources: sources (and dependency outputs) are not part of the source hash")
	r.check(fromTools, rule, "ranges over AllTools", p.pos(sh.Pos()), fnName(sh), "a hashed path derives from target.AllTools()", "no hashed path derives from target.AllTools(): rebuilding a tool never rebuilds its users")
	// the source path itself is written (renames)
	nameWritten := false
	for _, g := range fns {
		eachInstr(g, false, func(_ *ssa.Function, i ssa.Instruction) {
			if arg, ok := hashWriteArg(i); ok {
				tg := tagsOf(arg, SliceOpts{NoCallArgs: true})
				if tg["call:core.IterSources"] && !tg["call:(*fs.PathHasher).Hash"] {
					nameWritten = true
				}
			}
		})
	}
	r.check(nameWritten, rule, "source path is written as well as its content", p.pos(sh.Pos()), fnName(sh), "the path yielded by IterSources is written to the hash", "only contents are hashed: renaming a source (same bytes) does not rebuild the target although its command sees a different file name")
	// IterSources is called with includeTools=false only if tools are hashed separately: covered by fromTools.
	r.floor(rule, 7)
}

// xattrLayoutRule: the record written by writeRuleHash and the slices read by readRuleHashFromXattrs agree.
func (p *Prog) xattrLayoutRule(r *Report, a *gateAnchors) {
	rule := "E10.hash-record-layout"
	hl, ok := p.ConstInt("build", "hashLength")
	if !ok || hl == 0 {
		r.unresolved(rule, "build.hashLength")
		return
	}
	// writer: flatten the append chain of targetHash, then writeRuleHash appends the secret hash
	var flatten func(v ssa.Value, depth int) []ssa.Value
	flatten = func(v ssa.Value, depth int) []ssa.Value {
		if depth > 12 {
			return []ssa.Value{v}
		}
		if c, ok := v.(*ssa.Call); ok {
			if b, ok := c.Call.Value.(*ssa.Builtin); ok && b.Name() == "append" && len(c.Call.Args) == 2 {
				return append(flatten(c.Call.Args[0], depth+1), c.Call.Args[1])
			}
		}
		return []ssa.Value{v}
	}
	classify := func(v ssa.Value) string {
		if c, ok := v.(*ssa.Call); ok {
			if callsFn(c, a.ruleHash) && len(c.Call.Args) == 4 {
				rt, ok1 := constBool(c.Call.Args[2])
				pb, ok2 := constBool(c.Call.Args[3])
				if ok1 && ok2 && !rt {
					if pb {
						return "rule(post)"
					}
					return "rule(pre)"
				}
				return "rule(?)"
			}
		}
		tg := tagsOf(v, SliceOpts{NoCallArgs: true})
		switch {
		case tg["call:build.sourceHash"]:
			return "source"
		case tg["call:build.secretHash"]:
			return "secret"
		case tg["call:build.targetHash"]:
			return "target"
		}
		for k := range tg {
			if strings.HasSuffix(k, ".Config") {
				return "config"
			}
		}
		return "?"
	}
	var writer []string
	for _, ret := range returnsOf(a.targetHash) {
		v := unspill(ret.Results[0])
		if isNilConst(v) {
			continue
		}
		for _, x := range flatten(v, 0) {
			writer = append(writer, classify(x))
		}
	}
	want := []string{"rule(pre)", "rule(post)", "config", "source"}
	r.check(strings.Join(writer, " ") == strings.Join(want, " "), rule, "targetHash = rule(pre) rule(post) config source", p.pos(a.targetHash.Pos()), fnName(a.targetHash), "append chain classified as "+strings.Join(writer, " "), "the target hash is assembled as ["+strings.Join(writer, " ")+"], not [rule(pre) rule(post) config source]: the reader's slices (and CollapseHash's segments) no longer line up with it")
	// writeRuleHash: recorded value = targetHash ++ secretHash
	var recorded []string
	eachInstr(a.writeRule, false, func(_ *ssa.Function, i ssa.Instruction) {
		if isCallTo(i, "fs.RecordAttr", "fs.RecordAttrFile") {
			cc := callCommon(i)
			for _, arg := range cc.Args {
				if typeString(arg.Type()) == "[]byte" {
					var parts []string
					for _, x := range flatten(arg, 0) {
						parts = append(parts, classify(x))
					}
					recorded = append(recorded, strings.Join(parts, " "))
				}
			}
		}
	})
	okRec := len(recorded) >= 2
	for _, s := range recorded {
		if s != "target secret" {
			okRec = false
		}
	}
	r.check(okRec, rule, "recorded attribute = target hash ++ secret hash", p.pos(a.writeRule.Pos()), fnName(a.writeRule), itoa(len(recorded))+" RecordAttr sites, each writing targetHash ++ secretHash", "a RecordAttr site in writeRuleHash writes ["+strings.Join(recorded, " | ")+"] rather than targetHash ++ secretHash")
	// reader: field -> segment
	wantSeg := map[string][]int64{"rule": {0, 1}, "config": {2}, "source": {3}, "secret": {4}}
	seen := map[string]int{}
	eachInstrS(a.readX, func(_ *ssa.Function, i ssa.Instruction) {
		st, ok := i.(*ssa.Store)
		if !ok {
			return
		}
		k := fieldKey(st.Addr)
		if !strings.HasPrefix(k, "build.ruleHashes.") {
			return
		}
		part := strings.TrimPrefix(k, "build.ruleHashes.")
		sl, ok := st.Val.(*ssa.Slice)
		if !ok {
			return
		}
		segs, known := wantSeg[part]
		if !known {
			return
		}
		lo := int64(0)
		if sl.Low != nil {
			lo, _ = constInt(sl.Low)
		}
		hi := int64(-1)
		if sl.High != nil {
			hi, _ = constInt(sl.High)
		}
		good := false
		for _, s := range segs {
			if lo == s*hl && hi == (s+1)*hl {
				good = true
			}
		}
		seen[part]++
		r.check(good, rule, "reader slice of "+part, p.pos(sl.Pos()), fnName(a.readX), "["+itoa(int(lo))+":"+itoa(int(hi))+"] is segment of the recorded attribute that holds the "+part+" hash", "readRuleHashFromXattrs takes the "+part+" hash from bytes ["+itoa(int(lo))+":"+itoa(int(hi))+"], which is not where writeRuleHash puts it: the comparison in the up-to-date predicate is against the wrong stored part")
	})
	for part := range wantSeg {
		if seen[part] == 0 {
			r.bad(rule, "reader slice of "+part, p.pos(a.readX.Pos()), fnName(a.readX), "the "+part+" part is never populated from the recorded attribute")
		}
	}
	r.floor(rule, 9)
}

func checkC01(p *Prog, r *Report) {
	r.Explanation = "Structural necessary conditions of 'incremental == clean' on the up-to-date predicate (found by identity: the bool function of package build that calls readRuleHashFromXattrs). (1) gate completeness via return-case facts: every return that can say 'no need to build' is dominated by the equality edge of a bytes.Equal between each stored part (config, rule, source, secret) and the freshly computed value of the same kind, by nil errors of sourceHash/secretHash, by the metadata-file existence test, and is reached only through the loop over target.Outputs() whose missing-output edge returns true; every inequality edge returns true. (2) table agreement: the byte layout written by targetHash/writeRuleHash (rule(pre) rule(post) config source secret) equals the constant slices read by readRuleHashFromXattrs. (3) source hash coverage: sourceHash hashes, by content (timestamp=false) and name, every path of core.IterSources and every tool path, writes each result to the hash and never drops a hashing error. (4) buildTarget leaves through the 'nothing to do' return only under needsBuilding()==false. (5) unchanged-output detection in moveOutput is by content-hash equality. Rule-hash field coverage/framing is decided under C08 and tree hashing under C09."
	r.NotCovered = []string{"byte equality of plz-out over real edit histories", "filegroup special cases", "remote execution", "hash collisions"}
	p.hardlinkMarkerRule(r, "fs/E9.hardlink-marker-protocol")
	p.memoEveryHashRule(r, "fs/E5.every-hash-memoised")
	// an incremental build may restore from the cache over outputs of another state: what is restored must replace them
	importRules(p, r, checkC12, "cache/", "E9.archive-writer-reader", "E5.retrieve-clears-the-way")
	a := p.gate(r, "E5.gate-completeness")
	if a == nil {
		return
	}
	p.gateRules(r, a, true, false)
	p.xattrLayoutRule(r, a)
	p.sourceHashRule(r, a)
	p.contentHashRule(r, a, "E5.content-hash", a.sourceHash, a.moveOutput)
	p.skipOnlyUnderGate(r, a)
	p.unchangedByHash(r, a, "E5.unchanged-by-hash")
	p.recordReadFromEveryOutput(r, a)
	p.filegroupMemoRule(r)
	p.recordAfterBuild(r, a, "E5.record-after-build")
}

// skipOnlyUnderGate: buildTarget's early "nothing to do" exit requires the gate to have said so.
func (p *Prog) skipOnlyUnderGate(r *Report, a *gateAnchors) {
	rule := "E5.skip-only-under-gate"
	bt := a.buildTarget
	work := []*ssa.Function{p.Fn("build", "build"), p.Fn("build", "retrieveArtifacts"), p.Fn("build", "buildFilegroup"), p.Fn("build", "prepareOnly")}
	n := 0
	for _, ret := range returnsOf(bt) {
		v := unspill(ret.Results[0])
		if !isNilConst(v) {
			continue
		}
		// returns reached without any work having been done on some path
		noWork := existsPath(bt, nil, ret, func(i ssa.Instruction) bool {
			if callsFn(i, work...) {
				return true
			}
			if cc := callCommon(i); cc != nil && cc.IsInvoke() && cc.Method.Name() == "Build" {
				return true // remote client
			}
			return false
		})
		if !noWork {
			continue
		}
		n++
		gated := callFact(condFacts(ret.Block()), false, a.needs) != nil
		r.check(gated, rule, "return nil without building/retrieving", p.pos(ret.Pos()), fnName(bt), "dominated by needsBuilding(...) == false", "buildTarget can return success without building, retrieving or copying anything and without the up-to-date predicate having returned false: stale outputs are kept as if current")
	}
	if n == 0 {
		r.unresolved(rule, "early 'nothing to do' return of buildTarget")
	}
}

// unchangedByHash: moveOutput says "unchanged" only when content hashes are equal, and touches nothing on that path.
func (p *Prog) unchangedByHash(r *Report, a *gateAnchors, rule string) {
	mo := a.moveOutput
	n := 0
	for _, rc := range returnCases(mo, 0) {
		b, isC := constBool(rc.Vals[0])
		if !isC || b {
			continue
		}
		n++
		okk := false
		for _, f := range rc.Facts {
			c, ok := f.V.(*ssa.Call)
			if !ok || !f.Val || !isCallTo(c, "bytes.Equal") {
				continue
			}
			h0 := derivedFromFn(c.Call.Args[0], a.hashFn)
			h1 := derivedFromFn(c.Call.Args[1], a.hashFn)
			if h0 && h1 {
				okk = true
			}
		}
		r.check(okk, rule, "moveOutput reports 'unchanged' only on equal content hashes", p.pos(rc.Site), fnName(mo), "return false is on the true edge of bytes.Equal(PathHasher.Hash(old), PathHasher.Hash(new))", "moveOutput can report an output as unchanged (and keep the old file) without the old and new content hashes having compared equal")
		// nothing destructive can precede this return
		touched := false
		eachInstr(mo, false, func(_ *ssa.Function, i ssa.Instruction) {
			if isCallTo(i, "os.Rename", "fs.RemoveAll", "os.RemoveAll", "os.Remove", "fs.RecursiveCopy", "fs.CopyFile") || callsFn(i, a.moveHash) {
				if existsPath(mo, i, rc.Ret, nil) {
					touched = true
				}
			}
		})
		r.check(!touched, rule, "the unchanged path does not touch the existing output", p.pos(rc.Site), fnName(mo), "no rename/remove/copy/MoveHash can precede the 'unchanged' return", "the existing output can be removed/replaced before being reported unchanged: memoised hashes and mtimes that dependents rely on are lost")
	}
	if n == 0 {
		r.unresolved(rule, "constant-false return of moveOutput")
	}
}

func checkC03(p *Prog, r *Report) {
	r.Explanation = "Structural necessary conditions of no-op/cut-off. (1) rebuild only on difference: every constant-true return of the up-to-date predicate is on the failing edge of a hash comparison, an existence test or a hashing error, and its only other answer is state.ShouldRebuild (the forced-rebuild flag). (2) dependents' input hashes are content hashes: every PathHasher.Hash call in sourceHash and moveOutput passes constant timestamp=false. (3) moveOutput reports 'unchanged' only under equal content hashes and on that path nothing is renamed, removed, copied or re-keyed, so the old file (mtime, memoised hash) survives. (4) on the changed path MoveHash precedes the rename/copy so the new output's memoised hash is what dependents read. (5) moveOutputs' changed flag is the disjunction of moveOutput results (nothing sets it unconditionally)."
	r.NotCovered = []string{"counting executed actions across two real invocations", "remote execution", "the memoisation inside PathHasher"}
	a := p.gate(r, "E5.rebuild-only-on-difference")
	if a == nil {
		return
	}
	p.gateRules(r, a, false, true)
	p.contentHashRule(r, a, "E5.content-hash", a.sourceHash, a.moveOutput)
	p.unchangedByHash(r, a, "E5.unchanged-by-hash")
	p.recordAfterBuild(r, a, "E5.record-after-build")
	p.sourceHashContentOnly(r, a)
	p.outputExistenceAcceptsDirs(r, a)
	p.recordNotDestroyed(r, a)
	p.dataStaysData(r)
	p.onlyOneHashMemo(r)
	// (4) MoveHash before the move
	rule := "E5.movehash-before-move"
	mo := a.moveOutput
	n := 0
	eachInstrS(mo, func(_ *ssa.Function, i ssa.Instruction) {
		if isCallTo(i, "os.Rename", "fs.RecursiveCopy") {
			n++
			r.check(dominatedByCall(i, a.moveHash) != nil, rule, "MoveHash dominates "+calleeName(callCommon(i)), p.pos(i.Pos()), fnName(mo), "the memoised hash is re-keyed to the real output before the file is moved", "the output is moved into place without PathHasher.MoveHash having run: dependents read a stale memoised hash for the real output path (or rehash needlessly)")
		}
	})
	if n == 0 {
		r.unresolved(rule, "os.Rename / fs.RecursiveCopy in moveOutput")
	}
	// (5) changed flag provenance
	rule = "E5.changed-flag"
	mos := a.moveOutputs
	for _, ret := range returnsOf(mos) {
		if !isNilConst(unspill(ret.Results[2])) {
			continue
		}
		v := unspill(ret.Results[1])
		fromMO := false
		constTrue := false
		var walk func(v ssa.Value, d int)
		seen := map[ssa.Value]bool{}
		walk = func(v ssa.Value, d int) {
			if seen[v] || d > 12 {
				return
			}
			seen[v] = true
			switch x := v.(type) {
			case *ssa.Phi:
				for _, e := range x.Edges {
					walk(e, d+1)
				}
			case *ssa.BinOp:
				walk(x.X, d+1)
				walk(x.Y, d+1)
			case *ssa.Const:
				if b, ok := constBool(x); ok && b {
					// `changed || outputChanged` lowers to phi(true, outputChanged): the constant true edge is guarded by `changed`
					constTrue = true
				}
			case *ssa.Extract:
				if c, ok := x.Tuple.(*ssa.Call); ok && callsFn(c, a.moveOutput) {
					fromMO = true
				}
			}
		}
		walk(v, 0)
		_ = constTrue
		r.check(fromMO, rule, "changed flag derives from moveOutput results", p.pos(ret.Pos()), fnName(mos), "the flag returned on success is built from moveOutput's results", "the 'outputs changed' flag returned on success does not derive from moveOutput: targets are always (or never) reported as changed")
	}
}

// recordReadFromEveryOutput: the stored record is trusted only if every output carries it.
func (p *Prog) recordReadFromEveryOutput(r *Report, a *gateAnchors) {
	rule := "E5.record-on-every-output"
	rx := a.readX
	fullOutputs := p.Fn("core", "BuildTarget.FullOutputs")
	if fullOutputs == nil {
		r.unresolved(rule, "core.BuildTarget.FullOutputs")
		return
	}
	inLoop := func(b *ssa.BasicBlock) bool {
		seen := map[*ssa.BasicBlock]bool{}
		st := append([]*ssa.BasicBlock{}, b.Succs...)
		for len(st) > 0 {
			x := st[len(st)-1]
			st = st[:len(st)-1]
			if x == b {
				return true
			}
			if !seen[x] {
				seen[x] = true
				st = append(st, x.Succs...)
			}
		}
		return false
	}
	var perOutput []*ssa.Call
	eachInstr(rx, false, func(_ *ssa.Function, i ssa.Instruction) {
		c, ok := i.(*ssa.Call)
		if !ok || !isCallTo(c, "fs.ReadAttr") {
			return
		}
		if derivedFromFn(c.Call.Args[0], fullOutputs) && inLoop(c.Block()) {
			// the path must be the loop element, not a fixed index
			fixed := false
			for x := range backSlice(c.Call.Args[0], SliceOpts{}) {
				if ia, ok := x.(*ssa.IndexAddr); ok {
					if _, isC := constInt(ia.Index); isC {
						fixed = true
					}
				}
			}
			if !fixed {
				perOutput = append(perOutput, c)
			}
		}
	})
	if !r.check(len(perOutput) > 0, rule, "record read from each of FullOutputs()", p.pos(rx.Pos()), fnName(rx), "fs.ReadAttr is applied to the loop element of target.FullOutputs()", "the stored hash record is not read from every output of the target (no fs.ReadAttr on the loop element of FullOutputs()): after a crash between stamping two outputs, or a partial restore, an unstamped or differently stamped output is trusted as up to date") {
		return
	}
	cases := returnCases(rx, 0)
	for _, c := range perOutput {
		// missing on any output => empty record
		nMissing, nBad := 0, 0
		for _, rc := range cases {
			if known, isNil := errKnown(rc.Facts, []ssa.Value{c}); known && isNil {
				nMissing++
				if !isZeroValue(rc.Vals[0]) {
					nBad++
				}
			}
		}
		r.check(nMissing > 0 && nBad == 0, rule, "an output without the record => empty record", p.pos(c.Pos()), fnName(rx), "the nil edge of ReadAttr returns the zero ruleHashes", "an output that lacks the hash record does not make readRuleHashFromXattrs return the empty record: a partially stamped target can be taken as up to date")
		// disagreement between outputs => empty record
		agree := false
		eachInstr(rx, false, func(_ *ssa.Function, i ssa.Instruction) {
			eq, ok := i.(*ssa.Call)
			if !ok || !isCallTo(eq, "bytes.Equal") {
				return
			}
			uses := false
			for _, arg := range eq.Call.Args {
				for x := range backSlice(arg, SliceOpts{}) {
					if x == c {
						uses = true
					}
				}
			}
			if !uses {
				return
			}
			for _, rc := range cases {
				if hasFact(rc.Facts, false, func(v ssa.Value) bool { return v == eq }) && isZeroValue(rc.Vals[0]) {
					agree = true
				}
			}
		})
		r.check(agree, rule, "outputs whose records differ => empty record", p.pos(c.Pos()), fnName(rx), "records of different outputs are compared and a mismatch returns the zero ruleHashes", "records read from different outputs are not compared: outputs left over from two different builds are accepted as one up-to-date target")
	}
}

// filegroupMemoRule: whenever the filegroup builder decides about an output file it also keys the hash memo for it.
func (p *Prog) filegroupMemoRule(r *Report) {
	rule := "E9.filegroup-hash-memo"
	fb := p.Fn("build", "filegroupBuilder.Build")
	copyHash := p.Fn("fs", "PathHasher.CopyHash")
	builtField := p.Field("build", "filegroupBuilder", "built")
	if fb == nil || copyHash == nil || builtField == nil {
		r.unresolved(rule, "filegroupBuilder.Build / PathHasher.CopyHash / filegroupBuilder.built")
		return
	}
	n := 0
	eachInstr(fb, false, func(_ *ssa.Function, i ssa.Instruction) {
		mu, ok := i.(*ssa.MapUpdate)
		if !ok || !derivesFromField(mu.Map, builtField) {
			return
		}
		n++
		skips := existsPath(fb, mu, nil, func(j ssa.Instruction) bool { return callsFn(j, copyHash) })
		r.check(!skips, rule, "built[to] decided => CopyHash(from, to) before return", p.pos(mu.Pos()), fnName(fb), "every path from recording the decision to return passes PathHasher.CopyHash", "a branch of the filegroup builder records its decision for the output but returns without PathHasher.CopyHash(from, to) (its sibling branch does): the memo entry that stops xattr hashes being stored on an inode shared with the source file is missing, so later runs trust a stale stored hash")
	})
	if n < 2 {
		r.unresolved(rule, "updates of filegroupBuilder.built in Build (found "+itoa(n)+")")
	}
}

// recordAfterBuild: once the action ran, buildTarget cannot return success without refreshing the stored record.
func (p *Prog) recordAfterBuild(r *Report, a *gateAnchors, rule string) {
	bt := a.buildTarget
	build := p.Fn("build", "build")
	calc := p.Fn("build", "calculateAndCheckRuleHash")
	if build == nil || calc == nil {
		r.unresolved(rule, "build.build / build.calculateAndCheckRuleHash")
		return
	}
	n := 0
	for _, ci := range callsInFn(bt, build) {
		n++
		nBad := 0
		var site token.Pos
		for _, ret := range returnsOf(bt) {
			if !isNilConst(unspill(ret.Results[0])) {
				continue
			}
			// parameters keep their value: branch facts about them at the call hold on the way out too
			assume := map[ssa.Value]bool{}
			for _, f := range condFacts(ci.Block()) {
				if _, isP := f.V.(*ssa.Parameter); isP {
					assume[f.V] = f.Val
				}
			}
			if existsPathAssuming(bt, ci, ret, func(j ssa.Instruction) bool { return callsFn(j, calc, a.writeRule) }, assume) {
				nBad++
				site = ret.Pos()
			}
		}
		r.check(nBad == 0, rule, "build() ... return nil passes calculateAndCheckRuleHash", p.pos(ci.Pos()), fnName(bt), "every path from running the action to a nil return refreshes the stored rule/config/source/secret record", "after the action has run buildTarget can return success (at "+p.pos(site)+") without writing the hash record: the record keeps describing the previous inputs, so the next invocation either re-runs the action on an unchanged tree or trusts outputs it should not")
	}
	if n == 0 {
		r.unresolved(rule, "call of build() in buildTarget")
	}
	// and inside calculateAndCheckRuleHash the record is written on every nil-error path (filegroups excepted)
	nBad := 0
	for _, ret := range returnsOf(calc) {
		if !isNilConst(unspill(ret.Results[1])) {
			continue
		}
		isFg := func(v ssa.Value) bool { return fieldKeyOfLoad(v) == "core.BuildTarget.IsFilegroup" }
		assume := map[ssa.Value]bool{}
		eachInstr(calc, false, func(_ *ssa.Function, i ssa.Instruction) {
			if iff, ok := i.(*ssa.If); ok {
				f := normFact(iff.Cond, true)
				if isFg(f.V) {
					assume[f.V] = false
				}
			}
		})
		if existsPathAssuming(calc, nil, ret, func(j ssa.Instruction) bool { return callsFn(j, a.writeRule) }, assume) {
			nBad++
		}
	}
	r.check(nBad == 0, rule, "calculateAndCheckRuleHash writes the record on every successful path", p.pos(calc.Pos()), fnName(calc), "for non-filegroups every nil-error return passes writeRuleHash", "calculateAndCheckRuleHash can succeed for a non-filegroup target without calling writeRuleHash")
}

// fieldKeyOfLoad: v is a load of a struct field; returns its key.
func fieldKeyOfLoad(v ssa.Value) string {
	if u, ok := v.(*ssa.UnOp); ok && u.Op == token.MUL {
		return fieldKey(u.X)
	}
	return fieldKey(v)
}

// sourceHashContentOnly: the source hash is made of content hashes and names only.
func (p *Prog) sourceHashContentOnly(r *Report, a *gateAnchors) {
	rule := "E2.source-hash-content-only"
	n := 0
	for _, g := range withAnon(a.sourceHash) {
		eachInstr(g, false, func(_ *ssa.Function, i ssa.Instruction) {
			arg, ok := hashWriteArg(i)
			if !ok {
				return
			}
			n++
			tg := tagsOf(arg, SliceOpts{NoCallArgs: true})
			content := tg["call:(*fs.PathHasher).Hash"]
			name := tg["call:core.IterSources"]
			inputBased := ""
			for k := range tg {
				if strings.HasPrefix(k, "call:build.") || k == "call:core.CollapseHash" {
					inputBased = k
				}
			}
			r.check((content || name) && inputBased == "", rule, "write derives from a content hash or an input name", p.pos(i.Pos()), fnName(g), "data = PathHasher.Hash result / IterSources path", "the source hash absorbs "+strings.TrimPrefix(inputBased, "call:")+" (an input-derived hash) instead of the content hash of the input: an input rebuilt to byte-identical content still changes the dependent's source hash, so cut-off is lost")
		})
	}
	if n < 3 {
		r.unresolved(rule, "hash writes in sourceHash (found "+itoa(n)+")")
	}
}

// outputExistenceAcceptsDirs: an output may be a directory. The test in the up-to-date predicate that treats an output
// as missing must therefore not be one that rejects directories (fs.FileExists: Lstat && !IsDir).
func (p *Prog) outputExistenceAcceptsDirs(r *Report, a *gateAnchors) {
	rule := "E9.output-exists-accepts-directories"
	n := 0
	eachInstrS(a.needs, func(_ *ssa.Function, i ssa.Instruction) {
		c, ok := i.(*ssa.Call)
		if !ok || len(c.Call.Args) != 1 || typeString(c.Type()) != "bool" {
			return
		}
		g := c.Call.StaticCallee()
		if g == nil || g.Blocks == nil {
			return
		}
		// the argument is built from an element of target.Outputs()
		if a.outputs == nil || !derivedFromFn(c.Call.Args[0], a.outputs) {
			return
		}
		n++
		rejects := ""
		for _, h := range p.closure([]*ssa.Function{g}, 2, nil) {
			eachInstr(h, false, func(_ *ssa.Function, j ssa.Instruction) {
				cc := callCommon(j)
				if cc == nil {
					return
				}
				switch {
				case cc.IsInvoke() && (cc.Method.Name() == "IsDir" || cc.Method.Name() == "IsRegular"):
					rejects = cc.Method.Name()
				case strings.HasSuffix(calleeName(cc), "FileMode).IsDir") || strings.HasSuffix(calleeName(cc), "FileMode).IsRegular"):
					rejects = calleeName(cc)
				}
			})
		}
		r.check(rejects == "", rule, "the existence test on outputs ("+g.Name()+") does not look at the file kind", p.pos(c.Pos()), fnName(a.needs), g.Name()+" is a plain existence test", "the up-to-date predicate tests each output with "+g.Name()+", which looks at "+rejects+": a directory output counts as missing, so a rule with outs=[\"tree\"] re-runs its command on every invocation although nothing changed")
	})
	if n == 0 {
		r.unresolved(rule, "existence test on the elements of target.Outputs() in the up-to-date predicate")
	}
}

// recordNotDestroyed: the record of what was built is stamped (also) on the target's metadata file, which is the only
// carrier for a rule without declared outputs. StoreTargetMetadata removes and recreates that file, so it must not
// run after the record was written.
func (p *Prog) recordNotDestroyed(r *Report, a *gateAnchors) {
	rule := "E5.record-not-destroyed"
	stm := p.Fn("build", "StoreTargetMetadata")
	calc := p.Fn("build", "calculateAndCheckRuleHash")
	if stm == nil || calc == nil || a.buildTarget == nil {
		r.unresolved(rule, "build.StoreTargetMetadata / calculateAndCheckRuleHash / buildTarget")
		return
	}
	bad := false
	var site token.Pos
	nS := 0
	for _, sc := range callsInFn(a.buildTarget, stm) {
		nS++
		for _, cc := range callsInFn(a.buildTarget, calc) {
			if existsPath(a.buildTarget, cc, sc, nil) {
				bad = true
				site = sc.Pos()
			}
		}
	}
	r.check(!bad, rule, "the metadata file is not rewritten after the rule hash was recorded", p.pos(site), fnName(a.buildTarget), itoa(nS)+" StoreTargetMetadata call(s) in buildTarget, none reachable from calculateAndCheckRuleHash", "buildTarget stores the target metadata (which removes and recreates the metadata file) after calculateAndCheckRuleHash stamped the rule-hash record on that file: for a rule with no declared outputs (only output_dirs / a post-build function) this is the only record, so the next invocation finds none and rebuilds, every time")
}

// dataStaysData: a label that is only data must not become a build input (its outputs would be hashed into the
// source hash and the rule re-run whenever the data changes). AddDependency clears the data-only flag of an entry that
// already exists ("it's not only data any more"), so every adder of data that goes through AddDependency has to set
// the flag again afterwards, on every path - also when the same label is added as data a second time.
func (p *Prog) dataStaysData(r *Report) {
	rule := "E5.data-flag-re-established"
	amed := p.Fn("core", "BuildTarget.AddMaybeExportedDependency")
	addDep := p.Fn("core", "BuildTarget.AddDependency")
	if amed == nil || addDep == nil {
		r.unresolved(rule, "core.BuildTarget.AddMaybeExportedDependency / AddDependency")
		return
	}
	clears := false
	eachInstr(amed, false, func(_ *ssa.Function, i ssa.Instruction) {
		if st, ok := i.(*ssa.Store); ok && fieldKey(st.Addr) == "core.depInfo.data" {
			if b, isC := constBool(st.Val); isC && !b {
				clears = true
			}
		}
	})
	if !clears {
		r.okTrivial(rule, "adding a dependency again does not clear its data-only flag", p.pos(amed.Pos()), fnName(amed), "no store of data=false: nothing to re-establish")
		return
	}
	isSet := func(j ssa.Instruction) bool {
		st, ok := j.(*ssa.Store)
		if !ok || fieldKey(st.Addr) != "core.depInfo.data" {
			return false
		}
		b, isC := constBool(st.Val)
		return isC && b
	}
	n := 0
	for _, fn := range p.Funcs("core") {
		// a data adder: appends to a field whose name says data and calls AddDependency (directly or through one helper)
		isData := false
		eachInstr(fn, false, func(_ *ssa.Function, i ssa.Instruction) {
			switch x := i.(type) {
			case *ssa.Store:
				k := strings.ToLower(fieldKey(x.Addr))
				if strings.HasSuffix(k, ".data") && !strings.Contains(k, "depinfo") {
					isData = true
				}
			case *ssa.MapUpdate:
				k := strings.ToLower(fieldKeyOfLoad(x.Map))
				if strings.HasSuffix(k, "nameddata") {
					isData = true
				}
			}
		})
		if !isData {
			continue
		}
		var calls []ssa.Instruction
		var inFn []*ssa.Function
		for _, ci := range callsInFn(fn, addDep) {
			calls, inFn = append(calls, ci), append(inFn, fn)
		}
		// one level of helper
		eachInstr(fn, false, func(_ *ssa.Function, i ssa.Instruction) {
			cc := callCommon(i)
			if cc == nil || cc.StaticCallee() == nil || cc.StaticCallee() == addDep || fnPkg(cc.StaticCallee()) != modPath+"/src/core" {
				return
			}
			for _, ci := range callsInFn(cc.StaticCallee(), addDep) {
				calls, inFn = append(calls, ci), append(inFn, cc.StaticCallee())
			}
		})
		for k, ci := range calls {
			n++
			r.check(!existsPath(inFn[k], ci, nil, isSet), rule, fn.Name()+" marks the dependency data-only again after AddDependency", p.pos(ci.Pos()), fnName(inFn[k]), "no return is reachable from the AddDependency call without data = true", "after AddDependency (which clears the data-only flag of an entry that exists already) a path reaches the return without setting it again, e.g. when the label was known before: listing the same label twice among data turns it into a build-time dependency, its outputs enter the source hash, and the rule is rebuilt whenever the data changes")
		}
	}
	if n == 0 {
		r.unresolved(rule, "data adders of BuildTarget that call AddDependency")
	}
}

// onlyOneHashMemo: RuleHash memoises exactly one value on the target, the hash before any post-build change. The hash
// asked for with postBuild=true of a target its build can modify is recomputed every time (it is first asked for before
// the post-build function has run, for the cache key).
func (p *Prog) onlyOneHashMemo(r *Report) {
	rule := "E7.post-build-hash-not-memoised"
	RH := p.Fn("build", "RuleHash")
	if RH == nil {
		r.unresolved(rule, "build.RuleHash")
		return
	}
	other := ""
	eachInstr(RH, false, func(_ *ssa.Function, i ssa.Instruction) {
		if st, ok := i.(*ssa.Store); ok {
			k := fieldKey(st.Addr)
			if strings.HasPrefix(k, "core.BuildTarget.") && k != "core.BuildTarget.RuleHash" {
				other = k
			}
		}
	})
	r.check(other == "", rule, "RuleHash stores nothing on the target but BuildTarget.RuleHash", p.pos(RH.Pos()), fnName(RH), "one memo field", "RuleHash also memoises into "+other+": the post-build hash is first requested before the post-build function has run (for the cache key), so the memo holds the pre-modification value, that value is recorded, and the next invocation over an unchanged tree finds a different hash and re-runs the command")
}
