package main

import (
	"go/token"
	"go/types"
	"sort"
	"strings"

	"golang.org/x/tools/go/ssa"
)

// E2 hashcover / E3 hashframe: which struct fields reach a hash, and whether
// sequences written to it are uniquely decodable.

func isHashType(t types.Type) bool {
	s := t.String()
	return s == "hash.Hash" || s == "io.Writer" || s == "hash.Hash64" || s == "hash.Hash32"
}

// hashWriteArg: if i writes data into a hash (h.Write(x), io.WriteString(h, x),
// h.Sum is not a write), return the data operand.
func hashWriteArg(i ssa.Instruction) (ssa.Value, bool) {
	c, ok := i.(*ssa.Call)
	if !ok {
		return nil, false
	}
	if c.Call.IsInvoke() && c.Call.Method.Name() == "Write" && isHashType(c.Call.Value.Type()) && len(c.Call.Args) == 1 {
		return c.Call.Args[0], true
	}
	if isCallTo(c, "io.WriteString") && len(c.Call.Args) == 2 && isHashType(c.Call.Args[0].Type()) {
		return c.Call.Args[1], true
	}
	return nil, false
}

// hashHelperParams: for a repository function with a hash.Hash parameter,
// the other parameters whose value reaches a hash write (as data or as a
// controlling condition) inside it (or inside helpers it calls).
func (p *Prog) hashHelperParams(fn *ssa.Function, depth int) map[int]bool {
	out := map[int]bool{}
	if fn == nil || fn.Blocks == nil || depth > 3 {
		return out
	}
	hashIdx := -1
	for k, prm := range fn.Params {
		if isHashType(prm.Type()) {
			hashIdx = k
		}
	}
	if hashIdx < 0 {
		return out
	}
	mark := func(v ssa.Value) {
		for x := range backSlice(v, SliceOpts{}) {
			if prm, ok := x.(*ssa.Parameter); ok && prm.Parent() == fn {
				for k, q := range fn.Params {
					if q == prm && k != hashIdx {
						out[k] = true
					}
				}
			}
		}
	}
	eachInstr(fn, false, func(_ *ssa.Function, i ssa.Instruction) {
		if a, ok := hashWriteArg(i); ok {
			mark(a)
			for _, f := range condFacts(i.Block()) {
				mark(f.V)
			}
			return
		}
		if c, ok := i.(*ssa.Call); ok {
			if g := c.Call.StaticCallee(); g != nil && g != fn {
				for k := range p.hashHelperParams(g, depth+1) {
					if k < len(c.Call.Args) {
						mark(c.Call.Args[k])
						for _, f := range condFacts(i.Block()) {
							mark(f.V)
						}
					}
				}
			}
		}
	})
	return out
}

type hashSink struct {
	instr ssa.Instruction
	args  []ssa.Value // data operands
	conds []Fact      // branch facts controlling the write
}

// hashSinks lists the hash writes of fn: direct writes and calls of helpers
// that write their arguments.
func (p *Prog) hashSinks(fn *ssa.Function) []hashSink {
	var out []hashSink
	eachInstr(fn, true, func(_ *ssa.Function, i ssa.Instruction) {
		if a, ok := hashWriteArg(i); ok {
			out = append(out, hashSink{instr: i, args: []ssa.Value{a}, conds: condFacts(i.Block())})
			return
		}
		if c, ok := i.(*ssa.Call); ok {
			if g := c.Call.StaticCallee(); g != nil && g != fn {
				hp := p.hashHelperParams(g, 0)
				if len(hp) > 0 {
					s := hashSink{instr: i, conds: condFacts(i.Block())}
					var ks []int
					for k := range hp {
						ks = append(ks, k)
					}
					sort.Ints(ks)
					for _, k := range ks {
						if k < len(c.Call.Args) {
							s.args = append(s.args, c.Call.Args[k])
						}
					}
					out = append(out, s)
				}
			}
		}
	})
	return out
}

// fieldsOf collects the struct fields (as "pkg.Type.Field") that v is derived from.
func (p *Prog) fieldsOf(v ssa.Value, interproc int) map[string]bool {
	set := map[string]bool{}
	backSlice(v, SliceOpts{Interproc: interproc, Prog: p, Visit: func(x ssa.Value, _ *ssa.Function) {
		if k := fieldKey(x); k != "" {
			set[k] = true
		}
		if c, ok := x.(*ssa.Call); ok {
			switch calleeName(&c.Call) {
			case "os.Getenv", "os.LookupEnv":
				set["<os.Getenv>"] = true
			}
		}
	}})
	return set
}

// hashCoverage: all fields reaching any sink of fn. Sinks under a fact that
// contradicts `assume` are skipped (e.g. runtime == false).
func (p *Prog) hashCoverage(fn *ssa.Function, assume map[ssa.Value]bool) (map[string]bool, int) {
	return p.hashCoverageIn(fn, assume, map[*ssa.Function]bool{})
}

func (p *Prog) hashCoverageIn(fn *ssa.Function, assume map[ssa.Value]bool, seen map[*ssa.Function]bool) (map[string]bool, int) {
	cov := map[string]bool{}
	n := 0
	seen[fn] = true
	for _, s := range p.hashSinks(fn) {
		skip := false
		for _, f := range s.conds {
			if want, ok := assume[f.V]; ok && want != f.Val {
				skip = true
			}
		}
		if skip {
			continue
		}
		n++
		for _, a := range s.args {
			for k := range p.fieldsOf(a, 4) {
				cov[k] = true
			}
			// map keys: the key of a `range m` (not merely used as a lookup index) reaches the hash
			backSlice(a, SliceOpts{Interproc: 4, Prog: p, NoLookupIndex: true, Visit: func(x ssa.Value, _ *ssa.Function) {
				m := keyedMapOf(x)
				if m == nil {
					return
				}
				for k := range p.fieldsOf(m, 4) {
					cov["keys:"+k] = true
				}
			}})
		}
		for _, f := range s.conds {
			for k := range p.fieldsOf(f.V, 4) {
				cov[k] = true
			}
		}
		// helper that ranges over a map parameter and hashes its keys
		if c, ok := s.instr.(*ssa.Call); ok {
			if g := c.Call.StaticCallee(); g != nil {
				// what the helper reads from its own parameters (target.PassEnv inside hashPassEnv(h, target))
				// reaches the hash as well: an extracted part of the hash function hashes what it hashed inline
				if !seen[g] && g.Blocks != nil && len(seen) < 12 {
					sub, _ := p.hashCoverageIn(g, nil, seen)
					for k := range sub {
						cov[k] = true
					}
				}
				for idx := range p.hashKeyParams(g) {
					if idx < len(c.Call.Args) {
						for k := range p.fieldsOf(c.Call.Args[idx], 4) {
							cov["keys:"+k] = true
						}
					}
				}
			}
		}
	}
	return cov, n
}

// hashKeyParams: indices of map-typed parameters of helper g whose keys
// (obtained by ranging over the map) reach a hash write inside g.
func (p *Prog) hashKeyParams(g *ssa.Function) map[int]bool {
	out := map[int]bool{}
	if g == nil || g.Blocks == nil {
		return out
	}
	for _, s := range p.hashSinks(g) {
		for _, a := range s.args {
			backSlice(a, SliceOpts{NoLookupIndex: true, Visit: func(x ssa.Value, _ *ssa.Function) {
				m := keyedMapOf(x)
				if m == nil {
					return
				}
				for y := range backSlice(m, SliceOpts{}) {
					if prm, ok := y.(*ssa.Parameter); ok && prm.Parent() == g {
						for k, q := range g.Params {
							if q == prm {
								out[k] = true
							}
						}
					}
				}
			}})
		}
	}
	return out
}

type mustHash struct {
	attr   string
	fields []string // all must reach the hash
}

func (p *Prog) runHashCover(r *Report, rule string, fn *ssa.Function, assume map[ssa.Value]bool, table []mustHash) {
	cov, n := p.hashCoverage(fn, assume)
	r.Stats["hash_sinks_"+fn.Name()] = n
	var all []string
	for k := range cov {
		all = append(all, k)
	}
	sort.Strings(all)
	r.info(rule, "fields reaching the hash in "+fn.Name(), p.pos(fn.Pos()), fnName(fn), strings.Join(all, " "))
	for _, m := range table {
		for _, f := range m.fields {
			okk := cov[f]
			r.add(Obligation{Rule: rule, Instance: m.attr + " -> " + f, Site: p.pos(fn.Pos()), Func: fnName(fn), Path: true,
				Status: map[bool]string{true: "discharged", false: "violated"}[okk],
				Detail: map[bool]string{true: "value flows into a hash write (SSA backward slice of the write operands / controlling conditions, accessors followed to depth 4)",
					false: "no value derived from field " + f + " reaches any write into the hash of " + fn.Name() + ": two targets differing only in `" + m.attr + "` get the same hash, so a changed definition is treated as unchanged"}[okk],
				Key: rule + "|" + fnName(fn) + "|" + f})
		}
	}
}

// ---------------------------------------------------------------- E3 framing

// loopOf returns the innermost natural-loop header block that contains b
// (approximated through go/ssa's block comments and back edges), or nil.
func loopBlocks(fn *ssa.Function) map[*ssa.BasicBlock][]*ssa.BasicBlock {
	// header -> body blocks (blocks that can reach the header again and are dominated by it)
	out := map[*ssa.BasicBlock][]*ssa.BasicBlock{}
	for _, b := range fn.Blocks {
		for _, s := range b.Succs {
			if s.Dominates(b) { // back edge b -> s
				// collect natural loop
				body := map[*ssa.BasicBlock]bool{s: true}
				st := []*ssa.BasicBlock{b}
				for len(st) > 0 {
					x := st[len(st)-1]
					st = st[:len(st)-1]
					if body[x] {
						continue
					}
					body[x] = true
					st = append(st, x.Preds...)
				}
				for x := range body {
					out[s] = append(out[s], x)
				}
			}
		}
	}
	return out
}

func isConstData(v ssa.Value) bool {
	// []byte("x"), []byte{'='}, package-level separator variables
	for d := 0; d < 6; d++ {
		switch x := v.(type) {
		case *ssa.Const:
			return true
		case *ssa.Convert:
			v = x.X
		case *ssa.Slice:
			// slice of a local array literal filled with constants
			if a, ok := x.X.(*ssa.Alloc); ok {
				allConst := true
				n := 0
				if refs := a.Referrers(); refs != nil {
					for _, r := range *refs {
						if ia, ok := r.(*ssa.IndexAddr); ok {
							for _, s := range storesTo(ia) {
								n++
								if _, isC := s.(*ssa.Const); !isC {
									allConst = false
								}
							}
						}
					}
				}
				return allConst && n > 0
			}
			v = x.X
		case *ssa.UnOp:
			if g, ok := x.X.(*ssa.Global); ok && x.Op == token.MUL {
				_ = g
				return true // package-level byte slice used as a marker
			}
			return false
		default:
			return false
		}
	}
	return false
}

// concatHasConstBetween: v is a string concatenation a + "sep" + b with a constant part between variable parts.
func concatParts(v ssa.Value) (nVar int, constBetween bool) {
	var parts []ssa.Value
	var flat func(x ssa.Value)
	flat = func(x ssa.Value) {
		switch y := x.(type) {
		case *ssa.BinOp:
			if y.Op == token.ADD {
				flat(y.X)
				flat(y.Y)
				return
			}
		case *ssa.Convert:
			flat(y.X)
			return
		}
		parts = append(parts, x)
	}
	flat(v)
	lastVar := -1
	constBetween = true
	for k, pt := range parts {
		if _, isC := pt.(*ssa.Const); isC {
			continue
		}
		nVar++
		if lastVar >= 0 {
			sep := false
			for j := lastVar + 1; j < k; j++ {
				if _, isC := parts[j].(*ssa.Const); isC {
					sep = true
				}
			}
			if !sep {
				constBetween = false
			}
		}
		lastVar = k
	}
	return
}

type frameFinding struct {
	kind   string // "seq" or "pair"
	site   token.Pos
	attr   string
	ok     bool
	detail string
}

// hashFraming analyses every loop of fn that writes variable data to the hash.
func (p *Prog) hashFraming(fn *ssa.Function) []frameFinding {
	var out []frameFinding
	sinks := p.hashSinks(fn)
	loops := loopBlocks(fn)
	for _, a := range withAnon(fn)[1:] {
		for h, body := range loopBlocks(a) {
			loops[h] = body
		}
	}
	inLoop := func(b *ssa.BasicBlock) *ssa.BasicBlock {
		// innermost = the header with the smallest body containing b
		var best *ssa.BasicBlock
		bestN := 1 << 30
		for h, body := range loops {
			for _, x := range body {
				if x == b && len(body) < bestN {
					best, bestN = h, len(body)
				}
			}
		}
		if best == nil && b.Parent().Parent() != nil && strings.Contains(b.Parent().Synthetic, "range-over-func") {
			return b.Parent().Blocks[0] // the body of a range-over-func loop runs once per item
		}
		return best
	}
	type lw struct {
		sink    hashSink
		isConst bool
		framed  bool // written through a helper that frames its argument
	}
	byLoop := map[*ssa.BasicBlock][]lw{}
	var order []*ssa.BasicBlock
	for _, s := range sinks {
		framedHelper := false
		if _, direct := hashWriteArg(s.instr); !direct {
			// a helper call: fixed-width helpers (bools) need no framing, framing
			// helpers (length prefix / terminator around their argument) frame the
			// item themselves, raw helpers are analysed in their own body.
			g := callCommon(s.instr).StaticCallee()
			switch p.hashHelperKind(g, 0) {
			case "framed":
				framedHelper = true
			default:
				continue
			}
		}
		h := inLoop(s.instr.Block())
		if h == nil {
			continue
		}
		if _, seen := byLoop[h]; !seen {
			order = append(order, h)
		}
		if framedHelper {
			byLoop[h] = append(byLoop[h], lw{sink: s, framed: true})
			continue
		}
		byLoop[h] = append(byLoop[h], lw{sink: s, isConst: isConstData(s.args[0])})
	}
	for _, h := range order {
		ws := byLoop[h]
		nVar, nConst := 0, 0
		var firstVar hashSink
		attrs := map[string]bool{}
		nRaw := 0
		for _, w := range ws {
			if w.isConst {
				nConst++
				continue
			}
			if nVar == 0 {
				firstVar = w.sink
			}
			nVar++
			if !w.framed {
				nRaw++
			}
			if len(w.sink.args) == 0 {
				continue
			}
			for k := range p.fieldsOf(w.sink.args[0], 4) {
				if strings.HasPrefix(k, "core.BuildTarget.") || strings.HasPrefix(k, "core.TestFields.") {
					attrs[k] = true
				}
			}
		}
		if nVar == 0 {
			continue
		}
		var al []string
		for k := range attrs {
			al = append(al, k)
		}
		sort.Strings(al)
		attr := strings.Join(al, "+")
		if attr == "" {
			attr = "loop at " + h.Comment
		}
		// seq framing: a constant write in the loop body whose position relative to the data is fixed (terminator / separator), or a length write.
		// A constant that only sits BETWEEN two variable writes of one iteration (name '=' value) frames the pair, not the sequence.
		// self-delimiting data: BuildLabel.String()
		selfDelim := true
		for _, w := range ws {
			if w.isConst || w.framed {
				continue
			}
			sd := false
			for x := range backSlice(w.sink.args[0], SliceOpts{}) {
				if c, ok := x.(*ssa.Call); ok {
					n := calleeName(&c.Call)
					if n == "(core.BuildLabel).String" || n == "(fmt.Stringer).String" && false {
						sd = true
					}
				}
			}
			if !sd {
				selfDelim = false
			}
		}
		// terminator: last write of the iteration (in block order along the body) is constant, or first is constant
		framed := false
		if nConst > 0 {
			first, last := ws[0], ws[len(ws)-1]
			if first.isConst || last.isConst {
				framed = true
			}
		}
		// concatenation with trailing/leading constant in a single write
		if !framed && nVar == 1 && len(ws) == 1 {
			v := ws[0].sink.args[0]
			if cv, ok := v.(*ssa.Convert); ok {
				v = cv.X
			}
			if b, ok := v.(*ssa.BinOp); ok && b.Op == token.ADD {
				if _, isC := b.Y.(*ssa.Const); isC {
					framed = true
				}
			}
		}
		switch {
		case nRaw == 0:
			out = append(out, frameFinding{"seq", firstVar.instr.Pos(), attr, true, "every item is written through a helper that frames it (length prefix or terminator)"})
		case selfDelim:
			out = append(out, frameFinding{"seq", firstVar.instr.Pos(), attr, true, "items are build labels (self-delimiting: start with // and cannot contain / or : in the name)"})
		case framed:
			out = append(out, frameFinding{"seq", firstVar.instr.Pos(), attr, true, "each iteration writes a constant delimiter before/after its data"})
		default:
			out = append(out, frameFinding{"seq", firstVar.instr.Pos(), attr, false, "a sequence of free-form strings is written to the hash with no length prefix or terminator per item: moving a byte across an item boundary (e.g. [\"ab\",\"c\"] vs [\"a\",\"bc\"]) changes this attribute but not the hash"})
		}
		// pair separation: two variable writes in one iteration need a constant between them
		if nVar >= 2 {
			okPair := true
			lastVarIdx := -1
			for k, w := range ws {
				if w.isConst {
					continue
				}
				if w.framed {
					lastVarIdx = -1 // a framed item cannot run into its neighbours
					continue
				}
				// nested inner-loop writes belong to another loop header (handled there)
				if lastVarIdx >= 0 {
					sep := false
					for j := lastVarIdx + 1; j < k; j++ {
						if ws[j].isConst {
							sep = true
						}
					}
					if !sep {
						okPair = false
					}
				}
				lastVarIdx = k
			}
			out = append(out, frameFinding{"pair", firstVar.instr.Pos(), attr, okPair, map[bool]string{true: "a constant separator is written between the variable parts of one item", false: "two variable strings of one item (e.g. name and value) are written back to back with no separator: {\"GO\":\"PATH\"} and {\"GOPATH\":\"\"} hash identically"}[okPair]})
		}
		// single write that concatenates several variables
		for _, w := range ws {
			if w.isConst || w.framed {
				continue
			}
			v := w.sink.args[0]
			if cv, ok := v.(*ssa.Convert); ok {
				v = cv.X
			}
			if n, sep := concatParts(v); n >= 2 {
				out = append(out, frameFinding{"pair", w.sink.instr.Pos(), attr, sep, map[bool]string{true: "concatenated parts are separated by a constant", false: "variable strings are concatenated into one hash write with no separator between them"}[sep]})
			}
		}
	}
	return out
}

// hashHelperKind classifies a function that takes the hash and a datum:
// "fixed" writes only constants (e.g. a bool marker), "framed" writes the
// datum together with its length or a constant terminator, "raw" writes the
// datum alone, "" is not a helper.
func (p *Prog) hashHelperKind(g *ssa.Function, depth int) string {
	if g == nil || g.Blocks == nil || depth > 3 {
		return ""
	}
	hasHash := false
	for _, prm := range g.Params {
		if isHashType(prm.Type()) {
			hasHash = true
		}
	}
	if !hasHash {
		return ""
	}
	nVar, nConst, nLen := 0, 0, 0
	if len(loopBlocks(g)) > 0 {
		return "raw" // loops inside a helper are analysed on their own
	}
	eachInstr(g, false, func(_ *ssa.Function, i ssa.Instruction) {
		if a, ok := hashWriteArg(i); ok {
			if isConstData(a) {
				nConst++
				return
			}
			// a slice of a local fixed-size array ([8]byte filled by encoding/binary) is a fixed-width encoding
			if sl, ok := a.(*ssa.Slice); ok {
				if al, ok := sl.X.(*ssa.Alloc); ok {
					if pt, ok := al.Type().Underlying().(*types.Pointer); ok {
						if _, isArr := pt.Elem().Underlying().(*types.Array); isArr {
							nConst++
							return
						}
					}
				}
			}
			isLen := false
			for x := range backSlice(a, SliceOpts{}) {
				if c, ok := x.(*ssa.Call); ok {
					if b, ok := c.Call.Value.(*ssa.Builtin); ok && b.Name() == "len" {
						isLen = true
					}
				}
			}
			if isLen {
				nLen++
			} else {
				nVar++
			}
			return
		}
		if c, ok := i.(*ssa.Call); ok {
			if h := c.Call.StaticCallee(); h != nil && h != g {
				switch p.hashHelperKind(h, depth+1) {
				case "fixed":
					// a fixed-width write of a value: if that value is len(datum) it is a length prefix
					isLen := false
					for _, a := range c.Call.Args {
						for x := range backSlice(a, SliceOpts{}) {
							if cc, ok := x.(*ssa.Call); ok {
								if b, ok := cc.Call.Value.(*ssa.Builtin); ok && b.Name() == "len" {
									isLen = true
								}
							}
						}
					}
					if isLen {
						nLen++
					} else {
						nConst++
					}
				case "framed":
					nLen++
				case "raw":
					nVar++
				}
			}
		}
	})
	switch {
	case nVar == 0 && nLen == 0 && nConst > 0:
		return "fixed"
	case nVar == 0 && nLen > 0:
		return "fixed" // writes only a fixed-width encoding of an integer
	case nVar > 0 && (nLen > 0 || nConst > 0):
		return "framed"
	case nVar > 0:
		return "raw"
	}
	return ""
}

// keyedMapOf: x is a key of a map - the key of a `range m`, or the sequence maps.Keys(m) - and m is returned.
func keyedMapOf(x ssa.Value) ssa.Value {
	switch x := x.(type) {
	case *ssa.Extract:
		if x.Index != 1 {
			return nil
		}
		nx, ok := x.Tuple.(*ssa.Next)
		if !ok {
			return nil
		}
		rg, ok := nx.Iter.(*ssa.Range)
		if !ok {
			return nil
		}
		if _, isMap := rg.X.Type().Underlying().(*types.Map); !isMap {
			return nil
		}
		return rg.X
	case *ssa.Call:
		if calleeName(&x.Call) == "maps.Keys" && len(x.Call.Args) == 1 {
			return x.Call.Args[0]
		}
		// a repository helper that returns the keys of its map parameter (sortedKeys(m))
		if g := x.Call.StaticCallee(); g != nil && g.Blocks != nil && !keyHelperBusy[g] {
			keyHelperBusy[g] = true
			defer delete(keyHelperBusy, g)
			for _, ret := range returnsOf(g) {
				for _, res := range ret.Results {
					for y := range backSlice(res, SliceOpts{NoLookupIndex: true}) {
						m := keyedMapOf(y)
						if m == nil {
							continue
						}
						for z := range backSlice(m, SliceOpts{}) {
							if prm, ok := z.(*ssa.Parameter); ok && prm.Parent() == g {
								for k, q := range g.Params {
									if q == prm && k < len(x.Call.Args) {
										return x.Call.Args[k]
									}
								}
							}
						}
					}
				}
			}
		}
	}
	return nil
}

var keyHelperBusy = map[*ssa.Function]bool{}
