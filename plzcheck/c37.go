package main

import (
	"go/token"
	"go/types"
	"strings"

	"golang.org/x/tools/go/ssa"
)

func init() {
	register("C37", []string{"./src/core/...", "./src/parse/asp/..."}, checkC37)
}

// mustQuote: characters POSIX sh requires to be quoted to stand for themselves (XCU 2.2).
const mustQuote = "|&;<>()$`\\\"' \t\n"

func checkC37(p *Prog, r *Report) {
	r.Explanation = "Structural clauses of $(location)-style expansion. (1) quoting provenance: every value returned by replaceSequence / checkAndReplaceSequence is the result of the quoting function, a base64 encoding, a recursive expansion, or a strings.Builder into which only quoted values and a constant separator were written. (2) table agreement: the trigger set of quote() contains every character POSIX sh requires to be quoted (| & ; < > ( ) $ ` \\ \" ' space tab newline). (3) rejection: a label that is not a dependency reaches a panic before any expansion (DependenciesFor empty edge), a single-valued sequence on a multi-output dependency reaches a panic, and the arity guard counts the same accessor the expansion loop ranges over; replaceSequencesInternal recovers every panic into its error result. (4) sibling agreement on tool-ness: the `tool` flag passed to the expansion comes from BuildTarget.IsTool, the same predicate core.IterInputs uses to keep tools out of the build directory; tool outputs expand to absolute paths of the tool's out dir (they are not copied), everything else to the dependency's package directory or out dir. (5) all nine sequence kinds are expanded by replaceSequencesInternal."
	r.NotCovered = []string{"existence of the expanded path at run time", "user-level quoting around a sequence in the command", "remote execution path layout"}
	rs := p.Fn("core", "replaceSequence")
	rsl := p.Fn("core", "replaceSequenceLabel")
	car := p.Fn("core", "checkAndReplaceSequence")
	rsi := p.Fn("core", "replaceSequencesInternal")
	quote := p.Fn("core", "quote")
	fileDest := p.Fn("core", "fileDestination")
	isTool := p.Fn("core", "BuildTarget.IsTool")
	outputs := p.Fn("core", "BuildTarget.Outputs")
	depsFor := p.Fn("core", "BuildTarget.DependenciesFor")
	if rs == nil || rsl == nil || car == nil || rsi == nil || quote == nil || fileDest == nil || isTool == nil || outputs == nil || depsFor == nil {
		r.unresolved("E7.expansion-is-quoted", "replaceSequence / replaceSequenceLabel / checkAndReplaceSequence / replaceSequencesInternal / quote / fileDestination / IsTool / Outputs / DependenciesFor")
		return
	}
	// (1)
	rule := "E7.expansion-is-quoted"
	quotedValue := func(v ssa.Value) (bool, string) {
		c, ok := v.(*ssa.Call)
		if !ok {
			return false, "not a call result"
		}
		if callsFn(c, quote, rs, rsl, car) {
			return true, "quoted / recursive expansion"
		}
		if strings.HasSuffix(calleeName(&c.Call), ".EncodeToString") {
			return true, "base64 text"
		}
		return false, calleeName(&c.Call)
	}
	for _, fn := range []*ssa.Function{rs, car} {
		k := 0
		for _, ret := range returnsOf(fn) {
			v := unspill(ret.Results[0])
			k++
			ok, why := quotedValue(v)
			if !ok {
				// strings.TrimRight(builder.String(), " ") with only quoted writes
				if c, isC := v.(*ssa.Call); isC && isCallTo(c, "strings.TrimRight", "strings.TrimSpace", "(*strings.Builder).String") {
					allQuoted, n := true, 0
					eachInstr(fn, false, func(_ *ssa.Function, i ssa.Instruction) {
						w, isW := i.(*ssa.Call)
						if !isW || !isCallTo(w, "(*strings.Builder).WriteString") {
							return
						}
						n++
						arg := w.Call.Args[1]
						if s, isS := constString(arg); isS && strings.TrimSpace(s) == "" {
							return
						}
						if q, _ := quotedValue(arg); !q {
							allQuoted = false
						}
					})
					if allQuoted && n > 0 {
						ok, why = true, "builder of quoted values"
					} else {
						why = "a value written to the output builder is not quoted"
					}
				}
			}
			desc := describeValue(v)
			key := rule + "|" + fnName(fn) + "|" + desc
			st := "discharged"
			detail := why
			if !ok {
				st = "violated"
				detail = "this expansion returns " + desc + " without passing it through quote(): a path containing a shell metacharacter or a space becomes several words / is expanded by the shell"
			}
			r.add(Obligation{Rule: rule, Instance: fn.Name() + " returns " + desc, Site: p.pos(ret.Pos()), Func: fnName(fn), Status: st, Detail: detail, Key: key, Path: true})
		}
		if k == 0 {
			r.unresolved(rule, "returns of "+fn.Name())
		}
	}
	// (2)
	rule = "E10.quote-trigger-set"
	{
		set, found := "", false
		eachInstr(quote, false, func(_ *ssa.Function, i ssa.Instruction) {
			if c, ok := i.(*ssa.Call); ok && isCallTo(c, "strings.ContainsAny", "strings.IndexAny") {
				if s, ok := constString(c.Call.Args[1]); ok {
					set, found = s, true
				}
			}
		})
		missing := ""
		for _, ch := range mustQuote {
			if !strings.ContainsRune(set, ch) {
				missing += string(ch)
			}
		}
		st := "discharged"
		if !found || missing != "" {
			st = "violated"
		}
		r.add(Obligation{Rule: rule, Instance: "quote() triggers on every character sh requires to be quoted", Site: p.pos(quote.Pos()), Func: fnName(quote), Status: st, Path: true, Key: rule + "|" + fnName(quote) + "|posix must-quote set",
			Detail: "trigger set " + strconvQuote(set) + "; missing " + strconvQuote(missing) + ": quote(\"pkg/a b$c\") is returned unchanged, i.e. two shell words and a parameter expansion"})
		// the wrapper must neutralise what stays special inside the quotes it uses
		{
			wrap := ""
			eachInstr(quote, false, func(_ *ssa.Function, i ssa.Instruction) {
				if bo, ok := i.(*ssa.BinOp); ok && bo.Op == token.ADD {
					for _, op := range []ssa.Value{bo.X, bo.Y} {
						if c, ok := constString(op); ok && (c == "\"" || c == "'") {
							wrap = c
						}
					}
				}
			})
			replaced := map[string]bool{}
			eachInstr(quote, false, func(_ *ssa.Function, i ssa.Instruction) {
				c, ok := i.(*ssa.Call)
				if !ok {
					return
				}
				if isCallTo(c, "strings.ReplaceAll") {
					if o, ok := constString(c.Call.Args[1]); ok {
						replaced[o] = true
					}
				}
				if isCallTo(c, "(*strings.Replacer).Replace") {
					// the replacer is a package variable initialised with constant pairs
					for x := range backSlice(c.Call.Args[0], SliceOpts{}) {
						g, ok := x.(*ssa.Global)
						if !ok {
							continue
						}
						for _, f := range p.allFuncs {
							if f.Name() != "init" {
								continue
							}
							eachInstr(f, false, func(_ *ssa.Function, j ssa.Instruction) {
								st, ok := j.(*ssa.Store)
								if !ok || st.Addr != ssa.Value(g) {
									return
								}
								nr, ok := st.Val.(*ssa.Call)
								if !ok || !isCallTo(nr, "strings.NewReplacer") {
									return
								}
								k := 0
								var consts []string
								for y := range backSlice(nr.Call.Args[0], SliceOpts{}) {
									if cs, ok := constString(y); ok {
										consts = append(consts, cs)
										k++
									}
								}
								for _, cs := range consts {
									if len(cs) == 1 {
										replaced[cs] = true
									}
								}
							})
						}
					}
				}
			})
			need := ""
			switch wrap {
			case "\"":
				need = "$`\\\""
			case "'":
				need = "'"
			}
			miss := ""
			for _, ch := range need {
				if !replaced[string(ch)] {
					miss += string(ch)
				}
			}
			if found && missing == "" {
				r.check(wrap != "" && miss == "", rule, "characters special inside the wrapping quotes are rewritten", p.pos(quote.Pos()), fnName(quote), "wrapping with "+wrap+" and rewriting "+strconvQuote(need), "quote() wraps with "+wrap+" but leaves "+strconvQuote(miss)+" as they are: inside those quotes the shell still expands/terminates on them")
			}
		}
		// every character in today's set must stay (regression guard against shrinking)
		for _, ch := range "|&;()<>" {
			if found && !strings.ContainsRune(set, ch) {
				r.bad(rule, "quote() lost "+string(ch), p.pos(quote.Pos()), fnName(quote), "the trigger set of quote() no longer contains "+string(ch))
			}
		}
	}
	// (3)
	// the `label|entry_point` annotation is split off labels only: a plain file name may contain `|`
	if sep := p.Fn("core", "splitEntryPoint"); sep == nil {
		r.unresolved("E5.entry-point-split-only-for-labels", "core.splitEntryPoint")
	} else {
		n, bad := 0, 0
		var site token.Pos
		for _, ci := range callsInFn(rs, sep) {
			n++
			lab := false
			for _, f := range factsAt(ci) {
				if c, ok := f.V.(*ssa.Call); ok && f.Val && strings.HasSuffix(calleeName(&c.Call), "LooksLikeABuildLabel") {
					lab = true
				}
			}
			if !lab {
				bad++
				site = ci.Pos()
			}
		}
		if n == 0 {
			r.okTrivial("E5.entry-point-split-only-for-labels", "replaceSequence does not split entry points itself", p.pos(rs.Pos()), fnName(rs), "no call")
		} else {
			r.check(bad == 0, "E5.entry-point-split-only-for-labels", "splitEntryPoint is applied only to build labels", p.pos(site), fnName(rs), itoa(n)+" call(s), each under LooksLikeABuildLabel(in)", "replaceSequence cuts its argument at the first `|` before knowing that it is a build label: $(location pipe|line.txt) on a source file of that name expands to pkg/pipe, a path that does not exist, and no error is raised")
		}
	}
	// a label that is both a dependency and data must stay a build dependency: AddDatum marks the dependency data-only
	// whatever it was before, and only a later AddDependency clears that again
	if pt, ad := p.Fn("parse/asp", "populateTarget"), p.Fn("core", "BuildTarget.AddDatum"); pt == nil || ad == nil {
		r.unresolved("E5.data-registered-before-deps", "asp.populateTarget / core.BuildTarget.AddDatum")
	} else {
		// does AddDatum set the flag unconditionally?
		uncond := false
		eachInstr(ad, false, func(_ *ssa.Function, i ssa.Instruction) {
			st, ok := i.(*ssa.Store)
			if !ok || fieldKey(st.Addr) != "core.depInfo.data" {
				return
			}
			if b, isC := constBool(st.Val); isC && b {
				guarded := false
				for _, f := range factsAt(st) {
					if c, ok := f.V.(*ssa.Call); ok && strings.HasSuffix(calleeName(&c.Call), "dependencyInfo") {
						guarded = true
					}
					if bo, ok := f.V.(*ssa.BinOp); ok && tagsOf(bo.X, SliceOpts{})["call:(*core.BuildTarget).dependencyInfo"] {
						guarded = true
					}
				}
				if !guarded {
					uncond = true
				}
			}
		})
		if !uncond {
			r.okTrivial("E5.data-registered-before-deps", "AddDatum does not demote an existing dependency to data-only", p.pos(ad.Pos()), fnName(ad), "the data flag is set only for a dependency that was not there before")
		} else {
			var dataCalls, depCalls []ssa.Instruction
			addDeps := p.Fn("parse/asp", "addDependencies")
			eachInstr(pt, false, func(_ *ssa.Function, i ssa.Instruction) {
				cc := callCommon(i)
				if cc == nil {
					return
				}
				if addDeps != nil && cc.StaticCallee() == addDeps {
					depCalls = append(depCalls, i)
				}
				for _, a := range cc.Args {
					if mc, ok := a.(*ssa.MakeClosure); ok && strings.Contains(mc.Fn.Name(), "AddDatum") {
						dataCalls = append(dataCalls, i)
					}
				}
			})
			late := false
			for _, d := range dataCalls {
				for _, c := range depCalls {
					if existsPath(pt, c, d, nil) {
						late = true
					}
				}
			}
			if len(dataCalls) == 0 || len(depCalls) == 0 {
				r.unresolved("E5.data-registered-before-deps", "the data and deps registrations in populateTarget")
			} else {
				r.check(!late, "E5.data-registered-before-deps", "data is registered before deps / exported_deps", p.pos(dataCalls[0].Pos()), fnName(pt), "no addDependencies call precedes the registration of data", "populateTarget registers `data` after the dependencies: AddDatum then marks a label that is also in deps as data-only, BuildDependencies() leaves it out, its outputs are not linked into the build directory, and $(location :x) expands to a path that does not exist when the command runs")
			}
		}
	}
	// inputs are linked into the build directory once per *path*: the same target can arrive as different inputs (all
	// outputs, one named group, an entry point), so a skip keyed by the input's label drops files that $(locations) names
	if is := p.Fn("core", "IterSources"); is == nil {
		r.unresolved("E5.sources-deduplicated-by-path-only", "core.IterSources")
	} else {
		byLabel := false
		for _, g := range withAnon(is) {
			eachInstr(g, false, func(_ *ssa.Function, i ssa.Instruction) {
				lk, ok := i.(*ssa.Lookup)
				if !ok {
					return
				}
				if mt, ok := lk.X.Type().Underlying().(*types.Map); ok && strings.HasSuffix(typeString(mt.Key()), "core.BuildLabel") {
					byLabel = true
				}
			})
		}
		r.check(!byLabel, "E5.sources-deduplicated-by-path-only", "IterSources skips an input only because its path was already linked", p.pos(is.Pos()), fnName(is), "no set keyed by build label in IterSources", "IterSources skips inputs whose label was seen before: //x:gen|hdrs and //x:gen have the same label but different paths, so after the named group the remaining outputs are never linked, while $(locations //x:gen) still names them")
	}
	// looking a label up among the dependencies may add the target's own subrepo to a label that has none; it never takes
	// a subrepo away or swaps it (the tool / non-tool decision next to it is made on the label as written)
	if df := p.Fn("core", "BuildTarget.dependenciesFor"); df == nil {
		r.unresolved("E9.tool-predicate-agreement", "core.BuildTarget.dependenciesFor")
	} else {
		bad := false
		eachInstr(df, false, func(_ *ssa.Function, i ssa.Instruction) {
			st, ok := i.(*ssa.Store)
			if !ok || fieldKey(st.Addr) != "core.BuildLabel.Subrepo" {
				return
			}
			wasEmpty := false
			for _, f := range factsAt(st) {
				if bo, ok := f.V.(*ssa.BinOp); ok && bo.Op == token.EQL && f.Val {
					if sv, isC := constString(bo.Y); isC && sv == "" && fieldKeyOfLoad(bo.X) == "core.BuildLabel.Subrepo" {
						if receiverOf(bo.X) == receiverOf(st.Addr) || receiverOf(bo.X) != nil {
							wasEmpty = true
						}
					}
				}
			}
			if sv, isC := constString(st.Val); isC && sv == "" {
				wasEmpty = false
			}
			if !wasEmpty {
				bad = true
			}
		})
		r.check(!bad, "E9.tool-predicate-agreement", "dependenciesFor only completes a label that has no subrepo", p.pos(df.Pos()), fnName(df), "label.Subrepo is assigned only under label.Subrepo == \"\", and never to \"\"", "dependenciesFor retries a lookup with the label's subrepo removed or replaced: the lookup then succeeds for a host tool referred to through the architecture subrepo, but IsTool next to it is still asked about the label as written, takes the non-tool branch, and $(exe //tools:gen) expands to a relative path that is never linked into the build directory instead of being rejected")
	}
	rule = "E5.bad-reference-rejected"
	{
		// non-dependency: expansion only on the len(deps)==0 false edge, panic on the true edge
		var dcall *ssa.Call
		for _, ci := range callsInFn(rsl, depsFor) {
			dcall, _ = ci.(*ssa.Call)
		}
		okk := false
		if dcall != nil {
			for _, ci := range callsInFn(rsl, car) {
				c := ci.(*ssa.Call)
				if !derivesFromValue(c.Call.Args[2], dcall) {
					continue // the self-reference case passes target itself
				}
				for _, f := range factsAt(c) {
					if bo, ok := f.V.(*ssa.BinOp); ok && bo.Op == token.EQL && !f.Val {
						if z, ok := constInt(bo.Y); ok && z == 0 && derivesFromValue(bo.X, dcall) {
							okk = true
						}
					}
				}
			}
			// panic on the empty edge
			pan := false
			for _, b := range rsl.Blocks {
				if _, isP := b.Instrs[len(b.Instrs)-1].(*ssa.Panic); isP {
					for _, f := range condFacts(b) {
						if bo, ok := f.V.(*ssa.BinOp); ok && bo.Op == token.EQL && f.Val && derivesFromValue(bo.X, dcall) {
							pan = true
						}
					}
				}
			}
			okk = okk && pan
		}
		r.check(okk, rule, "non-dependency label panics before expansion", p.pos(rsl.Pos()), fnName(rsl), "expansion of DependenciesFor(label)[0] is on the non-empty edge; the empty edge panics", "a sequence naming something that is not a dependency is expanded anyway (no panic on the empty DependenciesFor edge)")
		// arity guard counts the accessor the loop ranges over
		var guardAcc, loopAcc []string
		for _, b := range car.Blocks {
			if _, isP := b.Instrs[len(b.Instrs)-1].(*ssa.Panic); !isP {
				continue
			}
			for _, f := range condFacts(b) {
				if bo, ok := f.V.(*ssa.BinOp); ok && bo.Op == token.GTR && f.Val {
					if one, ok := constInt(bo.Y); ok && one == 1 {
						for k := range tagsOf(bo.X, SliceOpts{}) {
							if strings.HasPrefix(k, "call:(*core.BuildTarget).") {
								guardAcc = append(guardAcc, strings.TrimPrefix(k, "call:"))
							}
						}
					}
				}
			}
		}
		for _, l := range sliceRangeLoops(car) {
			for k := range tagsOf(l.over, SliceOpts{}) {
				if strings.HasPrefix(k, "call:(*core.BuildTarget).") {
					loopAcc = append(loopAcc, strings.TrimPrefix(k, "call:"))
				}
			}
		}
		agree := len(guardAcc) > 0 && len(loopAcc) > 0
		for _, g := range guardAcc {
			found := false
			for _, l := range loopAcc {
				if l == g {
					found = true
				}
			}
			if !found {
				agree = false
			}
		}
		r.check(agree, rule, "single-output guard counts what the expansion iterates", p.pos(car.Pos()), fnName(car), "guard: len("+strings.Join(guardAcc, ",")+") > 1 panics; loop ranges over "+strings.Join(loopAcc, ","), "the guard that rejects $(location) on a multi-output dependency counts "+strings.Join(guardAcc, ",")+" while the expansion loop ranges over "+strings.Join(loopAcc, ",")+": dependencies whose outputs are not all in the counted list expand to several words instead of being rejected")
		// recover
		rec := false
		for _, g := range rsi.AnonFuncs {
			hasRecover, setsErr := false, false
			eachInstr(g, false, func(_ *ssa.Function, i ssa.Instruction) {
				if c, ok := i.(*ssa.Call); ok {
					if b, ok := c.Call.Value.(*ssa.Builtin); ok && b.Name() == "recover" {
						hasRecover = true
					}
				}
				if st, ok := i.(*ssa.Store); ok {
					if _, isFV := st.Addr.(*ssa.FreeVar); isFV && typeString(st.Val.Type()) == "error" {
						setsErr = true
					}
				}
			})
			if hasRecover && setsErr {
				// and it is deferred
				eachInstr(rsi, false, func(_ *ssa.Function, i ssa.Instruction) {
					if d, ok := i.(*ssa.Defer); ok {
						if mc, ok := d.Call.Value.(*ssa.MakeClosure); ok && mc.Fn == g {
							rec = true
						}
					}
				})
			}
		}
		r.check(rec, rule, "panics become the error result", p.pos(rsi.Pos()), fnName(rsi), "a deferred closure recovers and assigns the error result", "replaceSequencesInternal no longer recovers the panics raised for bad references: plz crashes instead of reporting an error")
	}
	// (4)
	rule = "E9.tool-predicate-agreement"
	{
		n := 0
		for _, ci := range callsInFn(rsl, car) {
			c := ci.(*ssa.Call)
			arg := c.Call.Args[len(c.Call.Args)-1]
			n++
			if b, isC := constBool(arg); isC && !b {
				r.okTrivial(rule, "tool flag constant false (self reference)", p.pos(c.Pos()), fnName(rsl), "a target is never its own tool")
				continue
			}
			cc, ok := arg.(*ssa.Call)
			r.check(ok && callsFn(cc, isTool), rule, "tool flag = target.IsTool(label)", p.pos(c.Pos()), fnName(rsl), "decided by BuildTarget.IsTool", "whether the referenced dependency is a tool is decided by something other than BuildTarget.IsTool, the predicate IterInputs uses to keep tools out of the build directory: a (named) tool is expanded to a path inside the build directory where it does not exist")
		}
		if n == 0 {
			r.unresolved(rule, "checkAndReplaceSequence calls in replaceSequenceLabel")
		}
		it := p.Fn("core", "IterInputs")
		uses := false
		if it != nil {
			for _, g := range withAnon(it) {
				if len(callsInFn(g, isTool)) > 0 {
					uses = true
				}
			}
		}
		r.check(uses, rule, "IterInputs excludes tools by IsTool", p.pos(it.Pos()), fnName(it), "same predicate on the other side", "IterInputs no longer uses BuildTarget.IsTool")
		// tool => absolute path
		var toolPrm *ssa.Parameter
		for _, prm := range car.Params {
			if prm.Name() == "tool" {
				toolPrm = prm
			}
		}
		absOK := false
		eachInstr(car, false, func(_ *ssa.Function, i ssa.Instruction) {
			w, ok := i.(*ssa.Call)
			if !ok || !isCallTo(w, "(*strings.Builder).WriteString") {
				return
			}
			if toolPrm != nil && hasFact(factsAt(w), true, func(v ssa.Value) bool { return v == ssa.Value(toolPrm) }) {
				tg := tagsOf(w.Call.Args[1], SliceOpts{})
				if tg["call:path/filepath.Abs"] && tg["call:(*core.BuildTarget).OutDir"] {
					absOK = true
				}
			}
		})
		r.check(absOK, rule, "tool outputs expand to absolute out-dir paths", p.pos(car.Pos()), fnName(car), "on the tool edge the written path is filepath.Abs(<dep.OutDir()>/...)", "a tool's outputs are not expanded to the absolute path of its out directory (tools are not copied into the build directory)")
		// fileDestination table
		okFD := true
		for _, rc := range returnCases(fileDest, 0) {
			tg := tagsOf(rc.Vals[0], SliceOpts{})
			outP := false
			for _, f := range rc.Facts {
				if prm, ok := f.V.(*ssa.Parameter); ok && prm.Name() == "outPrefix" && f.Val {
					outP = true
				}
			}
			if outP && !tg["call:(*core.BuildTarget).OutDir"] {
				okFD = false
			}
			if !outP && tg["call:(*core.BuildTarget).OutDir"] {
				okFD = false
			}
		}
		r.check(okFD, rule, "out_* sequences use the out dir, the others the build-dir layout", p.pos(fileDest.Pos()), fnName(fileDest), "OutDir() exactly on the outPrefix edge", "fileDestination mixes up the out directory and the build-directory layout")
	}
	// (5) all nine kinds expanded
	rule = "E10.sequence-kinds"
	{
		kinds := map[string]bool{}
		eachInstr(rsi, false, func(_ *ssa.Function, i ssa.Instruction) {
			c, ok := i.(*ssa.Call)
			if !ok || !strings.HasSuffix(calleeName(&c.Call), "ReplaceAllStringFunc") {
				return
			}
			for x := range backSlice(c.Call.Args[0], SliceOpts{}) {
				if g, ok := x.(*ssa.Global); ok {
					kinds[g.Name()] = true
				}
			}
		})
		want := []string{"locationReplacement", "locationsReplacement", "exeReplacement", "outExeReplacement", "outReplacement", "outsReplacement", "dirReplacement", "outDirReplacement", "hashReplacement"}
		missing := ""
		for _, w := range want {
			if !kinds[w] {
				missing += w + " "
			}
		}
		r.check(missing == "", rule, "every documented sequence kind is expanded", p.pos(rsi.Pos()), fnName(rsi), itoa(len(kinds))+" regex tables applied", "sequence kinds not expanded any more: "+missing)
	}
}

// describeValue gives a short, line-free description of a returned value.
func describeValue(v ssa.Value) string {
	switch x := v.(type) {
	case *ssa.Call:
		return "result of " + calleeName(&x.Call)
	case *ssa.Parameter:
		return "parameter " + x.Name()
	case *ssa.Const:
		return "constant"
	case *ssa.Phi:
		return "merged value"
	}
	return strings.TrimPrefix(strings.TrimPrefix(typeStringOf(v), "*ssa."), "ssa.")
}

func typeStringOf(v ssa.Value) string {
	switch v.(type) {
	case *ssa.BinOp:
		return "expression"
	case *ssa.UnOp:
		return "loaded value"
	case *ssa.Extract:
		return "tuple element"
	}
	return "value"
}
