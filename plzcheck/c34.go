package main

import (
	"go/token"
	"strings"

	"golang.org/x/tools/go/ssa"
)

func init() {
	register("C34", []string{"./src/fs/...", "./src/cache/...", "./src/core/..."}, checkC34)
}

// destructive file-system calls: name -> index of the argument that is created / modified / removed
var destructiveArg = map[string]int{
	"os.Remove": 0, "os.RemoveAll": 0, "fs.RemoveAll": 0, "os.Create": 0, "os.WriteFile": 0, "os.Chmod": 0, "os.Chtimes": 0, "os.Truncate": 0,
	"os.MkdirAll": 0, "os.Mkdir": 0, "os.OpenFile": 0, "os.Rename": 0, "os.Symlink": 1, "os.Link": 1, "fs.WriteFile": 1, "fs.CopyFile": 1, "fs.copyFile": 1, "fs.renameFile": 1, "os.CreateTemp": 0,
}

func checkC34(p *Prog, r *Report) {
	r.Explanation = "Structural clauses of tree copying/linking (fs/copy.go and the file helpers it uses). (1) the source is never modified: every creating / removing / renaming / chmod-ing call in CopyOrLinkFile, RecursiveCopyOrLinkFile, copySymlink and CopyFile takes a path that does not derive from the source parameter (os.Rename's source must not derive from it either). (2) kind exhaustiveness in the walk callback of RecursiveCopyOrLinkFile: directory entries reach MkdirAll(dest) (empty directories are reproduced), symlink entries reach a call that always recreates a symlink (for linking and for copying), everything else reaches CopyOrLinkFile. (3) symlink targets are reproduced verbatim: the first argument of every os.Symlink in these functions is the unmodified result of os.Readlink. (4) the destination of each entry is Join(to, name[len(from):]). (5) link fallback: after os.Link failed with fallback enabled, success can only be reported by CopyFile (an existing destination is replaced, not kept). (6) errors of every entry are returned by the walk callback."
	r.NotCovered = []string{"byte equality of copied contents", "permission bits and ownership", "hard-link semantics of the host filesystem"}
	col := p.Fn("fs", "CopyOrLinkFile")
	rec := p.Fn("fs", "RecursiveCopyOrLinkFile")
	cs := p.Fn("fs", "copySymlink")
	cf := p.Fn("fs", "CopyFile")
	if col == nil || rec == nil || cf == nil {
		r.unresolved("E8.source-untouched", "fs.CopyOrLinkFile / RecursiveCopyOrLinkFile / CopyFile")
		return
	}
	importRules(p, r, checkC12, "cache/", "E9.archive-writer-reader")
	// preparing a source links it whatever is already at the destination (another input may have created a parent
	// directory of it): PrepareSource reaches RecursiveLink on every successful path
	if ps := p.Fn("core", "PrepareSource"); ps == nil {
		r.unresolved("E5.prepare-always-links", "core.PrepareSource")
	} else {
		skip := false
		n := 0
		for _, rc := range returnCases(ps, 0) {
			if !isNilConst(rc.Vals[0]) {
				continue
			}
			n++
			if existsPath(ps, nil, rc.Ret, func(j ssa.Instruction) bool {
				return isCallTo(j, "fs.RecursiveLink", "fs.RecursiveCopy", "fs.CopyOrLinkFile")
			}) {
				skip = true
			}
		}
		r.check(!skip, "E5.prepare-always-links", "PrepareSource cannot succeed without linking the source", p.pos(ps.Pos()), fnName(ps), "every nil return lies behind RecursiveLink", "PrepareSource returns success without linking when something already exists at the destination: a directory output whose destination directory was created by a file linked underneath it earlier is silently skipped, so none of its files, sub-directories or links reach the build directory")
	}
	// a copy always transfers the content: CopyFile reports success only as the result of writing the destination
	if wf := p.Fn("fs", "WriteFile"); wf == nil {
		r.unresolved("E5.copy-writes-the-content", "fs.WriteFile")
	} else {
		n, leak := 0, ""
		for _, rc := range returnCases(cf, 0) {
			n++
			v := rc.Vals[0]
			if c, ok := v.(*ssa.Call); ok && callsFn(c, wf) {
				continue
			}
			if k, isNil := errKnown(rc.Facts, []ssa.Value{v}); k && !isNil {
				continue
			}
			leak = p.pos(rc.Site)
		}
		r.check(n > 0 && leak == "", "E5.copy-writes-the-content", "CopyFile succeeds only by writing the destination", p.pos(cf.Pos()), fnName(cf), "every return is WriteFile's result or an error known to be non-nil", "CopyFile can return success (at "+leak+") without writing the destination, e.g. when an existing file has the same size, mode and a newer mtime: a regenerated source of the same length leaves the old content in place while the copy reports nil")
	}
	var cb *ssa.Function
	for _, ci := range callsIn(rec, false, "fs.WalkMode", "fs.Walk") {
		for _, a := range callCommon(ci).Args {
			if g := closureOfArg(a); g != nil && g.Parent() != nil {
				cb = g
			}
		}
	}
	if cb == nil {
		r.unresolved("E9.kind-exhaustive", "walk callback of RecursiveCopyOrLinkFile")
		return
	}
	fns := []*ssa.Function{col, rec, cb, cf}
	if cs != nil {
		fns = append(fns, cs)
	}
	// (1)
	rule := "E8.source-untouched"
	{
		n := 0
		for _, fn := range fns {
			top := topFunc(fn)
			var from *ssa.Parameter
			for _, prm := range top.Params {
				if prm.Name() == "from" || prm.Name() == "name" && top == cs {
					from = prm
				}
			}
			if fn == cb && len(fn.Params) > 0 {
				from = fn.Params[0] // the walked source path
			}
			if from == nil {
				continue
			}
			eachInstr(fn, false, func(_ *ssa.Function, i ssa.Instruction) {
				c, ok := i.(*ssa.Call)
				if !ok {
					return
				}
				name := calleeName(&c.Call)
				idx, isD := destructiveArg[name]
				if !isD || idx >= len(c.Call.Args) {
					return
				}
				n++
				arg := c.Call.Args[idx]
				touches := derivesFromValue(arg, from)
				if fn == cb {
					// dest := Join(to, name[len(from):]) legitimately derives from the walked name via the suffix; the
					// violation is passing the walked path itself
					touches = resolveLoad(arg) == ssa.Value(from) || arg == ssa.Value(from)
				}
				if name == "os.Rename" && derivesFromValue(c.Call.Args[0], from) {
					touches = true
				}
				r.check(!touches, rule, fn.Name()+": "+name+" does not act on the source", p.pos(c.Pos()), fnName(fn), "the modified path does not derive from the source parameter", name+" is applied to the source path: copying or linking a tree modifies or removes the tree being copied")
			})
		}
		if n < 4 {
			r.unresolved(rule, "destructive calls in the copy functions (found "+itoa(n)+")")
		}
	}
	// (2)
	rule = "E9.kind-exhaustive"
	{
		modePrm := cb.Params[1]
		isMode := func(v ssa.Value, m string) bool {
			c, ok := v.(*ssa.Call)
			return ok && c.Call.IsInvoke() && c.Call.Method.Name() == m && c.Call.Value == ssa.Value(modePrm)
		}
		assume := func(dir, link bool) map[ssa.Value]bool {
			a := map[ssa.Value]bool{}
			eachInstr(cb, false, func(_ *ssa.Function, i ssa.Instruction) {
				if iff, ok := i.(*ssa.If); ok {
					f := normFact(iff.Cond, true)
					if isMode(f.V, "IsDir") {
						a[f.V] = dir
					}
					if isMode(f.V, "IsSymlink") {
						a[f.V] = link
					}
				}
			})
			return a
		}
		// directories
		skipDir := existsPathAssuming(cb, nil, nil, func(j ssa.Instruction) bool { return isCallTo(j, "os.MkdirAll", "os.Mkdir") }, assume(true, false))
		r.check(!skipDir, rule, "directory entries are created (also empty ones)", p.pos(cb.Pos()), fnName(cb), "with IsDir() every path reaches MkdirAll(dest)", "a directory entry can pass through the walk callback without being created: empty directories are lost")
		// symlinks: must reach a call that recreates a symlink whatever the link flag
		alwaysSymlinks := func(g *ssa.Function) bool {
			if g == nil || g.Blocks == nil {
				return false
			}
			// every return that is not under an `err != nil` fact passes os.Symlink
			for _, ret := range returnsOf(g) {
				errPath := false
				for _, f := range condFacts(ret.Block()) {
					if _, eq, ok := isNilCmp(f.V); ok && eq != f.Val {
						errPath = true
					}
				}
				if errPath {
					continue
				}
				if existsPath(g, nil, ret, func(j ssa.Instruction) bool { return isCallTo(j, "os.Symlink") }) {
					return false
				}
			}
			return true
		}
		skipLink := existsPathAssuming(cb, nil, nil, func(j ssa.Instruction) bool {
			if isCallTo(j, "os.Symlink") {
				return true
			}
			if cc := callCommon(j); cc != nil {
				if g := cc.StaticCallee(); g != nil && fnPkg(g) == modPath+"/src/fs" && alwaysSymlinks(g) {
					return true
				}
			}
			return false
		}, assume(false, true))
		r.check(!skipLink, rule, "symlink entries are recreated as symlinks", p.pos(cb.Pos()), fnName(cb), "with IsSymlink() every path reaches a call that always ends in os.Symlink", "a symlink inside the tree can be handed to a routine that recreates links only when hard-linking: when copying, it is dereferenced and written as a regular file")
		// regular
		skipReg := existsPathAssuming(cb, nil, nil, func(j ssa.Instruction) bool { return callsFn(j, col) }, assume(false, false))
		r.check(!skipReg, rule, "regular entries are copied or linked", p.pos(cb.Pos()), fnName(cb), "with neither IsDir() nor IsSymlink() every path reaches CopyOrLinkFile", "a regular file can pass through the walk callback without being copied or linked")
		// (6) results returned
		drop := false
		eachInstr(cb, false, func(_ *ssa.Function, i ssa.Instruction) {
			c, ok := i.(*ssa.Call)
			if !ok || c.Call.StaticCallee() == nil || typeString(c.Type()) != "error" {
				return
			}
			if refs := c.Referrers(); refs == nil || len(*refs) == 0 {
				drop = true
			}
		})
		r.check(!drop, rule, "errors of each entry are returned", p.pos(cb.Pos()), fnName(cb), "no error result is discarded in the callback", "an error copying one entry is dropped: the copy reports success with files missing")
	}
	// (3)
	rule = "E7.link-target-verbatim"
	{
		n := 0
		for _, fn := range fns {
			eachInstr(fn, false, func(_ *ssa.Function, i ssa.Instruction) {
				c, ok := i.(*ssa.Call)
				if !ok || !isCallTo(c, "os.Symlink") {
					return
				}
				n++
				verbatim := false
				if e, ok := c.Call.Args[0].(*ssa.Extract); ok && e.Index == 0 {
					if rc, ok := e.Tuple.(*ssa.Call); ok && isCallTo(rc, "os.Readlink") {
						verbatim = true
					}
				}
				r.check(verbatim, rule, fn.Name()+": os.Symlink(target as read, dest)", p.pos(c.Pos()), fnName(fn), "the link target is the unmodified result of os.Readlink", "the symlink is recreated with a rewritten target (resolved, joined or cleaned): relative links inside the copied tree no longer point where the originals did")
			})
		}
		if n == 0 {
			r.unresolved(rule, "os.Symlink calls in the copy functions")
		}
	}
	// (4)
	rule = "E7.destination-layout"
	{
		var to, from *ssa.Parameter
		for _, prm := range rec.Params {
			switch prm.Name() {
			case "to":
				to = prm
			case "from":
				from = prm
			}
		}
		okk := false
		eachInstr(cb, false, func(_ *ssa.Function, i ssa.Instruction) {
			c, ok := i.(*ssa.Call)
			if !ok || !isCallTo(c, "path/filepath.Join") {
				return
			}
			sl := backSlice(c, SliceOpts{})
			usesTo, suffix := false, false
			for x := range sl {
				if fv, ok := x.(*ssa.FreeVar); ok && freeVarBinding(fv) != nil && resolveParam(freeVarBinding(fv)) == to {
					usesTo = true
				}
				if s, ok := x.(*ssa.Slice); ok && s.Low != nil && s.High == nil {
					if lc, ok := s.Low.(*ssa.Call); ok {
						if b, ok := lc.Call.Value.(*ssa.Builtin); ok && b.Name() == "len" {
							if fv, ok := lc.Call.Args[0].(*ssa.FreeVar); ok && resolveParam(freeVarBinding(fv)) == from {
								suffix = true
							}
							if u, ok := lc.Call.Args[0].(*ssa.UnOp); ok {
								if fv, ok := u.X.(*ssa.FreeVar); ok && resolveParam(freeVarBinding(fv)) == from {
									suffix = true
								}
							}
						}
					}
				}
			}
			if usesTo && suffix {
				okk = true
			}
		})
		r.check(to != nil && from != nil && okk, rule, "dest = Join(to, name[len(from):])", p.pos(cb.Pos()), fnName(cb), "destination keeps the entry's position relative to the copied root", "the destination of an entry is not Join(to, <path of the entry relative to from>): the tree is flattened or rooted elsewhere")
	}
	// (5)
	rule = "E5.link-fallback-copies"
	{
		var link *ssa.Call
		eachInstr(col, false, func(_ *ssa.Function, i ssa.Instruction) {
			if c, ok := i.(*ssa.Call); ok && isCallTo(c, "os.Link") {
				link = c
			}
		})
		if link == nil {
			r.unresolved(rule, "os.Link in CopyOrLinkFile")
		} else {
			var fallback *ssa.Parameter
			for _, prm := range col.Params {
				if prm.Name() == "fallback" {
					fallback = prm
				}
			}
			bad := 0
			var site token.Pos
			for _, rc := range returnCases(col, 0) {
				k, isNil := errKnown(rc.Facts, []ssa.Value{link})
				if !k || isNil {
					continue
				}
				// link failed. If fallback is known false the error itself is returned: fine.
				fbFalse := fallback != nil && hasFact(rc.Facts, false, func(v ssa.Value) bool { return v == ssa.Value(fallback) })
				v := resolveLoad(rc.Vals[0])
				if isNilConst(v) {
					bad++
					site = rc.Site
					continue
				}
				if c, ok := v.(*ssa.Call); ok && callsFn(c, cf) {
					continue
				}
				if v == ssa.Value(link) && fbFalse {
					continue
				}
				// another error known non-nil
				if kk, nn := errKnown(rc.Facts, []ssa.Value{v}); kk && !nn {
					continue
				}
				if v == ssa.Value(link) {
					continue // returns the link error itself (non-nil on this edge)
				}
				bad++
				site = rc.Site
			}
			r.check(bad == 0, rule, "a failed hard link is only papered over by CopyFile", p.pos(link.Pos()), fnName(col), "on the os.Link error edge every return is that error, another non-nil error, or CopyFile's result", "after os.Link failed (e.g. the destination already exists) CopyOrLinkFile can report success at "+p.pos(site)+" without copying: a stale destination file is silently kept")
		}
	}
	_ = strings.Contains
}
