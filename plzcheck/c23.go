package main

import (
	"go/token"
	"go/types"
	"strings"

	"golang.org/x/tools/go/ssa"
)

func init() {
	register("C23", []string{"./src/query/..."}, checkC23)
}

func checkC23(p *Prog, r *Report) {
	r.Explanation = "Structural clauses of the dependency queries; graph reachability itself is a value property and is NOT decided. (1) a depth-limited traversal must not prune with a depth-oblivious visited set: a recursive function of package query that stops on `currentLevel == targetLevel` and also skips nodes found in a set keyed by label alone loses nodes first reached on a longer path (violated by query.deps on the pinned tree: recorded finding). (2) somepath: the visited set is consulted only for the node being expanded; a declared dependency is resolved through ProvideFor before anything is skipped, because what it resolves to depends on the requiring target. (3) revdeps seeding: when hidden targets are not shown, every target of the package whose parent is the queried target is seeded at depth 0 (the scan ranges over all targets of the package, not over the target's own dependencies). (4) revdeps depth accounting: the depth of a discovered target is the popped node's depth, plus one unless both belong to the same visible rule; expansion happens only below the level limit (or with no limit)."
	r.NotCovered = []string{"equality of query results with graph reachability", "ordering of printed output", "query somepath --except semantics"}
	deps := p.Fn("query", "deps")
	somePath := p.Fn("query", "somePath")
	findRev := p.Fn("query", "FindRevdeps")
	frd := p.Fn("query", "revdeps.findRevdeps")
	if deps == nil || somePath == nil || findRev == nil || frd == nil {
		r.unresolved("E5.depth-aware-visited-set", "query.deps / somePath / FindRevdeps / revdeps.findRevdeps")
		return
	}
	// (1)
	rule := "E5.depth-aware-visited-set"
	for _, fn := range p.Funcs("query") {
		if fn.Parent() != nil || len(callsInFn(fn, fn)) == 0 {
			continue
		}
		// depth cut-off: if intParam == intParam -> return
		var levelCut *ssa.BinOp
		eachInstr(fn, false, func(_ *ssa.Function, i ssa.Instruction) {
			if bo, ok := i.(*ssa.BinOp); ok && (bo.Op == token.EQL || bo.Op == token.GEQ || bo.Op == token.GTR) {
				px, okx := bo.X.(*ssa.Parameter)
				py, oky := bo.Y.(*ssa.Parameter)
				if okx && oky && isInt(px.Type()) && isInt(py.Type()) {
					levelCut = bo
				}
			}
		})
		if levelCut == nil {
			continue
		}
		// visited set: a map parameter keyed by label whose lookup guards a skip, with pure membership values (bool / struct{})
		var visited *ssa.Parameter
		for _, prm := range fn.Params {
			if m, ok := prm.Type().Underlying().(*types.Map); ok {
				if b, ok := m.Elem().Underlying().(*types.Basic); ok && b.Kind() == types.Bool {
					visited = prm
				}
				if st, ok := m.Elem().Underlying().(*types.Struct); ok && st.NumFields() == 0 {
					visited = prm
				}
			}
		}
		key := rule + "|" + fnName(fn)
		if visited == nil {
			r.add(Obligation{Rule: rule, Instance: fn.Name() + ": level-limited recursion without a level-blind visited set", Site: p.pos(fn.Pos()), Func: fnName(fn), Status: "discharged", Path: true, Key: key, Detail: "no membership-only set parameter"})
			continue
		}
		r.add(Obligation{Rule: rule, Instance: fn.Name() + ": level-limited recursion without a level-blind visited set", Site: p.pos(levelCut.Pos()), Func: fnName(fn), Status: "violated", Path: true, Key: key,
			Detail: fn.Name() + " stops at a level limit and also skips every target already in the membership-only set `" + visited.Name() + "`: a target first reached at depth d > 1 is never expanded again when it is reached at a smaller depth, so with r->a->b->c and r->b, `deps --level 2 r` omits c"})
	}
	// (1a) deps: an edge is free only between two targets of the same rule, decided on the parents of both ends
	{
		rl := "E5.deps-free-edge-same-rule"
		var lvl *ssa.Parameter
		for _, prm := range deps.Params {
			if prm.Name() == "currentLevel" {
				lvl = prm
			}
		}
		nFree, okFree, nPaid := 0, 0, 0
		for _, ci := range callsInFn(deps, deps) {
			c, ok := ci.(*ssa.Call)
			if !ok || lvl == nil {
				continue
			}
			free := false
			for _, a := range c.Call.Args {
				if a == ssa.Value(lvl) {
					free = true
				}
			}
			if !free {
				nPaid++
				continue
			}
			nFree++
			for _, f := range factsAt(c) {
				if sameRuleFact(f) {
					okFree++
					break
				}
			}
		}
		if lvl == nil {
			r.unresolved(rl, "parameter currentLevel of query.deps")
		} else {
			r.check(nFree == okFree && nPaid >= 1, rl, "deps recurses at the same level only between targets with the same parent", p.pos(deps.Pos()), fnName(deps), itoa(nFree)+" same-level recursion(s), each under dep.Label.Parent() == target.Label.Parent(); "+itoa(nPaid)+" charged recursion(s)", "deps recurses without charging a level under a test that is not `both ends have the same parent rule` (e.g. compares the dependency's parent with the current target itself, which fails when the current target is a hidden sub-target): chains of a rule's own hidden sub-targets consume the level budget, or foreign edges become free")
		}
	}
	// (1b) the reverse search: its queue is first-in-first-out while edges cost 0 or 1, so a target can be queued first at a
	// larger depth than its distance; the de-duplication must let a shallower rediscovery through
	if push := p.Fn("query", "openSet.Push"); push == nil {
		r.unresolved(rule, "query.openSet.Push")
	} else {
		recorded, reopen := false, false
		eachInstr(push, false, func(_ *ssa.Function, i ssa.Instruction) {
			switch x := i.(type) {
			case *ssa.MapUpdate:
				if tagsOf(x.Map, SliceOpts{})["query.openSet.done"] && tagsOf(x.Value, SliceOpts{})["query.node.depth"] {
					recorded = true
				}
			case *ssa.BinOp:
				if x.Op == token.LSS && tagsOf(x.X, SliceOpts{})["query.node.depth"] && tagsOf(x.Y, SliceOpts{})["query.openSet.done"] {
					reopen = true
				}
				if x.Op == token.GTR && tagsOf(x.Y, SliceOpts{})["query.node.depth"] && tagsOf(x.X, SliceOpts{})["query.openSet.done"] {
					reopen = true
				}
			}
		})
		// every queue insertion is on !present or depth < recorded
		guarded := true
		nIns := 0
		eachInstr(push, false, func(_ *ssa.Function, i ssa.Instruction) {
			c, ok := i.(*ssa.Call)
			if !ok || !(strings.HasSuffix(calleeName(&c.Call), "list.List).PushBack") || strings.HasSuffix(calleeName(&c.Call), "list.List).PushFront")) {
				return
			}
			nIns++
			if !blockJustified(c.Block(), func(f Fact) bool {
				if e, ok := f.V.(*ssa.Extract); ok && e.Index == 1 && !f.Val {
					return true // !present
				}
				if bo, ok := f.V.(*ssa.BinOp); ok && f.Val && (bo.Op == token.LSS || bo.Op == token.GTR) {
					return true
				}
				return false
			}, 4) {
				guarded = false
			}
		})
		r.add(Obligation{Rule: rule, Instance: "openSet.Push: a target found again at a smaller depth is queued again", Site: p.pos(push.Pos()), Func: fnName(push), Path: true, Key: rule + "|" + fnName(push),
			Status: map[bool]string{true: "discharged", false: "violated"}[recorded && reopen && guarded && nIns > 0],
			Detail: map[bool]string{true: "the visited map records the depth a target was queued at, and Push queues it when absent or when node.depth is smaller than the recorded one", false: "revdeps de-duplicates on push with a membership-only (or depth-blind) set although its first-in-first-out queue is not ordered by depth (edges inside a rule cost 0): a target first queued through a longer route keeps the larger depth, is not expanded under the level limit, and its reverse dependencies are lost (q <- A, q <- _y#h <- y, A <- y, y <- z: `revdeps --level 2 q` omits z)"}[recorded && reopen && guarded && nIns > 0]})
	}
	// (2)
	rule = "E7.visited-key-is-the-expanded-node"
	{
		var seen *ssa.Parameter
		for _, prm := range somePath.Params {
			if prm.Name() == "seen" {
				seen = prm
			}
		}
		if seen == nil {
			for _, prm := range somePath.Params {
				if _, ok := prm.Type().Underlying().(*types.Map); ok && seen == nil {
					seen = prm
				}
			}
		}
		n, bad := 0, 0
		var site token.Pos
		eachInstr(somePath, false, func(_ *ssa.Function, i ssa.Instruction) {
			var keyV ssa.Value
			switch x := i.(type) {
			case *ssa.Lookup:
				if x.X == ssa.Value(seen) {
					keyV = x.Index
				}
			case *ssa.MapUpdate:
				if x.Map == ssa.Value(seen) {
					keyV = x.Key
				}
			}
			if keyV == nil {
				return
			}
			n++
			tg := tagsOf(keyV, SliceOpts{})
			if tg["call:(*core.BuildTarget).DeclaredDependencies"] || tg["call:(*core.BuildTarget).ProvideFor"] {
				bad++
				site = i.Pos()
			}
		})
		r.check(seen != nil && n >= 2 && bad == 0, rule, "somePath consults its visited set only for the target being expanded", p.pos(somePath.Pos()), fnName(somePath), itoa(n)+" accesses, all keyed by the expanded target's own label", "somePath skips a declared dependency because its label is in the visited set (at "+p.pos(site)+") before resolving what it provides for this target: a path that exists only through a provided target is reported as missing")
		// every declared dependency is resolved through ProvideFor before recursing
		okk := false
		for _, ci := range callsInFn(somePath, somePath) {
			c := ci.(*ssa.Call)
			for _, a := range c.Call.Args {
				if tagsOf(a, SliceOpts{})["call:(*core.BuildTarget).ProvideFor"] {
					okk = true
				}
			}
		}
		r.check(okk, rule, "recursion follows what the dependency provides for this target", p.pos(somePath.Pos()), fnName(somePath), "the recursive call takes an element of ProvideFor(target1)", "somePath follows declared dependencies without resolving require/provide")
	}
	// (3)
	rule = "E5.revdeps-seeds-hidden-children"
	{
		pushes := 0
		seeded := false
		eachInstrS(findRev, func(_ *ssa.Function, i ssa.Instruction) {
			c, ok := i.(*ssa.Call)
			if !ok || !strings.HasSuffix(calleeName(&c.Call), "openSet).Push") {
				return
			}
			pushes++
			// the pushed node's target: from a range over AllTargets() under Parent(...) == target
			tg := tagsOf(c.Call.Args[1], SliceOpts{})
			if !tg["call:(*core.Package).AllTargets"] {
				return
			}
			for _, f := range factsAt(c) {
				if bo, ok := f.V.(*ssa.BinOp); ok && bo.Op == token.EQL && f.Val {
					if tagsOf(bo.X, SliceOpts{})["call:(*core.BuildTarget).Parent"] || tagsOf(bo.Y, SliceOpts{})["call:(*core.BuildTarget).Parent"] {
						seeded = true
					}
				}
			}
		})
		r.check(pushes >= 2 && seeded, rule, "all targets of the package whose parent is the queried target are seeded", p.pos(findRev.Pos()), fnName(findRev), "a Push under child.Parent(graph) == target inside a range over the package's AllTargets()", "only some of the queried rule's hidden sub-targets are seeded (e.g. its direct dependencies): nested or provide-only sub-targets are never reached, so everything that depends on them disappears from `revdeps`")
		// seeds have depth 0
		zero := true
		worker := p.Fn("query", "revdeps.findRevdeps") // the expansion loop exists only for FindRevdeps too; its depths are not seeds
		eachInstrS(findRev, func(in *ssa.Function, i ssa.Instruction) {
			st, ok := i.(*ssa.Store)
			if !ok || in == worker || fieldKey(st.Addr) != "query.node.depth" {
				return
			}
			if v, isC := constInt(st.Val); !isC || v != 0 {
				zero = false
			}
		})
		r.check(zero, rule, "seeds start at depth 0", p.pos(findRev.Pos()), fnName(findRev), "node.depth is the constant 0 for every seed", "a seed is pushed with a non-zero depth: edges between a rule and its own hidden sub-targets are charged")
	}
	p.revdepsIndexComplete(r, "E5.revdeps-index-complete")
	// the visited set of a path search is valid for one goal only: the set handed to the DFS is the memo entry keyed by
	// the label of the DFS's goal argument
	{
		rl := "E7.visited-set-belongs-to-the-goal"
		sp := p.Fn("query", "somepath.somePath")
		SP := p.Fn("query", "somepath.SomePath")
		if sp == nil || SP == nil {
			r.unresolved(rl, "query.somepath.somePath / SomePath")
		} else {
			labelOf := func(v ssa.Value) ssa.Value {
				// the label a *BuildTarget argument was looked up from
				if c, ok := v.(*ssa.Call); ok && strings.HasSuffix(calleeName(&c.Call), "TargetOrDie") && len(c.Call.Args) > 1 {
					return c.Call.Args[len(c.Call.Args)-1]
				}
				return v
			}
			keyOf := func(v ssa.Value, in *ssa.Function) ssa.Value {
				for x := range backSlice(v, SliceOpts{StopAtCall: func(*ssa.Call) bool { return true }}) {
					if lk, ok := x.(*ssa.Lookup); ok && tagsOf(lk.X, SliceOpts{})["query.somepath.memo"] {
						return lk.Index
					}
				}
				return nil
			}
			n, bad := 0, 0
			for _, f := range p.Funcs("query") {
				if f == somePath {
					continue // the recursion passes its own set and goal on unchanged
				}
				for _, ci := range callsInFn(f, somePath) {
					cc := callCommon(ci)
					if len(cc.Args) < 4 {
						continue
					}
					n++
					goal := labelOf(cc.Args[2])
					seenArg := cc.Args[3]
					if key := keyOf(seenArg, f); key != nil {
						if key != goal {
							bad++
						}
						continue
					}
					// the set comes in as a parameter: look at the callers of f
					prm, isPrm := seenArg.(*ssa.Parameter)
					goalPrm, goalIsPrm := goal.(*ssa.Parameter)
					if !isPrm || !goalIsPrm {
						bad++
						continue
					}
					idxOf := func(q *ssa.Parameter) int {
						for k, x := range f.Params {
							if x == q {
								return k
							}
						}
						return -1
					}
					for _, cs := range p.callers(f) {
						ac := callCommon(cs)
						si, gi := idxOf(prm), idxOf(goalPrm)
						if si < 0 || gi < 0 || si >= len(ac.Args) || gi >= len(ac.Args) {
							bad++
							continue
						}
						// the set argument: result of a helper whose own parameter keys the memo, or a lookup here
						var key ssa.Value
						if hc, ok := ac.Args[si].(*ssa.Call); ok && hc.Call.StaticCallee() != nil && len(hc.Call.Args) > 0 {
							h := hc.Call.StaticCallee()
							if len(h.Params) > 0 {
								for _, rc := range returnCases(h, 0) {
									if k := keyOf(rc.Vals[0], h); k != nil && k == ssa.Value(h.Params[len(h.Params)-1]) {
										key = hc.Call.Args[len(hc.Call.Args)-1]
									}
								}
							}
						} else {
							key = keyOf(ac.Args[si], cs.Parent())
						}
						if key == nil || key != ac.Args[gi] {
							bad++
						}
					}
				}
			}
			r.check(n > 0 && bad == 0, rl, "the visited set passed to the path search is the one remembered for its goal", p.pos(sp.Pos()), fnName(sp), itoa(n)+" call(s) of the DFS, each with memo[goal]", "a path search is handed the visited set remembered for another goal (e.g. the set of target2 for the reverse search towards target1): targets explored while failing to reach one goal are skipped when looking for another, and an existing path is reported as missing")
		}
	}
	// (4)
	rule = "E5.revdeps-depth-accounting"
	{
		// depth stored in pushed nodes: phi(next.depth, next.depth+1) with the +1 edge guarded by hidden || !isSameTarget
		okDepth, okCut := false, false
		eachInstr(frd, false, func(_ *ssa.Function, i ssa.Instruction) {
			st, ok := i.(*ssa.Store)
			if ok && fieldKey(st.Addr) == "query.node.depth" {
				if phi, ok := st.Val.(*ssa.Phi); ok && len(phi.Edges) == 2 {
					plus, same := false, false
					for _, e := range phi.Edges {
						if bo, ok := e.(*ssa.BinOp); ok && bo.Op == token.ADD {
							if one, ok := constInt(bo.Y); ok && one == 1 && tagsOf(bo.X, SliceOpts{})["query.node.depth"] {
								plus = true
							}
						} else if tagsOf(e, SliceOpts{})["query.node.depth"] {
							same = true
						}
					}
					okDepth = plus && same
				}
				// expansion only below the limit
				for _, f := range factsAt(st) {
					_ = f
				}
				okCut = blockJustified(st.Block(), func(f Fact) bool {
					bo, ok := f.V.(*ssa.BinOp)
					if !ok {
						return false
					}
					// the comparison in positive form: `!(a >= b)` is `a < b`, `!(a != b)` is `a == b`, `b > a` is `a < b`
					// (the guard may be written as `if limit != -1 && depth >= limit { continue }`)
					op, x, y := bo.Op, bo.X, bo.Y
					if !f.Val {
						switch op {
						case token.GEQ:
							op = token.LSS
						case token.LEQ:
							op = token.GTR
						case token.NEQ:
							op = token.EQL
						default:
							return false
						}
					}
					if op == token.GTR {
						op, x, y = token.LSS, y, x
					}
					if op == token.LSS && tagsOf(x, SliceOpts{})["query.node.depth"] && tagsOf(y, SliceOpts{})["query.revdeps.maxDepth"] {
						return true
					}
					if op == token.EQL && tagsOf(x, SliceOpts{})["query.revdeps.maxDepth"] {
						if v, ok := constInt(y); ok && v == -1 {
							return true
						}
					}
					return false
				}, 9)
			}
		})
		r.check(okDepth, rule, "depth = popped depth, +1 unless same visible rule", p.pos(frd.Pos()), fnName(frd), "the stored depth merges next.depth and next.depth+1", "the depth given to a discovered reverse dependency is not {popped depth, popped depth + 1}")
		r.check(okCut, rule, "expansion only below the level limit", p.pos(frd.Pos()), fnName(frd), "push is under next.depth < maxDepth or maxDepth == -1", "reverse dependencies are expanded without regard to the level limit (or the unlimited case is lost)")
		same := p.Fn("query", "isSameTarget")
		guarded := false
		if same != nil {
			eachInstr(frd, false, func(_ *ssa.Function, i ssa.Instruction) {
				if bo, ok := i.(*ssa.BinOp); ok && bo.Op == token.ADD {
					if one, ok := constInt(bo.Y); ok && one == 1 && tagsOf(bo.X, SliceOpts{})["query.node.depth"] {
						guarded = blockJustified(bo.Block(), func(f Fact) bool {
							if c, ok := f.V.(*ssa.Call); ok && callsFn(c, same) && !f.Val {
								return true
							}
							return fieldKeyOfLoad(f.V) == "query.revdeps.hidden" && f.Val
						}, 3)
					}
				}
			})
		}
		r.check(guarded, rule, "no charge inside one visible rule", p.pos(frd.Pos()), fnName(frd), "depth+1 only on hidden || !isSameTarget", "edges between a rule and its own hidden sub-targets are charged a level (or never charged)")
	}
}

// revdepsIndexComplete: the reverse-dependency index is built from the declared dependencies of every target of the
// graph; options such as includeSubrepos decide what is *shown*, never which edges exist (the search has to pass
// through subrepo and hidden targets to reach what lies behind them).
func (p *Prog) revdepsIndexComplete(r *Report, rule string) {
	br := p.Fn("query", "buildRevdeps")
	if br == nil {
		r.unresolved(rule, "query.buildRevdeps")
		return
	}
	n := 0
	for _, l := range sliceRangeLoops(br) {
		if c, ok := l.over.(*ssa.Call); !ok || calleeName(&c.Call) != "(*core.BuildGraph).AllTargets" {
			continue
		}
		n++
		skips := l.iterationSkips(func(j ssa.Instruction) bool {
			cc := callCommon(j)
			return cc != nil && calleeName(cc) == "(*core.BuildTarget).DeclaredDependencies"
		})
		r.check(!skips, rule, "every target's declared dependencies are indexed", p.pos(br.Pos()), fnName(br), "no iteration over AllTargets() can finish without reading the target's DeclaredDependencies()", "buildRevdeps leaves some targets out of the reverse-dependency index (e.g. everything inside subrepos when they are not to be shown): the search cannot pass through them, so main-repo targets that depend on a changed target via a subrepo target are not reported")
	}
	if n == 0 {
		r.unresolved(rule, "loop over graph.AllTargets() in query.buildRevdeps")
	}
	// the synthetic edge from a subrepo's generating target to the targets inside it is added for every such target when
	// asked for (includeSubrepos), under no further condition: leaving it out for some of them lengthens their distance
	nE, extra := 0, ""
	eachInstr(br, false, func(_ *ssa.Function, i ssa.Instruction) {
		mu, ok := i.(*ssa.MapUpdate)
		if !ok || !tagsOf(mu.Key, SliceOpts{})["core.Subrepo.Target"] {
			return
		}
		nE++
		for _, f := range factsAt(mu) {
			switch v := f.V.(type) {
			case *ssa.Parameter:
				// includeSubrepos
			case *ssa.BinOp:
				if isNilConst(v.X) || isNilConst(v.Y) {
					continue
				}
				if v.Op == token.LSS || v.Op == token.GEQ {
					continue // loop bounds (rangeindex < len)
				}
				extra = v.String()
			case *ssa.Extract:
				// ok flags of lookups / range iteration in the loop
			case *ssa.Phi, *ssa.UnOp, *ssa.Call:
				extra = f.V.String()
			}
		}
	})
	if nE > 0 {
		r.check(extra == "", rule, "every target inside a subrepo gets the edge from the subrepo's target", p.pos(br.Pos()), fnName(br), "the edge is added under includeSubrepos and the two nil checks only", "the implicit edge from a subrepo's generating target is added only for some of the subrepo's targets ("+extra+"): the others are reached through longer chains, so a level-limited revdeps query on the generating target (the CLI default is --level 1) leaves them and what depends on them out")
	}
}

func isInt(t types.Type) bool {
	b, ok := t.Underlying().(*types.Basic)
	return ok && b.Info()&types.IsInteger != 0
}

// sameRuleFact: does the fact say "both ends belong to the same rule"? Either an equality whose two operands are
// Parent() results, or a true result of a repository helper that takes the parents of (at least) two of its parameters.
func sameRuleFact(f Fact) bool {
	if !f.Val {
		return false
	}
	isParent := func(n string) bool {
		return n == "(core.BuildLabel).Parent" || n == "(*core.BuildTarget).Parent"
	}
	switch v := f.V.(type) {
	case *ssa.BinOp:
		if v.Op != token.EQL {
			return false
		}
		has := func(x ssa.Value) bool {
			t := tagsOf(x, SliceOpts{})
			return t["call:(core.BuildLabel).Parent"] || t["call:(*core.BuildTarget).Parent"]
		}
		return has(v.X) && has(v.Y)
	case *ssa.Call:
		g := v.Call.StaticCallee()
		if g == nil || g.Blocks == nil || !strings.HasPrefix(fnPkg(g), modPath+"/src/") {
			return false
		}
		prms := map[*ssa.Parameter]bool{}
		eachInstr(g, false, func(_ *ssa.Function, i ssa.Instruction) {
			cc := callCommon(i)
			if cc == nil || !isParent(calleeName(cc)) || len(cc.Args) == 0 {
				return
			}
			for x := range backSlice(cc.Args[0], SliceOpts{}) {
				if prm, ok := x.(*ssa.Parameter); ok && prm.Parent() == g {
					prms[prm] = true
				}
			}
		})
		return len(prms) >= 2
	}
	return false
}
