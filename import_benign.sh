#!/bin/bash
# import_benign.sh Cxx : copies a sub-agent's behaviour-preserving refactorings from /tmp/benign-out/Cxx to
# /verif/benign/Cxx and runs every property's rules on the combined patch; on an alarm, each step is run
# against the alarming properties to find which refactoring triggers it. Appends to benign/RAW.tsv.
set -u
HERE="$(cd "$(dirname "${BASH_SOURCE[0]}")" && pwd)"
ID="$1"; SRC="/tmp/benign-out/$ID"; DST="$HERE/benign/$ID"
[ -f "$SRC/all.diff" ] || { echo "no $SRC/all.diff"; exit 2; }
mkdir -p "$DST"; cp "$SRC"/*.diff "$SRC/meta.json" "$DST/" 2>/dev/null
git -C /repo rev-parse --short HEAD > "$DST/base.txt"
OUT=$("$HERE/benigntest.sh" "$DST/all.diff" 2>&1); echo "$OUT"
touch "$HERE/benign/RAW.tsv"; grep -v "^$ID	" "$HERE/benign/RAW.tsv" > "$HERE/benign/RAW.tsv.new"; mv "$HERE/benign/RAW.tsv.new" "$HERE/benign/RAW.tsv"
if echo "$OUT" | grep -q "^QUIET"; then printf '%s\tall\tQUIET\t-\n' "$ID" >> "$HERE/benign/RAW.tsv"; exit 0; fi
if echo "$OUT" | grep -q "^SKIPPED"; then printf '%s\tall\tSKIPPED\t-\n' "$ID" >> "$HERE/benign/RAW.tsv"; exit 2; fi
PROPS=$(echo "$OUT" | grep -E "^(ALARM|BROKEN) C[0-9]+" | awk '{print $2}' | sort -u | tr '\n' ' ')
printf '%s\tall\tALARM\t%s\n' "$ID" "$PROPS" >> "$HERE/benign/RAW.tsv"
for s in "$DST"/step-*.diff; do
  o=$("$HERE/benigntest.sh" "$s" $PROPS 2>&1); echo "$o" | head -12
  if echo "$o" | grep -q "^QUIET"; then st=QUIET; else st=ALARM; fi
  printf '%s\t%s\t%s\t%s\n' "$ID" "$(basename "$s")" "$st" "$(echo "$o" | grep -E '^(ALARM|BROKEN) C' | awk '{print $2}' | sort -u | tr '\n' ' ')" >> "$HERE/benign/RAW.tsv"
done
exit 1
