#!/bin/bash
# seedtest.sh [id...] : runs each independently seeded change (seeded/<id>/patch.diff, or patch.ported.diff when the
# original no longer applies to the repaired tree) through the check of its property on a scratch copy and prints
# one line per seed. Writes seeded/RESULTS.tsv.
cd "$(dirname "$0")"
ids=("$@"); [ ${#ids[@]} -eq 0 ] && ids=($(ls seeded | grep -E '^C[0-9]+-[0-9]+$'))
: > /tmp/seedtest.$$.tsv
for id in "${ids[@]}"; do
  prop=${id%-*}; d=seeded/$id
  patch=$d/patch.diff; [ -f $d/patch.ported.diff ] && patch=$d/patch.ported.diff
  if [ -f $d/neutralised.txt ]; then echo -e "$id\t$prop\tNEUTRALISED-BY-FIX\t$(head -1 $d/neutralised.txt | cut -c1-80)\t-" >> /tmp/seedtest.$$.tsv; continue; fi
  if ! ./run.sh list | grep -qw $prop; then echo -e "$id\t$prop\tNOT-CLAIMED\t-" >> /tmp/seedtest.$$.tsv; continue; fi
  out=$(./mutest.sh $prop $patch 2>&1)
  st=$(echo "$out" | head -1 | awk '{print $1}')
  keys=$(echo "$out" | grep '^    KEY ' | sed 's/^    KEY //' | cut -f1 | cut -d'|' -f1 | sort -u | tr '\n' ',' | sed 's/,$//')
  echo -e "$id\t$prop\t$st\t${keys:--}\t$(basename $patch)" >> /tmp/seedtest.$$.tsv
done
sort -V /tmp/seedtest.$$.tsv | tee seeded/RESULTS.tsv.new | cut -f1-4
# merge with existing results when only a subset was run
if [ $# -gt 0 ] && [ -f seeded/RESULTS.tsv ]; then
  (grep -v -F -f <(cut -f1 seeded/RESULTS.tsv.new | sed 's/$/\t/') seeded/RESULTS.tsv; cat seeded/RESULTS.tsv.new) | sort -V > seeded/RESULTS.tsv.m && mv seeded/RESULTS.tsv.m seeded/RESULTS.tsv; rm seeded/RESULTS.tsv.new
else mv seeded/RESULTS.tsv.new seeded/RESULTS.tsv; fi
rm -f /tmp/seedtest.$$.tsv
