#!/usr/bin/env python3
# Regenerates the two data tables of DESIGN.md (between BEGIN/END markers) from what the machinery produced:
#  inventory: evidence/*.json + mutants/ ; seeds: seeded/RESULTS.tsv + seeded/*/meta.json
import json, glob, os, re, collections
V = os.path.dirname(os.path.abspath(__file__))
def inventory():
    rows = ["| id | obligations on the pinned+repaired tree | known | self-test patches (mutants+seeds) | rules |", "|----|------|------|------|-------|"]
    for f in sorted(glob.glob(V + "/evidence/C*.json")):
        e = json.load(open(f)); pid = e["property_id"]; c = e["coverage"]
        nm = len(glob.glob(V + "/mutants/%s-*.patch" % pid)); ns = len([d for d in glob.glob(V + "/seeded/%s-*" % pid) if os.path.isdir(d)])
        rules = ", ".join(sorted(c.get("obligations_by_rule", {}).keys()))
        rows.append("| %s | %s | %s | %d+%d | %s |" % (pid, c.get("obligations"), c.get("known", 0), nm, ns, rules))
    return "\n".join(rows)
def seeds():
    rows = ["| seed | result | caught by rule(s) | what the change does |", "|---|---|---|---|"]
    cnt = collections.Counter()
    for l in open(V + "/seeded/RESULTS.tsv"):
        p = l.rstrip("\n").split("\t")
        if len(p) < 4: continue
        sid, prop, res, rules = p[:4]
        try: m = json.load(open(V + "/seeded/%s/meta.json" % sid))
        except Exception: m = {}
        s = re.sub(r"\s+", " ", m.get("summary", "")).replace("|", "\\|")[:260]
        if res.startswith("NEUTRALISED"): rules = "-"
        rows.append("| %s | %s | %s | %s |" % (sid, res, rules.replace("|", "\\|"), s)); cnt[res] += 1
    rows.append("")
    rows.append("Totals: " + ", ".join("%s %d" % kv for kv in sorted(cnt.items())) + " (of %d)." % sum(cnt.values()))
    return "\n".join(rows)
def findings():
    rows = ["| property | status | commit | rule key | failing input / history |", "|---|---|---|---|---|"]
    for f in json.load(open(V + "/known_findings.json")):
        rows.append("| %s | %s | %s | `%s` | %s |" % (f["property"], f["status"], f.get("commit", "-"), f["key"].replace("|", "\\|"), re.sub(r"^fixed: property=\S+ \S+ ", "", f["what"]).replace("|", "\\|")))
    return "\n".join(rows)
d = open(V + "/DESIGN.md").read()
for name, fn in (("inventory", inventory), ("seeds", seeds), ("findings", findings)):
    b, e = "<!-- BEGIN:%s -->" % name, "<!-- END:%s -->" % name
    i, j = d.index(b) + len(b), d.index(e)
    d = d[:i] + "\n" + fn() + "\n" + d[j:]
open(V + "/DESIGN.md", "w").write(d)
print("tables regenerated")
